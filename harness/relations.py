# relations.py — the relational properties executed on the implementation alone.
# These are the *search* for a concrete failing input (and a cheap early warning);
# they never stand in for the theorems.
import copy, random, math, os, json
import numpy as np
import mwh, gen

def canon_out(o):
    return o

def outs_equal(a, b, mode="exact", rtol=1e-9, atol=1e-12):
    """compare two canonical outputs produced by mwh.apply_op"""
    if a[0] != b[0]:
        return False
    k = a[0]
    if k in ("done",):
        return True
    if k == "rejected":
        return True
    if k == "arm":
        return a[1] == b[1]
    if k == "arms":
        return list(a[1]) == list(b[1])
    def dict_eq(d1, d2):
        if [x for x, _ in d1] != [x for x, _ in d2]:
            return False
        for (_, v1), (_, v2) in zip(d1, d2):
            if v1 == "nan" or v2 == "nan":
                if v1 != v2:
                    return False
                continue
            if mode == "exact":
                if v1 != v2 and mwh.bits_f(v1) != mwh.bits_f(v2):
                    return False
            else:
                x, y = mwh.bits_f(v1), mwh.bits_f(v2)
                if not (x == y or abs(x - y) <= atol + rtol * max(abs(x), abs(y))):
                    return False
        return True
    if k == "exp":
        return dict_eq(a[1], b[1])
    if k == "exps":
        return len(a[1]) == len(b[1]) and all(dict_eq(x, y) for x, y in zip(a[1], b[1]))
    return a == b

def drive(case, ops=None, mab=None, label=None, inv=None):
    """build (or continue) a bandit and apply ops; returns (mab, label, inv, outs)"""
    if mab is None:
        mab, label, inv = mwh.build_mab(case)
    outs = [mwh.apply_op(mab, o, label, inv, case) for o in (case["ops"] if ops is None else ops)]
    return mab, label, inv, outs

def sync_rngs(src, dst):
    """copy every random-stream position of bandit src into bandit dst (same structure)"""
    a, b = mwh.all_rngs(src), mwh.all_rngs(dst)
    if len(a) != len(b):
        return False
    for x, y in zip(a, b):
        y.rng.bit_generator.state = copy.deepcopy(x.rng.bit_generator.state)
        if hasattr(x.rng, "_d"):
            y.rng._d = x.rng._d
    return True

def is_lin(case):
    return case["lp"][0] in gen.LIN_KINDS

def rel_mode(case):
    return "tol" if is_lin(case) else "exact"

def query_ops(case):
    return [o for o in case["ops"] if o[0] in ("pred", "pexp")]

def split_chunks(rng, n, max_chunks=8):
    """a random split of range(n) into consecutive non-empty chunks (one-row chunks likely)"""
    if n <= 1:
        return [n]
    k = rng.randint(1, min(max_chunks, n))
    cuts = sorted(rng.sample(range(1, n), k - 1))
    sizes = [b - a for a, b in zip([0] + cuts, cuts + [n])]
    return sizes

# ------------------------------------------------------------------ C06
def gen_c06_zero_prefix(rng):
    """a history that starts with rewards 0 only (Popularity and Softmax fall back to equal shares / equal exponents there) and has an arm that
    is never observed; the first chunk ends inside the zero prefix: whatever the fallback leaves behind must not weigh in later chunks"""
    kind = rng.choice(["popularity", "popularity", "softmax", "greedy", "ucb"])
    n_arms = rng.randint(3, 5)
    arms = rng.sample(range(0, 12), n_arms)
    seen = arms[:]; seen.remove(rng.choice(arms))
    n = rng.randint(5, 16)
    z = rng.randint(1, n - 2)
    ds = [rng.choice(seen) for _ in range(n)]
    rs = [0.0] * z + [float(rng.choice([0, 1, 1, 2, 3])) for _ in range(n - z)]
    if not any(rs):
        rs[-1] = 1.0
    lp = (kind,) if kind == "popularity" else (kind, 0.0 if kind == "greedy" else gen.gen_hp(rng, kind))
    base = {"arms": arms, "lp": lp, "np": None, "seed": rng.randint(0, 2**31 - 2), "ops": [], "label": rng.choice(["int", "str"]),
            "mode": "exact", "reward_style": "smallint"}
    first = rng.randint(1, z)
    sizes = [first] + split_chunks(rng, n - first)
    queries = [("pexp", None), ("pred", None)]
    chunk_ops = []; off = 0
    for j, k in enumerate(sizes):
        chunk_ops.append(("fit" if j == 0 else "pfit", ds[off:off + k], rs[off:off + k], None)); off += k
    return {"base": base, "batch_ops": [("fit", ds, rs, None)] + queries, "chunk_ops": chunk_ops + queries, "sizes": sizes}

def gen_c06(rng, tier):
    """one training history, as a single fit and as fit + partial_fit chunks"""
    ctx = rng.random() < 0.6
    if rng.random() < 0.07:
        return gen_c06_zero_prefix(rng)
    if rng.random() < 0.1:
        # Thompson Sampling with a binarizer that is NOT the identity on {0, 1} (flip, or a threshold above 1) under a policy that stores
        # the history: rewards converted when they were first observed must not pass through the binarizer again with a later chunk
        ctx = True
        base = gen.gen_ctx_case(rng, nps=[rng.choice(["radius", "knearest", "lsh", "clusters"])], lps=["thompson"], max_ops=0, arm_changes=False,
                                reward_styles=["smallint"], max_rows=40)
        base["lp"] = ("thompson", rng.choice([("flip",), ("gt", 1.5), ("thr", [(a, 2.0) for a in base["arms"]], 2.0)]))
        fit0 = base["ops"][0]
        base["ops"] = [("fit", fit0[1], [float(rng.randint(0, 4)) for _ in fit0[2]], fit0[3])] + list(base["ops"][1:])
    elif ctx:
        base = gen.gen_ctx_case(rng, nps=["none", "radius", "knearest", "lsh", "clusters"], max_ops=0, arm_changes=False,
                                reward_styles=["dyadic", "smallint", "binary"], max_rows=40 if tier == "quick" else 120)
        if is_lin(base) and base["lp"][3]:
            lp = list(base["lp"]); lp[3] = False; base["lp"] = tuple(lp)     # scale=True excluded by design
    else:
        base = gen.gen_cf_case(rng, max_ops=0, arm_changes=False, styles=["dyadic", "smallint", "binary", "nonneg_dyadic", "sparse", "sparse"],
                               foreign_decisions=False)
        if base["lp"][0] == "popularity":
            base["reward_style"] = "nonneg_dyadic"
    fit = base["ops"][0]
    ds, rs, cx = fit[1], fit[2], fit[3]
    if base["lp"][0] == "popularity":
        rs = [abs(r) for r in rs]
    if base["lp"][0] == "thompson" and base["lp"][1] is None:
        rs = [float(int(abs(r)) % 2) for r in rs]
    n = len(ds)
    if base.get("np") and base["np"][0] == "clusters":
        first_min = max(6, base["np"][1])
    elif base.get("np") and base["np"][0] == "knearest":
        first_min = 1
    else:
        first_min = 1
    sizes = split_chunks(rng, n)
    # the first chunk must be able to train (k-means needs n_clusters rows); queries come after all chunks
    while sizes and sizes[0] < first_min and len(sizes) > 1:
        sizes[1] += sizes[0]; sizes.pop(0)
    queries = query_ops(base)
    if not queries:
        d = len(cx[0]) if cx else 1
        queries = [("pexp", None if cx is None else gen.gen_ctx(rng, 2, d)), ("pred", None if cx is None else gen.gen_ctx(rng, 1, d))]
    if base.get("np") and base["np"][0] == "knearest":
        pass
    batch_ops = [("fit", ds, rs, cx)] + queries
    chunk_ops = []
    off = 0
    for j, s in enumerate(sizes):
        c = (ds[off:off + s], rs[off:off + s], None if cx is None else cx[off:off + s])
        chunk_ops.append(("fit" if j == 0 else "pfit",) + c)
        off += s
    chunk_ops += queries
    return {"base": base, "batch_ops": batch_ops, "chunk_ops": chunk_ops, "sizes": sizes}

def run_c06(t):
    base = t["base"]
    c1 = dict(base); c1["ops"] = t["batch_ops"]
    c2 = dict(base); c2["ops"] = t["chunk_ops"]
    _, _, _, o1 = drive(c1)
    _, _, _, o2 = drive(c2)
    q1 = [o for o, op in zip(o1, c1["ops"]) if op[0] in ("pred", "pexp")]
    q2 = [o for o, op in zip(o2, c2["ops"]) if op[0] in ("pred", "pexp")]
    if any(o[0] == "rejected" for o in o1) or any(o[0] == "rejected" for o in o2):
        # a training step was rejected (e.g. k larger than the rows seen so far is only a query-time error)
        rej1 = [o for o in o1 if o[0] == "rejected"]; rej2 = [o for o in o2 if o[0] == "rejected"]
        if len(rej1) != len(rej2) or any(o[0] == "rejected" for o, op in zip(o2, c2["ops"]) if op[0] in ("fit", "pfit")) != \
                any(o[0] == "rejected" for o, op in zip(o1, c1["ops"]) if op[0] in ("fit", "pfit")):
            return False, {"why": "one side rejected a call", "batch": str(rej1)[:300], "chunked": str(rej2)[:300]}
    mode = rel_mode(base)
    for i, (a, b) in enumerate(zip(q1, q2)):
        if not outs_equal(a, b, mode, rtol=1e-7):
            return False, {"why": "query %d differs between batch and chunked training" % i, "batch": str(a)[:400], "chunked": str(b)[:400]}
    return True, {}

# ------------------------------------------------------------------ C07
def current_config(mab, case, inv):
    """configuration of a fresh bandit equivalent to `mab` now: current arms and current binarizer"""
    c = dict(case)
    c["arms"] = [inv(a) for a in mab.arms]
    return c

def gen_c07_warm_refit(rng):
    """fit leaving arms cold -> warm_start (quantile 1: every cold arm receives a donor's model): the re-fit of run_c07 then leaves
    the warm arms out of D in most cases - nothing of the donated state may survive it.  Linear and context-free policies."""
    lin = rng.random() < 0.6
    n_arms = rng.randint(3, 5)
    arms = rng.sample(range(0, 12), n_arms)
    cold = rng.sample(arms, rng.randint(1, n_arms - 2))
    hot = [a for a in arms if a not in cold]
    d = rng.randint(1, 3)
    n = rng.randint(len(hot) + 3, 14)
    ds = hot + [rng.choice(hot) for _ in range(n - len(hot))]
    rng.shuffle(ds)
    if lin:
        kind = rng.choice(["lingreedy", "linucb"])
        lp = (kind, 0.0 if kind == "lingreedy" else 0.5, rng.choice([0.5, 1.0, 2.0]), rng.random() < 0.3, True)
        rs = [float(rng.randint(1, 6)) for _ in ds]
        cx = gen.gen_ctx(rng, n, d)
        style = "smallint"
    else:
        kind = rng.choice(["greedy", "ucb", "softmax", "thompson"])
        lp = (kind, None) if kind == "thompson" else (kind, 0.0 if kind == "greedy" else gen.gen_hp(rng, kind))
        rs = [float(rng.randint(0, 1)) for _ in ds] if kind == "thompson" else [float(rng.randint(1, 6)) for _ in ds]
        cx = None
        style = "binary" if kind == "thompson" else "smallint"
    dim = rng.randint(2, 3)
    feat = {a: [float(rng.randint(1, 5)) for _ in range(dim)] for a in arms}
    keys = list(arms); rng.shuffle(keys)
    ops = [("fit", ds, rs, cx), ("warm", keys, [feat[a] for a in keys], 1.0)]
    base = {"arms": arms, "lp": lp, "np": None, "seed": rng.randint(0, 2**31 - 2), "ops": ops, "label": rng.choice(["int", "str"]),
            "mode": "tol" if lin else "exact", "reward_style": style}
    return {"base": base, "d_old": (d if lin else None), "seed2": rng.randint(0, 10**9), "same_width": True}

def gen_c07_other_width(rng):
    """a contextual bandit (TreeBandit half of the time) trained on every arm, then re-fitted by run_c07 on a data set of ANOTHER
    width that leaves the first trained arm out: nothing fitted before the call - a tree, a feature count - may decide whether the
    calls after the re-fit are accepted."""
    nps = ["tree"] if rng.random() < 0.5 else ["tree", "radius", "knearest", "lsh", "clusters", "none"]
    base = gen.gen_ctx_case(rng, nps=nps, max_ops=rng.choice([1, 1, 2, 3]), warm=False, max_rows=25, arm_changes=False, fit_prob=0.0)
    first = base["ops"][0]
    return {"base": base, "d_old": len(first[3][0]), "seed2": rng.randint(0, 10**9), "new_width": True, "leave_out": True}

def gen_c07(rng, tier):
    z = rng.random()
    if z < 0.1:
        return gen_c07_warm_refit(rng)
    if z < 0.22:
        return gen_c07_other_width(rng)
    ctx = rng.random() < 0.6
    if ctx:
        base = gen.gen_ctx_case(rng, max_ops=5, warm=True, max_rows=25)
    else:
        base = gen.gen_cf_case(rng, max_ops=6, warm=True, max_rows=30)
    # new data set D: smaller / larger / other width
    first = base["ops"][0] if base["ops"][0][0] in ("fit", "pfit") else base["ops"][1]
    d_old = None if first[3] is None else len(first[3][0])
    return {"base": base, "d_old": d_old, "seed2": rng.randint(0, 10**9)}

def run_c07(t):
    base = t["base"]
    rng = random.Random(t["seed2"])
    mab, label, inv, outs = drive(base)
    if not mab._is_initial_fit:
        return True, {"skipped": "history never trained"}
    # binarizer currently in force (add_arm may have replaced it): rebuild the lp code from the op list
    lp = base["lp"]
    if lp[0] == "thompson":
        bz = lp[1]
        for o, r in zip(base["ops"], outs):
            if o[0] == "add" and o[2] is not None and r[0] == "done":
                bz = o[2]
        lp = ("thompson", bz)
    cur = [inv(a) for a in mab.arms]
    d_old = t["d_old"]
    style = base.get("reward_style", "dyadic")
    draw = gen.reward_stream(rng, style if style != "float" else "dyadic")
    n = rng.choice([3, 6, 10, 40])
    if base.get("np") and base["np"][0] == "clusters":
        n = max(n, 8)
    if base.get("np") and base["np"][0] == "knearest":
        n = max(n, base["np"][1])
    ds = [rng.choice(cur) for _ in range(n)]
    # arms that hold a warm-start copy (or were trained) and do NOT occur in D: whatever they hold must be gone after fit(D)
    try:
        st = status_of(mab, inv)
        keep_out = [a for a in cur if st.get(a, (False, False, None))[1]] or [a for a in cur if st.get(a, (False, False, None))[0]][:1]
    except Exception:
        keep_out = []
    if t.get("leave_out") and not keep_out:
        # neighbourhood policies keep no per-arm status: leave out the first arm (in arm order) that the history observed
        seen = set()
        for o, r in zip(base["ops"], outs):
            if o[0] in ("fit", "pfit") and r[0] == "done":
                seen = (set() if o[0] == "fit" else seen) | set(o[1])
        keep_out = [a for a in cur if a in seen][:1]
        if len(cur) < 2:
            keep_out = []
    if keep_out and (t.get("same_width") or t.get("leave_out") or rng.random() < 0.6):
        pool = [a for a in cur if a not in keep_out] or cur
        ds = [rng.choice(pool) for _ in range(n)]
    if lp[0] == "thompson" and lp[1] is None:
        rs = [float(rng.randint(0, 1)) for _ in range(n)]
    else:
        rs = [draw() for _ in range(n)]
    if d_old is None:
        cx = None
    else:
        d_new = d_old if (t.get("same_width") or rng.random() < 0.6) else max(1, d_old + rng.choice([-1, 1, 2]))
        if t.get("new_width"):
            d_new = d_old + rng.choice([1, 2]) if d_old == 1 else d_old + rng.choice([-1, 1])
        cx = gen.gen_ctx(rng, n, d_new)
        if base.get("np") and base["np"][0] == "clusters":
            for i in range(min(n, 4)):
                cx[i][0] = float(i)
    fit_op = ("fit", ds, rs, cx)
    d = None if cx is None else len(cx[0])
    qs = []
    for _ in range(3):
        m = rng.choice([None, 1, 2, 3]) if cx is None else rng.choice([1, 2, 3])
        q = None if (cx is None and m is None) else gen.gen_ctx(rng, m or 1, d or 1)
        if cx is not None and rng.random() < 0.5:
            q[0] = list(rng.choice(cx))
        qs.append((rng.choice(["pred", "pexp"]), q))
    # training goes on after the re-fit: a partial_fit of D's width (and one more query) must be treated alike by both bandits
    n2 = rng.randint(2, 4)
    ds2 = [rng.choice(sorted(set(ds))) for _ in range(n2)]
    rs2 = [float(rng.randint(0, 1)) for _ in range(n2)] if (lp[0] == "thompson" and lp[1] is None) else [draw() for _ in range(n2)]
    cx2 = None if cx is None else gen.gen_ctx(rng, n2, d)
    qs.append(("pfit", ds2, rs2, cx2))
    qs.append((rng.choice(["pred", "pexp"]), None if cx is None else gen.gen_ctx(rng, rng.choice([1, 2]), d)))
    fresh_case = dict(base); fresh_case["arms"] = cur; fresh_case["lp"] = lp; fresh_case["ops"] = []
    fresh, label2, inv2 = mwh.build_mab(fresh_case)
    # the same random-stream position before fit(D)
    fresh._rng.rng.bit_generator.state = copy.deepcopy(mab._rng.rng.bit_generator.state)
    o_old = [mwh.apply_op(mab, o, label, inv, base) for o in [fit_op] + qs]
    o_new = [mwh.apply_op(fresh, o, label2, inv2, fresh_case) for o in [fit_op] + qs]
    cold_old = [inv(a) for a in mab.cold_arms]; cold_new = [inv2(a) for a in fresh.cold_arms]
    mode = rel_mode(base)
    if o_old[0][0] != o_new[0][0]:
        return False, {"why": "fit(D) accepted by one bandit and rejected by the other", "refit": str(o_old[0]), "fresh": str(o_new[0])}
    for i, (a, b) in enumerate(zip(o_old, o_new)):
        if not outs_equal(a, b, mode, rtol=1e-9):
            return False, {"why": "call %d after fit(D) differs between the re-fitted and the fresh bandit" % i,
                           "refit": str(a)[:400], "fresh": str(b)[:400], "D": {"ds": ds, "rs": rs, "cx": cx}, "queries": qs}
    if cold_old != cold_new:
        return False, {"why": "cold_arms differ", "refit": cold_old, "fresh": cold_new}
    return True, {}

# ------------------------------------------------------------------ C08 (invariant checked directly on outputs)
def check_c08_outputs(case, mab, label, inv, outs):
    """called with the outputs of a whole history; replays nothing, checks shapes/keys per call"""
    return True, {}

def run_c08(case):
    mab, label, inv = mwh.build_mab(case)
    for i, o in enumerate(case["ops"]):
        arms_before = list(mab.arms)
        out = mwh.apply_op(mab, o, label, inv, case)
        arms = [inv(a) for a in mab.arms]
        if len(set(arms)) != len(arms):
            return False, {"why": "duplicate arm in MAB.arms after call %d" % i, "arms": arms}
        # the per-arm dictionaries of the policy object are keyed by exactly the current arms (the model's class invariants)
        for attr in ("arm_to_status", "arm_to_expectation"):
            dct = getattr(mab._imp, attr, None)
            if isinstance(dct, dict) and (len(dct) != len(arms) or set(inv(k) for k in dct) != set(arms)):
                return False, {"why": "%s of the policy is not keyed by the current arms after call %d (%s)" % (attr, i, o[0]),
                               "keys": [inv(k) for k in dct], "arms": arms}
        if o[0] == "add" and out[0] == "done" and o[1] not in arms:
            return False, {"why": "added arm missing after call %d" % i}
        if o[0] == "rem" and out[0] == "done" and o[1] in arms:
            return False, {"why": "removed arm still present after call %d" % i}
        if o[0] in ("pred", "pexp") and out[0] == "rejected" and "same size" in str(out[-1]):
            # numpy's choice(len(arms), p=no_nhood_prob_of_arm) raised: the probability list no longer has one entry per arm
            return False, {"why": "predict raised at call %d: the no_nhood_prob_of_arm list was not resized with the arm list" % i,
                           "exception": str(out[1:])[:200], "arms": arms, "no_nhood_prob": True}
        if o[0] in ("pred", "pexp") and out[0] != "rejected":
            m = None if o[1] is None else len(o[1])
            single = (m is None or m == 1)
            if o[0] == "pred":
                vals = [out[1]] if out[0] == "arm" else list(out[1])
                if (out[0] == "arm") != single or (not single and len(vals) != m):
                    return False, {"why": "predict shape wrong at call %d: m=%s got %s" % (i, m, out[0])}
                for v in vals:
                    if v not in arms:
                        return False, {"why": "predict returned %r which is not a current arm at call %d" % (v, i), "arms": arms}
            else:
                ds = [out[1]] if out[0] == "exp" else list(out[1])
                if (out[0] == "exp") != single or (not single and len(ds) != m):
                    return False, {"why": "predict_expectations shape wrong at call %d: m=%s got %s" % (i, m, out[0])}
                for d in ds:
                    if [a for a, _ in d] != arms:
                        return False, {"why": "expectation keys %s differ from the current arms %s at call %d" % ([a for a, _ in d], arms, i)}
    return True, {}

# ------------------------------------------------------------------ C09
def first_argmax(d, arms=None):
    """first arm, in arm-list order, that attains the maximum"""
    if arms is not None:
        dd = dict(d)
        d = [(a, dd[a]) for a in arms if a in dd]
    best = None
    for a, v in d:
        x = float("nan") if v == "nan" else mwh.bits_f(v)
        if best is None or x > best[1]:
            best = (a, x)
    return best[0]

def run_c09(case, history_len=None):
    """after every training prefix: predict on one deep copy must be the first arg-max of the
    expectations another deep copy returns"""
    mab, label, inv = mwh.build_mab(case)
    npk = case["np"][0] if case.get("np") else "none"
    if npk == "tree" and case["lp"][0] == "greedy" and case["lp"][1] > 0:
        return True, {"skipped": "TreeBandit with epsilon > 0 is excluded by the property"}
    for i, o in enumerate(case["ops"]):
        if o[0] in ("pred", "pexp"):
            if not mab._is_initial_fit:
                continue
            a = copy.deepcopy(mab); b = copy.deepcopy(mab)
            pa = mwh.apply_op(a, ("pred", o[1]), label, inv, case)
            eb = mwh.apply_op(b, ("pexp", o[1]), label, inv, case)
            if pa[0] == "rejected" or eb[0] == "rejected":
                if pa[0] != eb[0]:
                    return False, {"why": "only one of predict / predict_expectations raised at call %d" % i, "predict": str(pa), "expectations": str(eb)}
                continue
            ps = [pa[1]] if pa[0] == "arm" else list(pa[1])
            es = [eb[1]] if eb[0] == "exp" else list(eb[1])
            if len(ps) != len(es):
                return False, {"why": "different number of results at call %d" % i}
            for r, (p, e) in enumerate(zip(ps, es)):
                if all(v == "nan" for _, v in e):
                    # empty neighbourhood: any arm with positive probability
                    probs = case["np"][3] if npk in ("radius", "lsh") else None
                    arms = [inv(x) for x in mab.arms]
                    if p not in arms:
                        return False, {"why": "empty-neighbourhood arm not a current arm", "arm": p}
                    if probs is not None and probs[arms.index(p)] == 0.0:
                        return False, {"why": "empty-neighbourhood arm has probability zero", "arm": p}
                    continue
                arms_now = [inv(x) for x in mab.arms]
                if p != first_argmax(e, arms_now):
                    return False, {"why": "row %d of call %d: predict=%r but the first arm (arm-list order) attaining the maximum expectation is %r" % (r, i, p, first_argmax(e, arms_now)),
                                   "expectations": [(a, "nan" if v == "nan" else mwh.bits_f(v)) for a, v in e]}
        mwh.apply_op(mab, o, label, inv, case)
    return True, {}

# ------------------------------------------------------------------ C10
def run_c10(t):
    base = t["base"]
    mab, label, inv, _ = drive(base, ops=t["history"])
    if not mab._is_initial_fit:
        return True, {"skipped": "never trained"}
    twin = copy.deepcopy(mab)
    q_out = [mwh.apply_op(mab, o, label, inv, base) for o in t["queries"]]
    # what a query RETURNS belongs to the caller: emptying the returned objects must not reach the bandit
    for o in t["queries"]:
        try:
            cx = mwh.to_ctx(o[1]) if len(o) > 1 else None
            raw = (mab.predict if o[0] == "pred" else mab.predict_expectations)(cx)
            for obj in (raw if isinstance(raw, list) else [raw]):
                if isinstance(obj, dict):
                    obj.clear()
            if isinstance(raw, (list, dict)):
                raw.clear()
        except Exception:
            pass
    if not sync_rngs(mab, twin):
        return False, {"why": "number of generator objects changed during prediction"}
    for i, o in enumerate(t["continuation"]):
        a = mwh.apply_op(mab, o, label, inv, base)
        b = mwh.apply_op(twin, o, label, inv, base)
        if not outs_equal(a, b, rel_mode(base), rtol=1e-12):
            return False, {"why": "continuation call %d (%s) differs between the queried bandit and its unqueried copy" % (i, o[0]),
                           "queried": str(a)[:400], "unqueried": str(b)[:400]}
        if [inv(x) for x in mab.arms] != [inv(x) for x in twin.arms] or [inv(x) for x in mab.cold_arms] != [inv(x) for x in twin.cold_arms]:
            return False, {"why": "arms / cold_arms differ after continuation call %d" % i}
    return True, {}

def gen_c10_warm_after_query(rng):
    """an arm is left cold by the training data, the bandit is queried, THEN warm_start copies a trained arm into the cold one,
    then queries: whatever a query may have stored per arm must not survive the copy (context-free and linear policies)"""
    if rng.random() < 0.6:
        base = gen.gen_ctx_case(rng, nps=["none"], lps=gen.LIN_KINDS, max_ops=0, queries=False, arm_changes=False, max_rows=25)
    else:
        base = gen.gen_cf_case(rng, kinds=["greedy", "ucb", "softmax", "thompson", "popularity"], max_ops=0, warm=False, max_rows=25, foreign_decisions=False)
    fit = next((o for o in base["ops"] if o[0] in ("fit", "pfit")), None)
    if fit is None:
        return None
    arms = list(base["arms"])
    present = sorted(set(a for a in fit[1] if a in arms))
    if len(present) < 2:
        return None
    cold = rng.choice(present)
    keep = [i for i, a in enumerate(fit[1]) if a != cold]
    fit2 = ("fit", [fit[1][i] for i in keep], [fit[2][i] for i in keep], None if fit[3] is None else [fit[3][i] for i in keep])
    d = None if fit[3] is None else len(fit[3][0])
    donor = rng.choice([a for a in present if a != cold])
    dim = rng.randint(1, 3)
    feats = {a: [float(rng.randint(1, 4)) for _ in range(dim)] for a in arms}
    feats[cold] = list(feats[donor])
    queries = [(rng.choice(["pred", "pexp"]), None if d is None else gen.gen_ctx(rng, rng.choice([1, 2, 3]), d)) for _ in range(rng.randint(1, 3))]
    cont = [("warm", arms, [feats[a] for a in arms], 1.0)]
    for _ in range(2):
        cont.append(("pexp", None if d is None else gen.gen_ctx(rng, rng.choice([1, 2, 4]), d)))
    cont.append(("pred", None if d is None else gen.gen_ctx(rng, 2, d)))
    base = dict(base); base["ops"] = [fit2]
    return {"base": base, "history": [fit2], "queries": queries, "continuation": cont}

def gen_c10(rng, tier):
    if rng.random() < 0.12:
        t = gen_c10_warm_after_query(rng)
        if t is not None:
            return t
    ctx = rng.random() < 0.65
    if ctx:
        base = gen.gen_ctx_case(rng, max_ops=6, warm=True, max_rows=25)
    else:
        base = gen.gen_cf_case(rng, max_ops=8, warm=True, max_rows=30)
    ops = base["ops"]
    # history = prefix up to a random point after the first training call; queries = generated; continuation = the rest
    first_train = next(i for i, o in enumerate(ops) if o[0] in ("fit", "pfit"))
    cut = rng.randint(first_train + 1, len(ops))
    history, rest = ops[:cut], ops[cut:]
    fit = ops[first_train]
    d = None if fit[3] is None else len(fit[3][0])
    # the width may have changed by a later fit in the history
    for o in history:
        if o[0] == "fit" and o[3] is not None:
            d = len(o[3][0]); fit = o
    queries = []
    for _ in range(rng.randint(1, 5)):
        m = rng.choice([None, 1, 2, 5]) if d is None else rng.choice([1, 2, 5])
        q = None if m is None else gen.gen_ctx(rng, m, d or 2)
        if d is not None and rng.random() < 0.5:
            q[0] = list(rng.choice(fit[3]))
        queries.append((rng.choice(["pred", "pexp"]), q))
    cont = [o for o in rest]
    if rng.random() < 0.45:
        # a refit (or partial fit) on a batch that omits arms, right after the queries
        arms_now = list(base["arms"])
        for o in history:
            if o[0] == "add": arms_now.append(o[1])
            if o[0] == "rem" and o[1] in arms_now: arms_now.remove(o[1])
        n = rng.randint(4, 12)
        if base.get("np") and base["np"][0] == "clusters": n = max(n, 8)
        if base.get("np") and base["np"][0] == "knearest": n = max(n, base["np"][1])
        style = base.get("reward_style", "dyadic")
        draw = gen.reward_stream(rng, style)
        ds, rs = gen.gen_batch(rng, arms_now, n, draw, omit_prob=0.8)
        cxn = None if d is None else gen.gen_ctx(rng, n, d)
        if cxn is not None and base.get("np") and base["np"][0] == "clusters":
            for i in range(min(n, 4)): cxn[i][0] = float(i)
        cont.insert(0, (rng.choice(["fit", "fit", "pfit"]), ds, rs, cxn))
    if not any(o[0] in ("pred", "pexp") for o in cont):
        cont.append(("pexp", None if d is None else gen.gen_ctx(rng, 2, d)))
        cont.append(("pred", None if d is None else gen.gen_ctx(rng, 1, d)))
    # queries in the continuation must have the current width
    fixed = []
    for o in cont:
        if o[0] == "fit" and o[3] is not None:
            d = len(o[3][0])
        if o[0] in ("pred", "pexp") and o[1] is not None and d is not None and len(o[1][0]) != d:
            o = (o[0], gen.gen_ctx(rng, len(o[1]), d))
        fixed.append(o)
    return {"base": base, "history": history, "queries": queries, "continuation": fixed}

# ------------------------------------------------------------------ helpers for internal per-arm state
def arm_state(mab, inv):
    """learned state per arm (what warm_start copies / what training accumulates), canonical and comparable"""
    imp = mab._imp
    out = {}
    name = type(imp).__name__
    for a in mab.arms:
        k = inv(a)
        if name in ("_EpsilonGreedy", "_Popularity"):
            out[k] = ("g", mwh.canon_val(imp.arm_to_sum[a]), int(imp.arm_to_count[a]), mwh.canon_val(imp.arm_to_expectation[a]))
        elif name == "_UCB1":
            out[k] = ("u", mwh.canon_val(imp.arm_to_sum[a]), int(imp.arm_to_count[a]), mwh.canon_val(imp.arm_to_mean[a]), mwh.canon_val(imp.arm_to_expectation[a]))
        elif name == "_Softmax":
            out[k] = ("s", mwh.canon_val(imp.arm_to_sum[a]), int(imp.arm_to_count[a]), mwh.canon_val(imp.arm_to_mean[a]))
        elif name == "_ThompsonSampling":
            out[k] = ("t", mwh.canon_val(imp.arm_to_success_count[a]), mwh.canon_val(imp.arm_to_fail_count[a]))
        elif name == "_Linear":
            m = imp.arm_to_model[a]
            out[k] = ("l", None if m.beta is None else tuple(float(x) for x in np.ravel(m.beta)),
                      None if m.A is None else tuple(float(x) for x in np.ravel(m.A)),
                      None if m.Xty is None else tuple(float(x) for x in np.ravel(m.Xty)))
        else:
            out[k] = ("?",)
    return out

def status_of(mab, inv):
    imp = mab._imp
    return {inv(a): (bool(s["is_trained"]), bool(s["is_warm"]), None if s["warm_started_by"] is None else inv(s["warm_started_by"]))
            for a, s in imp.arm_to_status.items()}

def cosine_dist(u, v):
    from scipy.spatial.distance import cdist
    d = float(cdist(np.asarray([u]), np.asarray([v]), metric="cosine")[0][0])
    return 999999.0 if d != d else d

# ------------------------------------------------------------------ C13
def gen_c13(rng, tier):
    if rng.random() < 0.2:
        return {"base": gen.gen_two_stage_warm(rng, with_final=False, label=rng.choice(["int", "int", "str", "float", "tenths"])), "seed2": rng.randint(0, 10**9)}
    if rng.random() < 0.7:
        base = gen.gen_cf_case(rng, kinds=["greedy", "ucb", "softmax", "thompson", "popularity"], max_ops=6, warm=True, queries=False,
                               label=rng.choice(["int", "int", "str", "float", "negint", "tenths"]))
    else:
        base = gen.gen_ctx_case(rng, nps=["none"], lps=gen.LIN_KINDS, max_ops=5, warm=True, queries=False,
                                label=rng.choice(["int", "int", "str", "float", "tenths"]))
    return {"base": base, "seed2": rng.randint(0, 10**9)}

def run_c13(t):
    base = t["base"]
    rng = random.Random(t["seed2"])
    mab, label, inv, outs = drive(base)
    if not mab._is_initial_fit or len(mab.arms) < 2:
        return True, {"skipped": "not trained"}
    arms = [inv(a) for a in mab.arms]
    keys = list(arms)
    if rng.random() < 0.5:
        rng.shuffle(keys)
    feats = gen.gen_features(rng, keys)
    if rng.random() < 0.4:      # force exact distance ties between trained arms (one-hot categories)
        dim = rng.randint(2, 3)
        feats = [[1.0 if j == (i % dim) else 0.0 for j in range(dim)] for i in range(len(keys))]
    q = rng.choice([0.0, 0.25, 0.5, 0.75, 1.0, rng.random()])
    fd = {label(a): list(f) for a, f in zip(keys, feats)}
    before = arm_state(mab, inv); st_before = status_of(mab, inv)
    # "observed since the last fit", recomputed from the accepted calls: the trained flag of an arm must say exactly that
    rows_h, _, _ = training_history(base, outs)
    observed = {d for d, _, _ in rows_h}
    for a in arms:
        if bool(st_before[a][0]) != (a in observed):
            return False, {"why": "arm %r %s since the most recent fit, but its trained flag is %s: cold_arms must list exactly the arms that are neither observed nor warm-started" % (
                               a, "has observations" if a in observed else "has no observation", st_before[a][0]),
                           "cold_arms": [inv(x) for x in mab.cold_arms], "label_style": base.get("label")}
    twin_lo = copy.deepcopy(mab); twin_hi = copy.deepcopy(mab)
    try:
        mab.warm_start(fd, float(q))
    except Exception as e:
        # rejected (e.g. no finite pairwise distance): nothing may have changed
        if arm_state(mab, inv) != before or status_of(mab, inv) != st_before:
            return False, {"why": "warm_start raised %r but changed the bandit" % e}
        return True, {"skipped": "warm_start rejected"}
    after = arm_state(mab, inv); st_after = status_of(mab, inv)
    fmap = dict(zip(keys, feats))
    trained = [a for a in arms if st_before[a][0]]
    # threshold, recomputed independently from the documented rule
    closest = []
    for u in keys:
        ds = [999999.0 if u == v else cosine_dist(fmap[u], fmap[v]) for v in keys]
        if min(ds) != 999999.0:
            closest.append(min(ds))
    thr = float(np.quantile(closest, q)) if closest else None
    for a in arms:
        was_cold = (not st_before[a][0]) and (not st_before[a][1])
        if not was_cold:
            if after[a] != before[a] or st_after[a] != st_before[a]:
                return False, {"why": "warm_start modified arm %r which was trained or already warm" % a,
                               "before": str(before[a]), "after": str(after[a]), "status_before": st_before[a], "status_after": st_after[a]}
            continue
        # expected donor: the closest trained arm (first in arm order among ties), if within the threshold
        exp_w = None
        if trained and thr is not None:
            dists = [(cosine_dist(fmap[a], fmap[w]), w) for w in trained]
            best = min(d for d, _ in dists)
            w0 = next(w for d, w in dists if d == best)
            if best <= thr:
                exp_w = w0
        if exp_w is None:
            if after[a] != before[a] or st_after[a] != st_before[a]:
                return False, {"why": "cold arm %r was changed although no trained arm lies within the threshold" % a,
                               "status_after": st_after[a], "threshold": thr}
        else:
            if st_after[a] != (False, True, exp_w):
                return False, {"why": "cold arm %r: expected to be warm-started by its closest trained arm %r, status is %s" % (a, exp_w, st_after[a]),
                               "threshold": thr, "features": {str(k): v for k, v in fmap.items()}, "quantile": q}
            same = after[a] == before[exp_w] if after[a][0] != "s" else after[a][:4] == before[exp_w][:4]
            if not same:
                return False, {"why": "cold arm %r did not receive an exact copy of the state of arm %r" % (a, exp_w),
                               "copy": str(after[a])[:300], "donor": str(before[exp_w])[:300]}
    cold_now = [inv(x) for x in mab.cold_arms]
    if cold_now != [a for a in arms if not st_after[a][0] and not st_after[a][1]]:
        return False, {"why": "cold_arms is not the list of arms that are neither trained nor warm", "cold_arms": cold_now}
    # idempotence
    snap = (arm_state(mab, inv), status_of(mab, inv))
    mab.warm_start(fd, float(q))
    if (arm_state(mab, inv), status_of(mab, inv)) != snap:
        return False, {"why": "repeating warm_start changed the bandit", "quantile": q}
    # monotone in the quantile
    q2 = rng.choice([x for x in [0.0, 0.25, 0.5, 0.75, 1.0] if x != q])
    lo, hi = min(q, q2), max(q, q2)
    try:
        twin_lo.warm_start(fd, float(lo)); twin_hi.warm_start(fd, float(hi))
        wl = {a for a, s in status_of(twin_lo, inv).items() if s[1]}
        wh = {a for a, s in status_of(twin_hi, inv).items() if s[1]}
        if not wl <= wh:
            return False, {"why": "warm set at quantile %s is not contained in the warm set at %s" % (lo, hi), "lo": sorted(wl), "hi": sorted(wh)}
    except Exception:
        pass
    # "since the most recent fit": a re-fit on data in which some arms (a warm one, if there is one) do not occur makes exactly the
    # observed arms trained and leaves no arm warm; cold_arms lists the others, and warm_start treats them as cold again
    st_now = status_of(mab, inv)
    warm_now = [a for a in arms if st_now[a][1]]
    absent = set(warm_now[:1]) | {a for a in arms if rng.random() < 0.3}
    present = [a for a in arms if a not in absent] or [arms[0]]
    n2 = rng.randint(len(present), len(present) + 4)
    ds2 = present + [rng.choice(present) for _ in range(n2 - len(present))]
    rs2 = [float(rng.randint(0, 1)) for _ in ds2]
    width = next((len(o[3][0]) for o in reversed(base["ops"]) if o[0] in ("fit", "pfit") and o[3]), None)
    cx2 = None if width is None else [[float(rng.randint(0, 4)) for _ in range(width)] for _ in ds2]
    try:
        mab.fit([label(d) for d in ds2], rs2, cx2)
    except Exception as e:
        return True, {"skipped": "re-fit rejected: %r" % e}
    st2 = status_of(mab, inv)
    for a in arms:
        if st2[a] != ((a in present), False, None):
            return False, {"why": "after a re-fit in which arm %r %s its status is %s" % (a, "occurs" if a in present else "does not occur", st2[a]),
                           "present": present, "was_warm": warm_now}
    cold2 = [inv(x) for x in mab.cold_arms]
    if cold2 != [a for a in arms if a not in present]:
        return False, {"why": "cold_arms after a re-fit is not the list of arms without observations since that fit", "cold_arms": cold2, "present": present}
    return True, {}

# ------------------------------------------------------------------ C14
def apply_binz(code, arm, r):
    k = code[0]
    if k == "thr":
        tbl = dict(code[1]); return 1.0 if r >= tbl.get(arm, code[2]) else 0.0
    if k == "flip":
        return 1.0 if r == 0 else 0.0
    if k == "gt":
        return 1.0 if r > code[1] else 0.0
    if k == "const":
        return float(code[1])
    raise ValueError(code)

def gen_c14(rng, tier):
    npk = rng.choice(["none", "none", "radius", "knearest", "lsh", "clusters", "tree"])
    if npk == "none":
        base = gen.gen_cf_case(rng, kinds=["thompson"], max_ops=8, styles=["dyadic", "smallint"], warm=False)
    else:
        base = gen.gen_ctx_case(rng, nps=[npk], lps=["thompson"], max_ops=7, reward_styles=["dyadic", "smallint"])
    arms_all = list(base["arms"]) + [o[1] for o in base["ops"] if o[0] == "add"]
    bz = gen.gen_binz(rng, arms_all)
    if bz[0] == "const":
        bz = ("gt", 0.0)
    base["lp"] = ("thompson", bz)
    style = rng.choice(["dyadic", "smallint", "binary"])
    if rng.random() < 0.25:
        # no binarizer at construction; add_arm may install one later (rewards must then be binary throughout)
        base["lp"] = ("thompson", None); style = "binary"
    draw = gen.reward_stream(rng, style)
    ops = []
    for o in base["ops"]:
        if o[0] in ("fit", "pfit"):
            o = (o[0], o[1], [draw() for _ in o[1]], o[3])
        elif o[0] == "add" and npk != "clusters" and rng.random() < 0.5:
            nb = gen.gen_binz(rng, arms_all)
            if nb[0] == "const":
                nb = ("flip",)
            o = ("add", o[1], nb)
        elif o[0] == "add":
            o = ("add", o[1], None)
        ops.append(o)
    base["ops"] = ops
    return {"base": base}

def run_c14(t):
    base = t["base"]
    # twin without binarizer, fed the rewards converted by the binarizer in force when they are passed in
    conv = dict(base); conv["lp"] = ("thompson", None)
    cur = base["lp"][1]
    ops2 = []
    for o in base["ops"]:
        if o[0] in ("fit", "pfit"):
            ops2.append((o[0], o[1], [r if cur is None else apply_binz(cur, d, r) for d, r in zip(o[1], o[2])], o[3]))
        elif o[0] == "add":
            if o[2] is not None:
                cur = o[2]
            ops2.append(("add", o[1], None))
        else:
            ops2.append(o)
    conv["ops"] = ops2
    _, _, _, o1 = drive(base)
    _, _, _, o2 = drive(conv)
    for i, (a, b, op) in enumerate(zip(o1, o2, base["ops"])):
        if not outs_equal(a, b, "exact"):
            return False, {"why": "call %d (%s) differs between the bandit with a binarizer and the bandit fed pre-converted rewards" % (i, op[0]),
                           "with_binarizer": str(a)[:300], "pre_converted": str(b)[:300]}
    return True, {}

# ------------------------------------------------------------------ C20
def gen_c20_mixed_batches(rng):
    """a stored-history policy whose training batches each name ONE arm, relabelled to an arm list that mixes int, str and float labels:
    every batch is a homogeneous list (all numbers or all strings), so what the library stores must keep each label as it is when the
    batches are joined"""
    arms = [3, 4, 5] if rng.random() < 0.5 else [6, 1, 2]
    d = rng.randint(1, 2)
    npol = rng.choice([("knearest", 3, "euclidean"), ("radius", 50.0, "euclidean", None), ("clusters", 2, False), ("lsh", 1, 1, None)])
    lp = rng.choice([("greedy", 0.0), ("ucb", 1.0)])
    order = list(arms); rng.shuffle(order)
    ops = []
    first = True
    for a in order + [rng.choice(arms)]:
        n = rng.choice([2, 4])
        b = ("fit" if first else "pfit", [a] * n, [float(rng.randint(1, 9)) for _ in range(n)], gen.gen_ctx(rng, n, d))
        if first and npol[0] == "clusters":
            b = ("fit", [a] * 4, [float(rng.randint(1, 9)) for _ in range(4)], [[float(i)] * d for i in range(4)])
        ops.append(b); first = False
        ops.append(("pexp", gen.gen_ctx(rng, 2, d)))
    base = {"arms": arms, "lp": lp, "np": npol, "seed": rng.randint(0, 10**6), "ops": ops, "label": "int", "mode": "exact", "reward_style": "smallint"}
    return {"kind": "relabel", "base": base, "style2": "mixed"}

def gen_c20(rng, tier):
    kind = rng.choice(["relabel", "relabel", "permute", "permute", "shift", "scale"])
    if kind == "relabel" and rng.random() < 0.1:
        return gen_c20_mixed_batches(rng)
    if kind == "relabel":
        z = rng.random()
        if z < 0.3:
            base = gen.gen_cf_case(rng, max_ops=7, warm=True, label="int")
        elif z < 0.55:
            import props as P
            base = P.g_c13(rng, tier); base["label"] = "int"
        elif z < 0.8:
            base = gen.gen_ctx_case(rng, max_ops=6, warm=True, label="int")
        else:
            # stored-history policies with many partial fits: labels first seen after the first batch
            base = gen.gen_ctx_case(rng, nps=["radius", "knearest", "lsh"], max_ops=9, fit_prob=0.02, label="int")
            if rng.random() < 0.6 and len(base["arms"]) >= 2 and base["ops"] and base["ops"][0][0] == "fit":
                # string labels of different lengths, the longest one first seen in a LATER batch: a history buffer sized by the labels
                # of the first batch would truncate it
                lab = mwh.make_label("str")
                by_len = sorted(base["arms"], key=lambda a: (len(lab(a)), a))
                short, longest = by_len[0], by_len[-1]
                if len(lab(longest)) > len(lab(short)):
                    f0 = base["ops"][0]
                    keep_len = len(lab(short))
                    ops = [(f0[0], [d if len(lab(d)) <= keep_len else short for d in f0[1]], f0[2], f0[3])] + list(base["ops"][1:])
                    d = len(f0[3][0])
                    k = rng.randint(1, 3)
                    extra = ("pfit", [longest] * k, [float(rng.randint(0, 1)) for _ in range(k)], [list(rng.choice(f0[3])) for _ in range(k)])
                    cut = rng.randint(1, len(ops))
                    ops = ops[:cut] + [extra] + ops[cut:] + [("pexp", [list(extra[3][0])]), ("pred", [list(f0[3][0])])]
                    base["ops"] = ops
                    return {"kind": kind, "base": base, "style2": "str"}
            return {"kind": kind, "base": base, "style2": rng.choice(["str", "str", "float", "negint", "mixed"])}
        if rng.random() < 0.5 and 0 not in base["arms"] and not any(o[0] == "add" and o[1] == 0 for o in base["ops"]):
            base = remap_arm(base, rng.choice(base["arms"]), 0)     # the falsy label 0
        return {"kind": kind, "base": base, "style2": rng.choice(["str", "float", "negint", "mixed"])}
    if kind == "permute":
        if rng.random() < 0.08:
            # one fit with thousands of rows from a time-ordered log whose contexts drift, then its permutation: whatever the code
            # does per block of rows (buffers, running standardisation) must not show in the expectations
            base = gen_c02_large(rng)["base"]
            lp = list(base["lp"])
            if lp[0] == "lints":
                lp[0] = "linucb"; lp[1] = 0.5
            base["lp"] = tuple(lp)
            ds, rs, cx = base["ops"][0][1], base["ops"][0][2], base["ops"][0][3]
            if len(base["ops"]) > 1:
                ds, rs, cx = ds + base["ops"][1][1], rs + base["ops"][1][2], cx + base["ops"][1][3]
            n = len(ds)
            cx = [[row[0] + round(10.0 * i / n, 2)] + row[1:] for i, row in enumerate(cx)]
            q = [cx[rng.randrange(n)] for _ in range(3)]
            base["ops"] = [("fit", ds, rs, cx), ("pexp", q)]
            return {"kind": kind, "base": base, "seed2": rng.randint(0, 10**9)}
        if rng.random() < 0.4:
            base = gen.gen_cf_case(rng, max_ops=6, styles=["dyadic", "smallint", "binary", "nonneg_dyadic"], warm=False)
        else:
            base = gen.gen_ctx_case(rng, nps=["none", "radius", "lsh"], max_ops=5, reward_styles=["dyadic", "smallint", "binary"])
        return {"kind": kind, "base": base, "seed2": rng.randint(0, 10**9)}
    if kind == "shift":
        base = gen.gen_cf_case(rng, kinds=["greedy", "ucb", "softmax"], max_ops=5, styles=["dyadic", "smallint"], arm_changes=False,
                               queries=False, foreign_decisions=False)
        if base["lp"][0] == "greedy":
            base["lp"] = ("greedy", 0.0)
        return {"kind": kind, "base": base, "c": gen.dyadic(rng, -16, 16)}
    base = gen.gen_ctx_case(rng, nps=["none"], lps=["lingreedy"], max_ops=4, reward_styles=["dyadic", "smallint"], arm_changes=False)
    lp = list(base["lp"]); lp[1] = 0.0; lp[3] = False; base["lp"] = tuple(lp)
    return {"kind": kind, "base": base, "c": rng.choice([2.0, 0.5, -3.0, 0.25, 8.0])}

def remap_arm(case, old, new):
    """rename arm id `old` to `new` everywhere in a case"""
    f = lambda a: new if a == old else a
    c = dict(case)
    c["arms"] = [f(a) for a in case["arms"]]
    ops = []
    for o in case["ops"]:
        if o[0] in ("fit", "pfit"):
            o = (o[0], [f(d) for d in o[1]], o[2], o[3])
        elif o[0] == "add":
            o = ("add", f(o[1]), o[2])
        elif o[0] == "rem":
            o = ("rem", f(o[1]))
        elif o[0] == "warm":
            o = ("warm", [f(a) for a in o[1]]) + tuple(o[2:])
        ops.append(o)
    c["ops"] = ops
    if c["lp"][0] == "thompson" and c["lp"][1] is not None and c["lp"][1][0] == "thr":
        b = c["lp"][1]; c["lp"] = ("thompson", ("thr", [(f(a), v) for a, v in b[1]], b[2]))
    return c

def all_observed(case):
    arms = set(case["arms"])
    seen = set()
    for o in case["ops"]:
        if o[0] == "fit":
            seen = set(o[1])
        elif o[0] == "pfit":
            seen |= set(o[1])
    return arms <= seen

def run_c20(t):
    base = t["base"]; kind = t["kind"]
    mode = rel_mode(base)
    if kind == "relabel":
        c2 = dict(base); c2["label"] = t["style2"]
        _, _, _, o1 = drive(base); _, _, _, o2 = drive(c2)
        for i, (a, b) in enumerate(zip(o1, o2)):
            if not outs_equal(a, b, mode, rtol=1e-12):
                return False, {"why": "call %d (%s) differs after renaming the arms %s -> %s" % (i, base["ops"][i][0], base["label"], t["style2"]),
                               "original": str(a)[:300], "renamed": str(b)[:300]}
        return True, {}
    if kind == "permute":
        rng = random.Random(t["seed2"])
        ops2 = []
        for o in base["ops"]:
            if o[0] in ("fit", "pfit") and len(o[1]) > 1:
                idx = list(range(len(o[1]))); rng.shuffle(idx)
                o = (o[0], [o[1][i] for i in idx], [o[2][i] for i in idx], None if o[3] is None else [o[3][i] for i in idx])
            ops2.append(o)
        c2 = dict(base); c2["ops"] = ops2
        _, _, _, o1 = drive(base); _, _, _, o2 = drive(c2)
        for i, (a, b) in enumerate(zip(o1, o2)):
            if base["ops"][i][0] == "pexp" and not outs_equal(a, b, "tol", rtol=1e-7, atol=1e-9):
                return False, {"why": "expectations of call %d differ after permuting the rows of the training batches" % i,
                               "original": str(a)[:300], "permuted": str(b)[:300]}
        return True, {}
    if kind == "shift":
        if not all_observed(base):
            return True, {"skipped": "not every arm observed"}
        c = t["c"]
        c2 = dict(base); c2["ops"] = [(o[0], o[1], [r + c for r in o[2]], o[3]) if o[0] in ("fit", "pfit") else o for o in base["ops"]]
        m1, l1, i1, _ = drive(base); m2, l2, i2, _ = drive(c2)
        if not m1._is_initial_fit:
            return True, {"skipped": "untrained"}
        e1 = {i1(a): float(v) for a, v in m1._imp.arm_to_expectation.items()}
        e2 = {i2(a): float(v) for a, v in m2._imp.arm_to_expectation.items()}
        # arms observed since the last fit only
        last = None
        for o in base["ops"]:
            if o[0] == "fit": last = set(o[1])
            elif o[0] == "pfit" and last is not None: last |= set(o[1])
            elif o[0] == "pfit": last = set(o[1])
        if last is None or not set(base["arms"]) <= last:
            return True, {"skipped": "not every arm observed since the last fit"}
        for a in e1:
            want = e1[a] + c if base["lp"][0] in ("greedy", "ucb") else e1[a]
            if abs(e2[a] - want) > 1e-9 * max(1.0, abs(want)):
                return False, {"why": "%s expectation of arm %r after adding %r to every reward: %r, expected %r" % (base["lp"][0], a, c, e2[a], want)}
        return True, {}
    if kind == "scale":
        c = t["c"]
        c2 = dict(base); c2["ops"] = [(o[0], o[1], [r * c for r in o[2]], o[3]) if o[0] in ("fit", "pfit") else o for o in base["ops"]]
        _, _, _, o1 = drive(base); _, _, _, o2 = drive(c2)
        for i, (a, b) in enumerate(zip(o1, o2)):
            if base["ops"][i][0] == "pexp" and a[0] in ("exp", "exps") and b[0] == a[0]:
                da = [a[1]] if a[0] == "exp" else a[1]; db = [b[1]] if b[0] == "exp" else b[1]
                for x, y in zip(da, db):
                    for (k1, v1), (k2, v2) in zip(x, y):
                        f1, f2 = mwh.bits_f(v1), mwh.bits_f(v2)
                        if abs(f2 - c * f1) > 1e-7 * max(1.0, abs(c * f1)):
                            return False, {"why": "LinGreedy expectation of arm %r does not scale with the rewards (factor %r): %r vs %r" % (k1, c, f2, c * f1)}
        return True, {}
    return True, {}

# ------------------------------------------------------------------ C17
BAD_CLASSES = ["len_mismatch", "nonfinite", "nonbinary_ts", "ctx_presence", "ctx_rows", "ctx_width", "add_dup", "add_none", "add_nan",
               "add_inf", "rem_unknown", "warm_nondict", "warm_q_int", "warm_q_range", "warm_keys", "too_few_rows", "bad_types",
               "predict_ctx_presence", "ctx_1d", "predict_ctx_width", "add_unhashable", "rem_last",
               "decisions_2d", "ctx_strings", "predict_ctx_strings"]

def history_dims(base, upto):
    d = None; arms = list(base["arms"]); fitted = False; nrows = 0
    for o in base["ops"][:upto]:
        if o[0] in ("fit", "pfit"):
            if o[3] is not None and (o[0] == "fit" or not fitted):
                d = len(o[3][0]) if o[3] else d
            nrows = len(o[1]) if (o[0] == "fit" or not fitted) else nrows + len(o[1])
            fitted = True
        elif o[0] == "add":
            arms.append(o[1])
        elif o[0] == "rem" and o[1] in arms:
            arms.remove(o[1])
    return d, arms, fitted, nrows

def gen_c17(rng, tier):
    base = gen.gen_cf_case(rng, max_ops=6, warm=True) if rng.random() < 0.35 else gen.gen_ctx_case(rng, max_ops=5, warm=True)
    pos = 0 if rng.random() < 0.25 else rng.randint(0, len(base["ops"]))
    cls = rng.choice(BAD_CLASSES)
    npk = base["np"][0] if base.get("np") else "none"
    z = rng.random()
    # classes that only exist for some policies are drawn more often there (errors from inside training)
    if npk == "clusters" and z < 0.4:
        cls = "too_few_rows"
    elif (npk != "none" or base["lp"][0] in gen.LIN_KINDS) and z < 0.55:
        cls = rng.choice(["ctx_width", "ctx_rows", "predict_ctx_presence", "ctx_presence", "predict_ctx_width", "ctx_strings", "predict_ctx_strings", "decisions_2d"])
    elif base["lp"][0] == "thompson" and base["lp"][1] is None and z < 0.7:
        cls = "nonbinary_ts"
    if rng.random() < 0.05:
        # l2_lambda = 0 (legal for LinGreedy / LinUCB): a partial_fit whose rows make the matrix of a LATER arm exactly singular
        # (np.linalg.inv raises LinAlgError after the earlier arms were refitted) - finding D22
        kind = rng.choice(["lingreedy", "linucb"])
        arms = [3, 5]
        base = {"arms": arms, "lp": (kind, 0.0 if kind == "lingreedy" else 1.0, 0.0, False, True), "np": None, "seed": rng.randint(0, 10**6),
                "ops": [("fit", [3, 3], [1.0, 2.0], [[1.0, 0.0], [0.0, 1.0]])], "label": "int", "mode": "tol", "reward_style": "smallint"}
        return {"base": base, "pos": 1, "cls": "singular_l2_zero", "seed2": rng.randint(0, 10**9)}
    if rng.random() < 0.04:
        # a bandit with a single arm, whose removal empties the arm list
        a0 = rng.randint(0, 9)
        kind = rng.choice(["popularity", "softmax", "greedy", "ucb", "thompson"])
        lp = (kind, None) if kind == "thompson" else ((kind, gen.gen_hp(rng, kind)) if kind in ("greedy", "ucb", "softmax") else (kind,))
        n = rng.randint(1, 4)
        base = {"arms": [a0], "lp": lp, "np": None, "seed": rng.randint(0, 10**6), "ops": [("fit", [a0] * n, [float(rng.randint(0, 1)) for _ in range(n)], None)],
                "label": rng.choice(["int", "str"]), "mode": "exact", "reward_style": "binary"}
        return {"base": base, "pos": 1, "cls": "rem_last", "seed2": rng.randint(0, 10**9)}
    if rng.random() < 0.08:
        # the FIRST arm of the list never observed (its tree / regression / history is still empty), then a training call of another
        # width that names it together with trained arms: a width check that looks at one arm only, or in arm order, must not let
        # the cold arm train before a later arm raises
        base = gen.gen_ctx_case(rng, nps=rng.choice([["tree"], ["tree"], ["none"], ["radius"]]), max_ops=3, warm=False, arm_changes=False)
        a0 = base["arms"][0]; others = base["arms"][1:]
        if others:
            ops = []
            for o in base["ops"]:
                if o[0] in ("fit", "pfit"):
                    o = (o[0], [d if d != a0 else others[i % len(others)] for i, d in enumerate(o[1])], o[2], o[3])
                ops.append(o)
            base["ops"] = ops
            return {"base": base, "pos": len(ops), "cls": "ctx_width", "seed2": rng.randint(0, 10**9), "all_arms": True}
    if rng.random() < 0.07:
        # the very FIRST training call is a partial_fit (online use) and is rejected from inside the training, after the argument
        # validation: the bandit must still count as never trained, and the next partial_fit must train it from scratch
        if rng.random() < 0.6:
            base = gen.gen_ctx_case(rng, nps=["clusters"], max_ops=3, warm=False); cls = "too_few_rows"
        else:
            base = gen.gen_ctx_case(rng, max_ops=3, warm=False); cls = rng.choice(["decisions_2d", "ctx_strings", "ctx_width"])
        ops = list(base["ops"])
        if ops and ops[0][0] == "fit":
            ops[0] = ("pfit",) + tuple(ops[0][1:])
        base["ops"] = ops
        return {"base": base, "pos": 0, "cls": cls, "seed2": rng.randint(0, 10**9), "force_pfit": True}
    if rng.random() < 0.12:
        # a linear policy with scale=True, arms without observations (omitted from the batches or added later), and a
        # call rejected from inside training: the per-arm scalers must not keep anything of it
        base = gen.gen_ctx_case(rng, nps=["none"], lps=gen.LIN_KINDS, max_ops=4, warm=False, force_scale=True, force_dim=rng.randint(2, 4))
        pos = rng.randint(1, len(base["ops"])); cls = "ctx_width"
    return {"base": base, "pos": pos, "cls": cls, "seed2": rng.randint(0, 10**9)}

def bad_call(mab, label, inv, base, cls, rng, d, arms, fitted, all_arms=False, force_pfit=False):
    """performs one invalid call; returns the exception (or None if the call was accepted / not applicable)"""
    contextual = mab.is_contextual
    n = rng.randint(2, 6)
    la = [label(a) for a in arms]
    ds = [rng.choice(la) for _ in range(n)]
    if all_arms:
        ds = list(la) + ds          # every arm is named, in arm-list order first
        n = len(ds)
    ts = base["lp"][0] == "thompson"
    rs = [float(rng.randint(0, 1)) for _ in range(n)]
    dd = d or 2
    cx = gen.gen_ctx(rng, n, dd) if contextual else None
    meth = rng.choice([mab.fit, mab.partial_fit])
    if force_pfit:
        meth = mab.partial_fit
    try:
        if cls == "len_mismatch":
            meth(ds, rs[:-1], cx)
        elif cls == "nonfinite":
            r2 = list(rs); r2[rng.randrange(n)] = rng.choice([float("nan"), float("inf"), None])
            meth(ds, r2, cx)
        elif cls == "nonbinary_ts":
            if not (ts and base["lp"][1] is None):
                return "n/a"
            r2 = list(rs); r2[0] = 0.5
            meth(ds, r2, cx)
        elif cls == "ctx_presence":
            meth(ds, rs, None if contextual else gen.gen_ctx(rng, n, 2))
        elif cls == "ctx_rows":
            if not contextual: return "n/a"
            meth(ds, rs, cx[:-1])
        elif cls == "ctx_width":
            if not (contextual and fitted): return "n/a"
            mab.partial_fit(ds, rs, gen.gen_ctx(rng, n, dd + 1 if (dd == 1 or rng.random() < 0.5) else dd - 1))
        elif cls == "add_dup":
            mab.add_arm(rng.choice(la))
        elif cls == "add_none":
            mab.add_arm(None)
        elif cls == "add_nan":
            # the np.nan object itself, or another NaN (float('nan') is not found by an identity / `in` test)
            mab.add_arm(np.nan if rng.random() < 0.5 else float("nan"))
        elif cls == "add_inf":
            mab.add_arm(np.inf)
        elif cls == "add_unhashable":
            # an arm of a type that cannot be a dictionary key (a list, a dict): the policies raise when they file it
            mab.add_arm(rng.choice([[3, 4], {"a": 1}, [label(97)]]))
        elif cls == "decisions_2d":
            # decisions (and rewards) as an (n, 1) column, as from df[['arm']].values
            meth(np.asarray(ds, dtype=object).reshape(-1, 1) if any(isinstance(x, str) for x in ds) else np.asarray(ds).reshape(-1, 1),
                 np.asarray(rs, dtype=float) if rng.random() < 0.5 else np.asarray(rs, dtype=float).reshape(-1, 1), cx)
        elif cls == "ctx_strings":
            # contexts that are not numbers
            if not contextual: return "n/a"
            meth(ds, rs, [[str(v) + "x" for v in row] for row in cx])
        elif cls == "predict_ctx_strings":
            if not (contextual and fitted and d): return "n/a"
            q = [["a%d" % j for j in range(d)] for _ in range(rng.randint(1, 3))]
            (mab.predict if rng.random() < 0.5 else mab.predict_expectations)(q)
        elif cls == "rem_last":
            # removing the only arm: accepted by most policies (a bandit without arms), but a policy that renormalises or
            # takes a maximum over its arms must not raise half-way
            if len(la) != 1: return "n/a"
            mab.remove_arm(la[0])
        elif cls == "rem_unknown":
            mab.remove_arm(label(97))
        elif cls == "warm_nondict":
            mab.warm_start([[1.0, 2.0] for _ in la], 0.5)
        elif cls == "warm_q_int":
            mab.warm_start({a: [1.0, float(i)] for i, a in enumerate(la)}, 1)
        elif cls == "warm_q_range":
            mab.warm_start({a: [1.0, float(i)] for i, a in enumerate(la)}, rng.choice([1.5, -0.25]))
        elif cls == "warm_keys":
            mab.warm_start({a: [1.0, float(i)] for i, a in enumerate(la[:-1])}, 0.5)
        elif cls == "singular_l2_zero":
            a, b = la[0], la[1]
            k = float(rng.randint(1, 3))
            mab.partial_fit([a, b], [5.0, 1.0], [[1.0, 1.0], [k, 2.0 * k]])     # arm b: A = x x' (rank one, exact in binary64)
        elif cls == "too_few_rows":
            if not (base.get("np") and base["np"][0] == "clusters"): return "n/a"
            # fewer rows than clusters - in half of the cases with contexts of another width as well (k-means looks at the
            # width before it counts the rows: fix D20)
            meth([la[0]], [1.0], gen.gen_ctx(rng, 1, dd if rng.random() < 0.5 else dd + rng.choice([1, 2, -1]) if dd > 1 else dd + 1))
        elif cls == "bad_types":
            z = rng.randrange(3)
            if z == 0: meth("abc", rs, cx)
            elif z == 1: meth(ds, {"a": 1}, cx)
            else: meth(ds, rs, "ctx" if contextual else 3.0)
        elif cls == "predict_ctx_presence":
            if not (contextual and fitted): return "n/a"
            mab.predict(None)
        elif cls == "predict_ctx_width":
            # contexts of another width in a query: the policies raise from inside prediction - after the row seeds / exploration
            # draws unless the facade rejects the call first
            if not (contextual and fitted and d): return "n/a"
            q = gen.gen_ctx(rng, rng.randint(1, 3), d + 1 if (d == 1 or rng.random() < 0.5) else d - 1)
            (mab.predict if rng.random() < 0.5 else mab.predict_expectations)(q)
        elif cls == "ctx_1d":
            if not fitted: return "n/a"
            mab.predict_expectations([1.0, 2.0])
        else:
            return "n/a"
    except Exception as e:      # noqa
        return e
    return None

def run_c17(t):
    base = t["base"]; rng = random.Random(t["seed2"])
    mab, label, inv = mwh.build_mab(base)
    for o in base["ops"][:t["pos"]]:
        mwh.apply_op(mab, o, label, inv, base)
    d, arms, fitted, nrows = history_dims(base, t["pos"])
    fitted = mab._is_initial_fit
    twin = copy.deepcopy(mab)
    exc = bad_call(mab, label, inv, base, t["cls"], rng, d, arms, fitted, all_arms=bool(t.get("all_arms")), force_pfit=bool(t.get("force_pfit")))
    if exc == "n/a":
        return True, {"skipped": "class not applicable here"}
    if exc is None:
        return True, {"skipped": "call was accepted"}
    # continuation: the rest of the history plus a further partial_fit and queries
    cont = list(base["ops"][t["pos"]:])
    dd, arms2, _, _ = history_dims(base, len(base["ops"]))
    if [inv(a) for a in mab.arms] != [inv(a) for a in twin.arms]:
        return False, {"why": "arms changed by a rejected call (%s: %r)" % (t["cls"], exc), "arms": [inv(a) for a in mab.arms]}
    if mab._is_initial_fit != twin._is_initial_fit:
        return False, {"why": "the rejected call (%s: %r) changed whether the bandit counts as fitted" % (t["cls"], exc)}
    style = base.get("reward_style", "binary")
    draw = gen.reward_stream(rng, "binary" if base["lp"][0] == "thompson" and base["lp"][1] is None else (style if style != "float" else "dyadic"))
    n = 8 if base.get("np") and base["np"][0] in ("clusters", "knearest") else rng.randint(1, 6)
    dsx = [rng.choice(arms2) for _ in range(n)] if arms2 else []
    cxx = None if not mab.is_contextual else gen.gen_ctx(rng, n, dd or 2)
    if cxx is not None and base.get("np") and base["np"][0] == "clusters":
        for i in range(min(n, 4)): cxx[i][0] = float(i)
    if mab.is_contextual and fitted and d and rng.random() < 0.5:
        # the first query after the rejected call arrives as a pandas Series (one row of d features, or rows of a single feature):
        # how it is read depends on the feature count the bandit remembers
        import pandas as pd
        vals = [float(v) for v in (gen.gen_ctx(rng, 1, d)[0] if d > 1 else [r[0] for r in gen.gen_ctx(rng, rng.choice([2, 3]), 1)])]
        def series_query(m):
            try:
                r = m.predict_expectations(pd.Series(vals))
                r = r if isinstance(r, list) else [r]
                return ("exps", [[(inv(a), mwh.canon_val(v)) for a, v in dct.items()] for dct in r])
            except Exception as e:
                return ("rejected", type(e).__name__)
        a = series_query(mab); b = series_query(twin)
        if a[0] != b[0] or (a[0] == "exps" and not outs_equal(a, b, rel_mode(base), rtol=1e-12)):
            return False, {"why": "after a rejected %s call (%s) a query passed as a pandas Series is answered differently from the bandit that never saw the call" % (t["cls"], type(exc).__name__),
                           "after_rejected": str(a)[:300], "never_called": str(b)[:300], "series": vals, "exception": type(exc).__name__}
    cont.append(("pfit", dsx, [draw() for _ in range(n)], cxx))
    cont.append(("pexp", None if cxx is None else gen.gen_ctx(rng, 2, dd or 2)))
    cont.append(("pred", None if cxx is None else [list(cxx[0])]))
    for i, o in enumerate(cont):
        a = mwh.apply_op(mab, o, label, inv, base)
        b = mwh.apply_op(twin, o, label, inv, base)
        if a[0] != b[0] or not outs_equal(a, b, rel_mode(base), rtol=1e-12):
            return False, {"why": "after a rejected %s call (%s: %s) continuation call %d (%s) differs from the bandit that never saw the call" % (
                               t["cls"], type(exc).__name__, str(exc)[:120], i, o[0]), "exception": type(exc).__name__,
                           "after_rejected": str(a)[:300], "never_called": str(b)[:300]}
        if [inv(x) for x in mab.arms] != [inv(x) for x in twin.arms]:
            return False, {"why": "arms differ after continuation call %d" % i}
    return True, {}

# ------------------------------------------------------------------ independent oracles built from the raw history
def training_history(base, outs=None, upto=None):
    """rows (decision, reward, context) in force after the ops: reset by fit (or the first partial_fit)"""
    rows = []; fitted = False; arms = list(base["arms"]); added_after = {}
    ops = base["ops"] if upto is None else base["ops"][:upto]
    for j, o in enumerate(ops):
        if outs is not None and outs[j][0] == "rejected":
            continue
        if o[0] == "fit" or (o[0] == "pfit" and not fitted):
            rows = [(d, r, None if o[3] is None else o[3][i]) for i, (d, r) in enumerate(zip(o[1], o[2]))]
            fitted = True
        elif o[0] == "pfit":
            rows += [(d, r, None if o[3] is None else o[3][i]) for i, (d, r) in enumerate(zip(o[1], o[2]))]
        elif o[0] == "add":
            arms.append(o[1])
            rows = [x for x in rows if x[0] != o[1]]      # a (re-)added arm starts without observations
        elif o[0] == "rem" and o[1] in arms:
            arms.remove(o[1])
    return rows, arms, fitted

def cf_expectation(kind, hp, rewards, total):
    n = len(rewards)
    if n == 0:
        return 0.0
    mean = float(np.sum(np.asarray(rewards, dtype=float))) / n
    if kind == "greedy":
        return mean
    if kind == "ucb":
        return mean + hp * math.sqrt(2 * math.log(total) / n)
    raise ValueError(kind)

# ------------------------------------------------------------------ C11
def gen_c11(rng, tier):
    kind = rng.choice(["greedy", "ucb"])
    base = gen.gen_ctx_case(rng, nps=["lsh"], lps=[kind], max_ops=4, arm_changes=False, reward_styles=["dyadic", "smallint", "binary"],
                            queries=False, max_rows=40)
    if kind == "greedy":
        base["lp"] = ("greedy", 0.0)
    if rng.random() < 0.4:
        base["int_ctx"] = True      # integer-typed history, fractional queries (the scaled queries below)
    if rng.random() < 0.08:
        wide = gen_c11_wide(rng)
        if wide is not None:
            return wide
    return {"base": base, "seed2": rng.randint(0, 10**9)}

def gen_c11_wide(rng):
    """54 to 62 hyper-planes per table: a hash code accumulated in binary64 loses its low bits once a high bit is set.  A stored row and
    a query that differ in the sign of plane 0 only (constructed from the planes, which are a function of seed and width) must not
    collide."""
    for _ in range(40):
        nd = rng.randint(54, 62); seed = rng.randint(0, 10**6)
        try:
            from mabwiser.mab import MAB, LearningPolicy, NeighborhoodPolicy
            probe = MAB([1, 2], LearningPolicy.EpsilonGreedy(0), NeighborhoodPolicy.LSHNearest(nd, 1), seed=seed)
            probe.fit([1], [0.0], [[1.0, 1.0]])
            pl = np.asarray(probe._imp.table_to_plane[0], dtype=float)
        except Exception:
            return None
        p0 = pl[:, 0]
        orth = np.array([-p0[1], p0[0]]) / np.linalg.norm(p0)
        a = orth + 1e-6 * p0; b = orth - 1e-6 * p0
        sa, sb = (a @ pl) > 0, (b @ pl) > 0
        if (sa != sb).sum() == 1 and sa[0] != sb[0] and sa[54:].any():
            rows = [list(map(float, a))] + [[float(rng.randint(-5, 5)), float(rng.randint(-5, 5))] for _ in range(rng.randint(2, 6))]
            ds = [3] + [rng.choice([3, 7]) for _ in rows[1:]]
            rs = [1.0] + [float(rng.randint(0, 4)) for _ in rows[1:]]
            base = {"arms": [3, 7], "lp": ("greedy", 0.0), "np": ("lsh", nd, 1, None), "seed": seed, "ops": [("fit", ds, rs, rows)],
                    "label": "int", "mode": "exact", "reward_style": "smallint"}
            return {"base": base, "seed2": rng.randint(0, 10**9), "extra_queries": [("random", list(map(float, b)))]}
    return None

def sign_patterns(X, planes):
    return [tuple(map(tuple, (np.dot(X, planes[k]) > 0).astype(int))) for k in sorted(planes.keys())]

def run_c11(t):
    base = t["base"]; rng = random.Random(t["seed2"])
    mab, label, inv, outs = drive(base)
    if not mab._is_initial_fit:
        return True, {"skipped": "untrained"}
    imp = mab._imp
    rows, arms, _ = training_history(base, outs)
    X = np.asarray([r[2] for r in rows], dtype=float)
    planes = {k: np.asarray(imp.table_to_plane[k], dtype=float) for k in imp.table_to_plane}
    pats = sign_patterns(X, planes)
    d = X.shape[1]
    queries = []
    for _ in range(6):
        z = rng.random()
        if z < 0.35:
            queries.append(("stored", list(X[rng.randrange(len(X))])))
        elif z < 0.7:
            c = rng.choice([2.0, 0.5, 3.0, 2.0 ** -40, 1e-12, 2.0 ** 30, 1e-9, 0.25, 1.5])
            queries.append(("scaled", [c * v for v in X[rng.randrange(len(X))]], c))
        elif z < 0.8:
            queries.append(("zero", [0.0] * d))
        else:
            queries.append(("random", [float(rng.randint(-6, 6)) for _ in range(d)]))
    queries += [tuple(q) for q in t.get("extra_queries", [])]
    kind, hp = base["lp"][0], base["lp"][1]
    for q in queries:
        x = np.asarray([q[1]], dtype=float)
        ambiguous = False
        nb = set()
        for k, key in enumerate(sorted(planes.keys())):
            proj = np.dot(x, planes[key])[0]
            scale = np.abs(x[0])[:, None] * np.abs(planes[key])
            if np.any((np.abs(proj) < 1e-9 * scale.sum(axis=0)) & (scale.sum(axis=0) > 0)):
                ambiguous = True
            pq = tuple((proj > 0).astype(int))
            nb |= {j for j in range(len(X)) if pats[k][j] == pq}
        if ambiguous:
            continue
        nb = sorted(nb)
        got = mwh.apply_op(mab, ("pexp", [q[1]]), label, inv, base)
        if got[0] != "exp":
            return False, {"why": "predict_expectations raised on query %s" % (q,), "out": str(got)}
        if not nb:
            want = [(a, "nan") for a in arms]
        else:
            total = len(nb)
            want = [(a, mwh.canon_val(cf_expectation(kind, hp, [rows[j][1] for j in nb if rows[j][0] == a], total))) for a in arms]
        if not outs_equal(got, ("exp", want), "tol", rtol=1e-12, atol=1e-12):
            return False, {"why": "expectations for a %s query differ from the learning policy trained on the sign-pattern collision set %s" % (q[0], nb),
                           "query": q, "got": [(a, v if v == "nan" else mwh.bits_f(v)) for a, v in got[1]],
                           "want": [(a, v if v == "nan" else mwh.bits_f(v)) for a, v in want]}
        if q[0] in ("stored", "scaled"):
            # a (positively scaled) stored row has that observation in its neighbourhood
            src = [j for j in range(len(X)) if all(abs(a * (q[2] if q[0] == "scaled" else 1.0) - b) <= 1e-12 * max(1.0, abs(b)) for a, b in zip(X[j], q[1]))]
            if src and not any(j in nb for j in src) and not np.all(X[src[0]] == 0):
                return False, {"why": "stored observation %s is not in the neighbourhood of its own (scaled) context" % src, "query": q}
    return True, {}

# ------------------------------------------------------------------ C12
def gen_tree_single_leaf(rng):
    """TreeBandit: an arm whose first observations give a single-leaf tree (one row, or all-equal rewards), then a
    partial_fit with several rows of that arm that differ in rewards and contexts: the first rewards stay filed under
    the leaf every context falls into (the tree is fitted once)"""
    kind = rng.choice(["greedy", "ucb"])
    d = rng.randint(1, 3)
    arms = rng.sample(range(0, 9), rng.randint(2, 3))
    a = arms[0]; others = arms[1:]
    draw = gen.reward_stream(rng, rng.choice(["dyadic", "smallint"]))
    n_other = rng.randint(3, 8)
    ds = [rng.choice(others) for _ in range(n_other)]; rs = [draw() for _ in range(n_other)]; cx = gen.gen_ctx(rng, n_other, d, 0, 4)
    ops = []
    first = rng.choice(["one_row_fit", "equal_rewards_fit", "add_then_one_row"])
    if first == "one_row_fit":
        k = rng.randrange(n_other + 1); ds.insert(k, a); rs.insert(k, draw()); cx.insert(k, gen.gen_ctx(rng, 1, d, 0, 4)[0])
        ops.append(("fit", ds, rs, cx))
    elif first == "equal_rewards_fit":
        v = draw(); m = rng.randint(2, 4)
        ops.append(("fit", ds + [a] * m, rs + [v] * m, cx + gen.gen_ctx(rng, m, d, 0, 4)))
    else:
        arms = others; ops.append(("fit", ds, rs, cx)); ops.append(("add", a, None))
        ops.append(("pfit", [a], [draw()], gen.gen_ctx(rng, 1, d, 0, 4)))
    m = rng.randint(3, 7)
    ops.append(("pfit", [a] * m + [rng.choice(others)], [float(i) * 2 - 3 for i in range(m)] + [draw()],
                [[float((i + j) % 5) for j in range(d)] for i in range(m)] + gen.gen_ctx(rng, 1, d, 0, 4)))
    lp = ("greedy", 0.0) if kind == "greedy" else ("ucb", gen.gen_hp(rng, "ucb"))
    return {"arms": arms, "lp": lp, "np": ("tree", {}, (True, True)), "seed": rng.randint(0, 2**31 - 2), "ops": ops,
            "label": rng.choice(["int", "str", "float"]), "mode": "exact", "reward_style": "dyadic"}

def gen_c12(rng, tier):
    if rng.random() < 0.15:
        return {"base": gen_tree_single_leaf(rng), "seed2": rng.randint(0, 10**9)}
    kind = rng.choice(["greedy", "ucb"])
    base = gen.gen_ctx_case(rng, nps=["clusters", "tree"], lps=[kind], max_ops=5, reward_styles=["dyadic", "smallint", "binary"],
                            queries=False, max_rows=30)
    if kind == "greedy":
        base["lp"] = ("greedy", 0.0)
    return {"base": base, "seed2": rng.randint(0, 10**9)}

def run_c12(t):
    base = t["base"]; rng = random.Random(t["seed2"])
    mab, label, inv, outs = drive(base)
    if not mab._is_initial_fit:
        return True, {"skipped": "untrained"}
    imp = mab._imp
    rows, arms, _ = training_history(base, outs)
    # for Clusters / TreeBandit an added arm does not erase stored rows of the same label; recompute without that rule
    rows = []
    fitted = False
    for j, o in enumerate(base["ops"]):
        if outs[j][0] == "rejected":
            continue
        if o[0] == "fit" or (o[0] == "pfit" and not fitted):
            rows = [(dd, r, o[3][i]) for i, (dd, r) in enumerate(zip(o[1], o[2]))]; fitted = True
        elif o[0] == "pfit":
            rows += [(dd, r, o[3][i]) for i, (dd, r) in enumerate(zip(o[1], o[2]))]
        elif o[0] in ("add", "rem") and base["np"][0] == "tree":
            rows = [x for x in rows if x[0] != o[1]]      # the arm's tree and leaf rewards are dropped / created empty
    if not rows:
        return True, {"skipped": "no stored rows left"}
    X = np.asarray([r[2] for r in rows], dtype=float)
    d = X.shape[1]
    kind, hp = base["lp"][0], base["lp"][1]
    qs = [list(X[rng.randrange(len(X))]) for _ in range(3)] + gen.gen_ctx(rng, 3, d)
    for q in qs:
        got = mwh.apply_op(mab, ("pexp", [q]), label, inv, base)
        if got[0] != "exp":
            return False, {"why": "predict_expectations raised", "out": str(got)}
        if base["np"][0] == "clusters":
            # stored rows: the assignment k-means made when it was fitted (labels_); the query: kmeans.predict.  (For a point
            # exactly equidistant from two centres scikit-learn's fit and predict may break the tie differently - predict(X)
            # on the stored rows is therefore NOT the partition the per-cluster policies were trained on.)
            lab = imp.kmeans.labels_ if len(getattr(imp.kmeans, "labels_", [])) == len(X) else imp.kmeans.predict(X)
            c = int(imp.kmeans.predict(np.asarray([q], dtype=float))[0])
            cell = [rows[j] for j in range(len(rows)) if lab[j] == c]
            want = [(a, mwh.canon_val(cf_expectation(kind, hp, [r for dd, r, _ in cell if dd == a], len(cell)))) for a in arms]
        else:
            want = []
            for a in arms:
                tree = imp.arm_to_tree[label(a)]
                mine = [(r, cx) for dd, r, cx in rows if dd == a]
                if not mine or not hasattr(tree, "tree_"):
                    want.append((a, mwh.canon_val(0.0))); continue
                lq = tree.apply(np.asarray([q], dtype=float))[0]
                leaves = tree.apply(np.asarray([cx for _, cx in mine], dtype=float))
                rew = [r for (r, _), lf in zip(mine, leaves) if lf == lq]
                want.append((a, mwh.canon_val(cf_expectation(kind, hp, rew, len(rew)))))
        if not outs_equal(got, ("exp", want), "tol", rtol=1e-12, atol=1e-12):
            gd = dict(got[1]); differing = [a for a, v in want if not outs_equal(("exp", [(a, gd.get(a))]), ("exp", [(a, v)]), "tol", rtol=1e-12, atol=1e-12)]
            # arms (re-)added after the last accepted training call that still have rows in the stored history
            last_train = max([j for j, o in enumerate(base["ops"]) if o[0] in ("fit", "pfit") and outs[j][0] != "rejected"] or [-1])
            readded = [o[1] for j, o in enumerate(base["ops"]) if j > last_train and o[0] == "add" and outs[j][0] != "rejected"
                       and any(dd == o[1] for dd, _, _ in rows)]
            return False, {"why": "expectations differ from the learning policy statistic over the observations in the query's %s" % (
                               "cluster" if base["np"][0] == "clusters" else "leaf (per arm)"),
                           "query": q, "got": [(a, mwh.bits_f(v)) for a, v in got[1]], "want": [(a, mwh.bits_f(v)) for a, v in want],
                           "differing_arms": differing, "readded_with_stored_rows_since_training": readded}
    return True, {}

# ------------------------------------------------------------------ C02
def gen_c02_large(rng):
    """one training call with thousands of rows (sizes just above powers of two), most of them for one arm: whatever the code does
    per block, per buffer or per page of rows must not show in the regression (relation only: numpy's solve is the oracle)"""
    kind = rng.choice(gen.LIN_KINDS)
    d = rng.randint(1, 3)
    n = rng.choice([1025, 2049, 4097, 4100, 5000, 8193, 9001])
    arms = [2, 7]
    ds = [2 if rng.random() < 0.9 else 7 for _ in range(n)]
    cx = [[float(rng.randint(0, 9)) for _ in range(d)] for _ in range(n)]
    w = [rng.uniform(-1, 1) for _ in range(d)]
    rs = [float(round(sum(a * b for a, b in zip(w, row)) + rng.uniform(-0.5, 0.5), 3)) for row in cx]
    scale = rng.random() < 0.6
    hp = 0.0 if kind == "lingreedy" else (1e-9 if kind == "lints" else rng.choice([0.5, 1.0]))
    base = {"arms": arms, "lp": (kind, hp, rng.choice([0.5, 1.0, 2.0]), scale, True), "np": None, "seed": rng.randint(0, 10**6),
            "ops": [("fit", ds, rs, cx)], "label": "int", "mode": "tol", "reward_style": "float"}
    if not scale and rng.random() < 0.5:
        k = rng.randint(1, n - 1)
        base["ops"] = [("fit", ds[:k], rs[:k], cx[:k]), ("pfit", ds[k:], rs[k:], cx[k:])]
    return {"base": base, "seed2": rng.randint(0, 10**9)}

def gen_c02_wide(rng):
    """many features (8-12), l2_lambda != 1, and arms that receive FEWER rows than features - one row at a time in part: whatever short-cut
    the code takes for a rank-deficient batch (a low-rank update of the inverse, a skipped inversion) must still give the ridge regression"""
    kind = rng.choice(gen.LIN_KINDS)
    d = rng.randint(8, 12)
    arms = rng.sample(range(0, 9), 3)
    rare = arms[rng.randrange(3)]
    n = rng.randint(d + 6, 3 * d)
    others = [a for a in arms if a != rare]
    ds = [rng.choice(others) for _ in range(n)]
    for i in rng.sample(range(n), rng.randint(1, min(4, d - 1))):
        ds[i] = rare
    row = lambda: [float(rng.randint(-3, 3)) / 2.0 for _ in range(d)]
    cx = [row() for _ in range(n)]
    w = [rng.uniform(-1, 1) for _ in range(d)]
    rew = lambda r: float(round(sum(a * b for a, b in zip(w, r)) + rng.uniform(-0.5, 0.5), 3))
    ops = [("fit", ds, [rew(r) for r in cx], cx)]
    for _ in range(rng.randint(0, 6)):                          # online updates of one or two rows
        k = rng.randint(1, 2); c2 = [row() for _ in range(k)]
        ops.append(("pfit", [rng.choice([rare, rare] + others) for _ in range(k)], [rew(r) for r in c2], c2))
    hp = 0.0 if kind == "lingreedy" else (1e-9 if kind == "lints" else rng.choice([0.5, 1.0]))
    base = {"arms": arms, "lp": (kind, hp, rng.choice([0.25, 0.5, 2.0, 4.0]), False, True), "np": None, "seed": rng.randint(0, 10**6),
            "ops": ops, "label": "int", "mode": "tol", "reward_style": "float"}
    return {"base": base, "seed2": rng.randint(0, 10**9)}

def gen_c02_near_constant(rng):
    """scale=True and a feature whose spread within an arm is positive but below the scaler's tolerance (values differing by multiples of
    1e-7: standard deviation <= 1e-6): fix_small_variance treats the column as constant (centred, not divided)"""
    kind = rng.choice(gen.LIN_KINDS)
    d = rng.randint(2, 4); j0 = rng.randrange(d)
    arms = rng.sample(range(0, 9), 2)
    n = rng.randint(8, 20)
    ds = [arms[i % 2] for i in range(n)]
    c0 = float(rng.randint(1, 5))
    cx = [[(c0 + rng.randint(0, 3) * 1e-7) if j == j0 else float(rng.randint(0, 6)) for j in range(d)] for _ in range(n)]
    w = [rng.uniform(-1, 1) for _ in range(d)]
    rs = [float(round(sum(a * b for a, b in zip(w, row)) + rng.uniform(-0.5, 0.5), 3)) for row in cx]
    hp = 0.0 if kind == "lingreedy" else (1e-9 if kind == "lints" else rng.choice([0.5, 1.0]))
    base = {"arms": arms, "lp": (kind, hp, rng.choice([0.5, 1.0, 2.0]), True, True), "np": None, "seed": rng.randint(0, 10**6),
            "ops": [("fit", ds, rs, cx)], "label": "int", "mode": "tol", "reward_style": "float"}
    return {"base": base, "seed2": rng.randint(0, 10**9)}

def gen_c02(rng, tier):
    z = rng.random()
    if z < 0.04:
        return gen_c02_large(rng)
    if z > 0.95:
        return gen_c02_near_constant(rng)
    if z < 0.12:
        return gen_c02_wide(rng)
    base = gen.gen_ctx_case(rng, nps=["none"], lps=gen.LIN_KINDS, max_ops=5, reward_styles=["dyadic", "smallint", "float"], queries=False,
                            max_rows=30, fit_prob=0.05)
    lp = list(base["lp"])
    if lp[0] == "lingreedy": lp[1] = 0.0
    if lp[0] == "lints": lp[1] = 1e-9
    # scale=True only with a single fit (running standardisation is excluded by the property)
    if lp[3] and sum(1 for o in base["ops"] if o[0] in ("fit", "pfit")) > 1:
        lp[3] = False
    base["lp"] = tuple(lp)
    return {"base": base, "seed2": rng.randint(0, 10**9)}

def run_c02(t):
    base = t["base"]; rng = random.Random(t["seed2"])
    mab, label, inv, outs = drive(base)
    if not mab._is_initial_fit:
        return True, {"skipped": "untrained"}
    rows, arms, _ = training_history(base, outs)
    # _Linear: add_arm creates a fresh model, so the erase-on-add rule of training_history applies
    kind, alpha, l2, scale = base["lp"][0], base["lp"][1], base["lp"][2], base["lp"][3]
    d = len(rows[0][2]) if rows else None
    if d is None:
        return True, {"skipped": "no rows"}
    m = rng.choice([1, 1, 2, 4])
    Q = np.asarray(gen.gen_ctx(rng, m, d), dtype=float)
    got = mwh.apply_op(mab, ("pexp", [list(r) for r in Q]), label, inv, base)
    if got[0] not in ("exp", "exps"):
        return False, {"why": "predict_expectations raised", "out": str(got)}
    gl = [got[1]] if got[0] == "exp" else got[1]
    twins = None
    if kind == "lints":
        # the draw is centred on x.beta and its deviation is LINEAR in alpha (covariance alpha^2 * A_inv): the same history and seed
        # with alpha = a and alpha = a/4 must deviate from x.beta in the ratio 4 (what "converges to it as alpha tends to 0" rests on)
        a_big = rng.choice([0.5, 1.0, 2.0])
        twins = []
        for al in (a_big, a_big / 4):
            b2 = dict(base); lp2 = list(base["lp"]); lp2[1] = al; b2["lp"] = tuple(lp2)
            m2, label2, inv2, _ = drive(b2)
            g2 = mwh.apply_op(m2, ("pexp", [list(r) for r in Q]), label2, inv2, b2)
            if g2[0] not in ("exp", "exps"):
                return False, {"why": "LinTS predict_expectations raised with alpha=%r" % al, "out": str(g2)}
            twins.append([g2[1]] if g2[0] == "exp" else g2[1])
    unobserved = []
    for a in arms:
        mine = [(r, cx) for dd, r, cx in rows if dd == a]
        Xa = np.asarray([cx for _, cx in mine], dtype=float).reshape(-1, d)
        ya = np.asarray([r for r, _ in mine], dtype=float)
        Qa = Q
        if scale and len(mine):
            mu = Xa.mean(axis=0); sd = Xa.std(axis=0); sd = np.where(sd <= 1e-6, 1.0, sd)
            Xa = (Xa - mu) / sd; Qa = (Q - mu) / sd
        A = l2 * np.eye(d) + Xa.T @ Xa
        beta = np.linalg.solve(A, Xa.T @ ya) if len(mine) else np.zeros(d)
        Ainv = np.linalg.inv(A)       # = I/l2 for an arm never observed
        if not len(mine):
            unobserved.append(a)
        for i in range(m):
            want = float(Qa[i] @ beta)
            if kind == "linucb":
                want += alpha * math.sqrt(float(Qa[i] @ Ainv @ Qa[i]))
            g = mwh.bits_f(dict(gl[i])[a])
            tol = 1e-6 * max(1.0, abs(want)) + (1e-5 * math.sqrt(float(Qa[i] @ Ainv @ Qa[i])) if kind == "lints" else 0.0)
            if twins is not None:
                e1 = mwh.bits_f(dict(twins[0][i])[a]); e4 = mwh.bits_f(dict(twins[1][i])[a])
                dev1, dev4 = e1 - want, e4 - want
                if abs(dev1 - 4 * dev4) > 1e-6 * (1.0 + abs(want) + abs(dev1)):
                    return False, {"why": "LinTS: the deviation of the draw from x.beta is not linear in alpha: alpha=%r deviates by %r, alpha=%r by %r "
                                          "(same history, same seed; expected ratio 4)" % (a_big, dev1, a_big / 4, dev4),
                                   "arm": a, "row": i, "x_beta": want, "l2_lambda": l2, "scale": scale, "d": d, "m": m}
            if abs(g - want) > tol:
                return False, {"why": "%s expectation of arm %r for context row %d is %r, the ridge regression of its %d observations gives %r" % (
                                   kind, a, i, g, len(mine), want),
                               "arm_never_observed": not len(mine), "l2_lambda": l2, "alpha": alpha, "scale": scale, "d": d, "m": m}
    return True, {}

# ------------------------------------------------------------------ C05
def partition_table_check(nmax=300, jmin=-20, jmax=40):
    """exhaustive comparison of _partition_contexts / _effective_jobs with the extracted model"""
    import multiprocessing as mp, subprocess
    from mabwiser.base_mab import BaseMAB
    from mabwiser.greedy import _EpsilonGreedy
    cpu = mp.cpu_count()
    out = subprocess.run([mwh.DRIVER, "--part", str(cpu), str(nmax), str(jmin), str(jmax)], stdout=subprocess.PIPE, text=True).stdout
    bad = []; n_checked = 0
    imp = _EpsilonGreedy(None, [1], 1, None)
    for line in out.splitlines():
        t = line.split()
        if not t or t[0] != "P":
            continue
        n, nj, j = int(t[1]), int(t[2]), int(t[3])
        sizes = [int(x) for x in t[4].split(",")]; st = [int(x) for x in t[5].split(",")]
        imp.n_jobs = nj
        ej = BaseMAB._effective_jobs(n, nj)
        pj, psizes, pstarts = imp._partition_contexts(n)
        n_checked += 1
        if ej != j or pj != j or psizes != sizes or pstarts != st:
            bad.append({"n": n, "n_jobs": nj, "impl": [ej, pj, psizes, pstarts], "model": [j, sizes, st]})
        # the exact-cover law, checked on the implementation's own answer
        if sum(psizes) != n or len(psizes) != pj or any(s < 1 for s in psizes) or pstarts[0] != 0 or pstarts[-1] != n:
            bad.append({"n": n, "n_jobs": nj, "impl_not_exact_cover": [pj, psizes, pstarts]})
    return n_checked, bad

def gen_c05(rng, tier):
    z = rng.random()
    if z < 0.1:
        # process-based workers see copies: predictions interleaved with refits that omit arms, deterministic leaf / neighbourhood policies
        base = gen.gen_ctx_case(rng, nps=[rng.choice(["tree", "tree", "tree", "radius", "lsh", "clusters", "knearest"])], lps=["ucb", "greedy"],
                                max_ops=7, fit_prob=0.35, arm_changes=False)
        if base["lp"][0] == "greedy":
            base["lp"] = ("greedy", 0.0)
        # make sure a prediction happens before a refit that leaves out one arm
        fit0 = base["ops"][0]
        d = len(fit0[3][0]); arms = base["arms"]
        n = max(8, len(fit0[1]) // 2)
        seen0 = [a for a in arms if a in set(fit0[1])] or arms
        omitted = rng.choice(seen0)                   # an arm that HAD data in the first fit has none after the second
        keep = [a for a in arms if a != omitted] or arms
        ds = [rng.choice(keep) for _ in range(n)]
        draw = gen.reward_stream(rng, base.get("reward_style", "dyadic"))
        cxn = gen.gen_ctx(rng, n, d)
        for i in range(min(n, 4)): cxn[i][0] = float(i)
        q = gen.gen_ctx(rng, 3, d)
        base["ops"] = [fit0, ("pexp", q), ("fit", ds, [draw() for _ in range(n)], cxn), ("pexp", q)] + base["ops"][1:]
        return {"base": base, "n_jobs": 2, "backend": None, "mode": "jobs", "seed2": rng.randint(0, 10**9)}
    if z >= 0.85:
        # context-free bandit with several workers: partial_fit batches restricted to a few arms (whole groups of arms absent),
        # a query after each - every arm must be refreshed as with one worker (UCB1's bonus depends on the new total count)
        base = gen.gen_cf_case(rng, max_ops=0, warm=False, foreign_decisions=False, max_rows=30)
        if rng.random() < 0.5:
            base["lp"] = ("ucb", rng.choice([0.5, 1.0, 2.0]))      # the policy whose expectation of an ABSENT arm changes with every batch
        arms = list(base["arms"])
        while len(arms) < 4:
            arms.append(max(arms) + 1)
        base["arms"] = arms
        draw = gen.reward_stream(rng, "binary" if base["lp"][0] == "thompson" else ("nonneg_dyadic" if base["lp"][0] == "popularity" else "dyadic"))
        n0 = rng.randint(len(arms), 20)
        ops = [("fit", [arms[i % len(arms)] for i in range(n0)], [draw() for _ in range(n0)], None), ("pexp", None)]
        for _ in range(rng.randint(2, 4)):
            k = rng.randint(1, max(1, len(arms) // 2)); start = rng.randrange(len(arms))
            sub = [arms[(start + i) % len(arms)] for i in range(k)] if rng.random() < 0.5 else arms[:k]
            n = rng.randint(1, 6)
            ops += [("pfit", [rng.choice(sub) for _ in range(n)], [draw() for _ in range(n)], None), ("pexp", None)]
        base["ops"] = ops
        return {"base": base, "n_jobs": rng.choice([2, 2, 3, 4, -1]), "backend": rng.choice(["threading", None]), "mode": "jobs", "seed2": rng.randint(0, 10**9)}
    if z < 0.17:
        # Radius / KNearest with a metric whose parameters scipy estimates from the data (seuclidean, mahalanobis) or another
        # rarely used one; fit -> query -> partial_fit with differently spread contexts -> query; process-based workers
        base = gen.gen_ctx_case(rng, nps=[rng.choice(["radius", "knearest"])], lps=["ucb", "greedy", "linucb"], max_ops=0, queries=False,
                                arm_changes=False, force_dim=2, max_rows=20, njobs=False)
        if base["lp"][0] == "greedy":
            base["lp"] = ("greedy", 0.0)
        metric = rng.choice(["seuclidean", "mahalanobis", "seuclidean", "mahalanobis", "cosine", "canberra", "braycurtis"])
        fit0 = base["ops"][0]
        while len(fit0[1]) < 8:
            fit0 = ("fit", fit0[1] + fit0[1], fit0[2] + fit0[2], fit0[3] + gen.gen_ctx(rng, len(fit0[3]), 2))
        npol = list(base["np"])
        if npol[0] == "radius":
            npol[1] = rng.choice([0.75, 1.0, 1.5, 2.0]); npol[2] = metric; npol[3] = None
        else:
            npol[1] = rng.randint(1, 3); npol[2] = metric
        base["np"] = tuple(npol)
        arms = base["arms"]; n = rng.randint(6, 12)
        draw = gen.reward_stream(rng, base.get("reward_style", "dyadic"))
        wide = [[float(rng.randint(0, 40)), float(rng.randint(0, 3)) / 4.0] for _ in range(n)]      # another spread per feature
        q = gen.gen_ctx(rng, 4, 2) + [list(fit0[3][0])]
        base["ops"] = [fit0, ("pexp", q), ("pfit", [rng.choice(arms) for _ in range(n)], [draw() for _ in range(n)], wide), ("pexp", q), ("pred", q)]
        return {"base": base, "n_jobs": rng.choice([2, 3]), "backend": rng.choice([None, "loky", "threading"]), "mode": "jobs", "seed2": rng.randint(0, 10**9)}
    if z < 0.3:
        base = gen.gen_cf_case(rng, max_ops=5, warm=False)
    else:
        base = gen.gen_ctx_case(rng, max_ops=5, fit_prob=0.2, lints_nbhd=True)
    backends = ["threading", "threading", None] if tier == "quick" else ["threading", None, "loky", "multiprocessing"]
    if tier == "quick" and rng.random() < 0.12:
        backends = ["loky"]
    nq = 1
    for o in base["ops"]:
        if o[0] in ("pred", "pexp") and o[1] is not None:
            nq = max(nq, len(o[1]))
    return {"base": base, "n_jobs": rng.choice([2, 3, nq, nq + 1, -1, -2, 64]), "backend": rng.choice(backends),
            "mode": rng.choice(["jobs", "jobs", "rows", "order"]), "seed2": rng.randint(0, 10**9)}

def run_c05(t):
    base = t["base"]
    mode = t["mode"]
    if mode == "jobs":
        c1 = dict(base); c1["n_jobs"] = 1; c1["backend"] = None
        c2 = dict(base); c2["n_jobs"] = t["n_jobs"]; c2["backend"] = t["backend"]
        m1, _, i1, o1 = drive(c1)
        m2, _, i2, o2 = drive(c2)
        for i, (a, b) in enumerate(zip(o1, o2)):
            if not outs_equal(a, b, rel_mode(base), rtol=1e-12):
                return False, {"why": "call %d (%s) with n_jobs=%s backend=%s differs from n_jobs=1" % (i, base["ops"][i][0], t["n_jobs"], t["backend"]),
                               "n_jobs_1": str(a)[:300], "n_jobs_k": str(b)[:300]}
        try:
            s1, s2 = arm_state(m1, i1), arm_state(m2, i2)
            if s1 != s2 and not is_lin(base):
                return False, {"why": "fitted per-arm state differs between n_jobs=1 and n_jobs=%s" % t["n_jobs"], "a": str(s1)[:300], "b": str(s2)[:300]}
        except Exception:
            pass
        return True, {}
    if mode == "rows":
        # _predict_contexts on the whole batch vs on each row alone with the same seeds
        mab, label, inv, outs = drive(base)
        imp = mab._imp
        if not mab._is_initial_fit or type(imp).__name__ not in ("_Radius", "_KNearest", "_LSHNearest", "_Clusters", "_TreeBandit"):
            return True, {"skipped": "no _predict_contexts"}
        rng = random.Random(t["seed2"])
        d = None
        for o in base["ops"]:
            if o[0] == "fit" and o[3]: d = len(o[3][0])
        X = np.asarray(gen.gen_ctx(rng, rng.randint(2, 6), d), dtype=float)
        seeds = np.asarray([rng.randint(0, 2**31 - 2) for _ in X])
        for is_predict in (True, False):
            a = copy.deepcopy(imp); whole = a._predict_contexts(X, is_predict, seeds, 0)
            single = []
            for i in range(len(X)):
                b = copy.deepcopy(imp)
                single += b._predict_contexts(X[i:i + 1], is_predict, seeds[i:i + 1], i)
            def canon(r):
                if isinstance(r, dict):
                    return [(inv(k), mwh.canon_val(v)) for k, v in r.items()]
                return inv(r)
            if [canon(r) for r in whole] != [canon(r) for r in single]:
                return False, {"why": "_predict_contexts on the whole batch differs from each row alone with the same seeds (is_predict=%s)" % is_predict,
                               "whole": str([canon(r) for r in whole])[:300], "rows": str([canon(r) for r in single])[:300]}
        return True, {}
    if mode == "order":
        # every completion order of the per-arm fit tasks (sequentialised) gives the same model
        import itertools
        mabs = []
        arms = list(base["arms"])
        perms = list(itertools.permutations(range(len(arms))))
        rng = random.Random(t["seed2"]); rng.shuffle(perms)
        ref = None
        for perm in perms[:4]:
            mab, label, inv = mwh.build_mab(base)
            imp = mab._imp
            if not hasattr(imp, "_fit_arm") or type(imp).__name__ in ("_Radius", "_KNearest", "_LSHNearest", "_Clusters"):
                return True, {"skipped": "no per-arm fit tasks"}
            def pf(decisions, rewards, contexts=None, imp=imp, perm=perm):
                order = [imp.arms[i] for i in perm if i < len(imp.arms)] + [a for i, a in enumerate(imp.arms) if i >= len(perm)]
                for a in order:
                    imp._fit_arm(a, decisions, rewards, contexts)
            imp._parallel_fit = pf
            outs = [mwh.apply_op(mab, o, label, inv, base) for o in base["ops"]]
            st = (arm_state(mab, inv) if type(imp).__name__ != "_TreeBandit" else
                  {inv(a): sorted((int(k), [float(x) for x in v]) for k, v in d.items()) for a, d in imp.arm_to_leaf_to_rewards.items()})
            if ref is None:
                ref = (outs, st)
            else:
                if st != ref[1] and not is_lin(base):
                    return False, {"why": "per-arm fit tasks run in order %s give another model than in arm order" % (perm,)}
                for i, (a, b) in enumerate(zip(ref[0], outs)):
                    if not outs_equal(a, b, rel_mode(base), rtol=1e-12):
                        return False, {"why": "call %d differs when the per-arm fit tasks complete in order %s" % (i, perm,)}
        return True, {}
    return True, {}

# ------------------------------------------------------------------ C04
def gen_tree_added_arm(rng):
    """TreeBandit: fit -> add_arm -> partial_fit whose rows for the new arm differ in every feature (several equally
    good first splits) -> queries routed differently by the tied features"""
    c = gen.gen_ctx_case(rng, nps=["tree"], lps=["ucb", "greedy"], max_ops=0, queries=False, force_dim=rng.randint(2, 4), label=rng.choice(["str", "int", "float"]))
    if c["lp"][0] == "greedy":
        c["lp"] = ("greedy", 0.0)
    d = len(c["ops"][0][3][0])
    new = 20
    c["ops"].append(("add", new, None))
    k = rng.randint(2, 3)
    lo = [float(rng.randint(0, 1)) for _ in range(d)]
    rows = [[lo[j] + 2.0 * i for j in range(d)] for i in range(k)]
    rs = [float(i) for i in range(k)]
    extra = rng.randint(0, 3)
    ds = [new] * k + [rng.choice(c["arms"]) for _ in range(extra)]
    c["ops"].append(("pfit", ds, rs + [float(rng.randint(0, 3)) for _ in range(extra)], rows + gen.gen_ctx(rng, extra, d, 0, 4)))
    qs = []
    for _ in range(4):
        q = [lo[j] + 2.0 * rng.randint(0, k - 1) for j in range(d)]
        qs.append(q)
    c["ops"].append(("pexp", qs)); c["ops"].append(("pred", qs))
    return c

def gen_c04(rng, tier, lints_nbhd=True):
    z = rng.random()
    if z > 0.93:
        return gen_tree_added_arm(rng)
    if z < 0.45:
        import props as P
        c = P.g_c13(rng, tier); c["label"] = rng.choice(["str", "str", "str", "int"])
        # exact distance ties between trained arms: the donor must not depend on set iteration order
        for j, o in enumerate(c["ops"]):
            if o[0] == "warm" and rng.random() < 0.7:
                keys = o[1]; dim = rng.randint(2, 3)
                c["ops"][j] = ("warm", keys, [[1.0 if t == (i % dim) else 0.0 for t in range(dim)] for i in range(len(keys))], 1.0)
    elif z < 0.6:
        c = gen.gen_cf_case(rng, max_ops=6, warm=True, label=rng.choice(["str", "int", "float"]))
    else:
        c = gen.gen_ctx_case(rng, max_ops=5, warm=True, label=rng.choice(["str", "int", "float"]), lints_nbhd=lints_nbhd)
        if c.get("np") and c["np"][0] == "tree" and rng.random() < 0.5:
            c["np"] = ("tree", {}, c["np"][2])        # the default-constructed parameter dictionary
    return c

def run_c04_batch(cases, tier):
    """runs all scenarios in four fresh interpreters; returns the list of (index, why) that differ"""
    import subprocess, tempfile
    work = os.path.join(mwh.ROOT, "build", "work_c04")
    os.makedirs(work, exist_ok=True)
    fn = os.path.join(work, "cases.json")
    json.dump([{k: v for k, v in c.items() if not k.startswith("_")} for c in cases], open(fn, "w"), default=str)
    runs = [("alone", "0"), ("alone", "1"), ("alone", "random"), ("interleaved", "0")]
    procs = []
    for mode, hs in runs:
        env = dict(os.environ); env["PYTHONHASHSEED"] = hs; env["PYTHONPATH"] = mwh.REPO
        procs.append((mode, hs, subprocess.Popen(["/venv/bin/python", os.path.join(mwh.ROOT, "harness", "c04_worker.py"), fn, mode],
                                                 stdout=subprocess.PIPE, stderr=subprocess.PIPE, text=True, env=env)))
    res = []
    for mode, hs, p in procs:
        out, err = p.communicate()
        try:
            res.append((mode, hs, json.loads(out.strip().splitlines()[-1])["digests"]))
        except Exception:
            return [(-1, "worker %s/%s failed: %s" % (mode, hs, (err or out)[-500:]))]
    bad = []
    ref = res[0][2]
    for mode, hs, dg in res[1:]:
        for i, (a, b) in enumerate(zip(ref, dg)):
            if a != b:
                bad.append((i, "results differ between a fresh interpreter with PYTHONHASHSEED=0 and %s with PYTHONHASHSEED=%s" % (
                    "an interpreter that interleaves other bandits" if mode == "interleaved" else "a fresh interpreter", hs)))
    return bad

# ------------------------------------------------------------------ C18
import io
def snapshot(obj):
    import pandas as pd
    if isinstance(obj, np.ndarray):
        return ("nd", obj.shape, str(obj.dtype), obj.tobytes(), obj.flags["C_CONTIGUOUS"], obj.flags["F_CONTIGUOUS"])
    if isinstance(obj, (pd.Series, pd.DataFrame)):
        arr = obj.to_numpy()
        # an object array (columns of different types) holds pointers: its bytes differ from one conversion to the next
        content = repr(arr.tolist()) if arr.dtype == object else arr.tobytes()
        return ("pd", obj.shape, [str(t) for t in (obj.dtypes if isinstance(obj, pd.DataFrame) else [obj.dtype])], content, list(obj.index))
    if isinstance(obj, dict):
        return ("dict", [(repr(k), snapshot(v)) for k, v in obj.items()])
    if isinstance(obj, (list, tuple)):
        return ("list", [snapshot(v) for v in obj])
    return ("val", repr(obj))

CONTAINERS = ["list", "np_c", "np_f", "np_int", "series", "frame", "view", "np_small", "frame_mixed", "np_f32", "np_i32"]

def to_container(vals, kind, is_matrix=False, integral=False):
    import pandas as pd
    if vals is None:
        return None
    if kind == "list":
        return [list(r) for r in vals] if is_matrix else list(vals)
    a = np.asarray(vals, dtype=float) if not (vals and isinstance((vals[0][0] if is_matrix else vals[0]), str)) else np.asarray(vals)
    if kind == "np_c":
        return np.ascontiguousarray(a)
    if kind == "np_f":
        return np.asfortranarray(a) if is_matrix else a.copy()
    if kind == "np_int":
        return a.astype(np.int64) if integral and a.dtype.kind == "f" and np.all(a == np.round(a)) else a.copy()
    if kind == "np_i32":
        # 4-byte integers: sums of products of values in the thousands leave the type's range after some tens of rows
        return a.astype(np.int32) if integral and a.dtype.kind == "f" and a.size and np.all(a == np.round(a)) and np.abs(a).max() < 2**31 else a.copy()
    if kind == "np_f32":
        # single precision: the generated values (small integers, dyadic fractions) are exactly representable, so the SAME numbers
        # arrive; sums accumulated in the data's dtype would round differently
        return a.astype(np.float32) if a.dtype.kind == "f" and np.all(a.astype(np.float32).astype(float) == a) else a.copy()
    if kind == "frame_mixed":
        # a DataFrame whose columns have different dtypes (integral columns as int64 or nullable Int64, 0/1 columns as bool): its
        # .values is an object array
        if not is_matrix:
            return pd.Series(vals)
        df = pd.DataFrame(a)
        for j, c in enumerate(df.columns):
            col = a[:, j]
            if col.size and np.all(col == np.round(col)):
                if np.all((col == 0) | (col == 1)) and j % 2 == 0:
                    df[c] = col.astype(bool)
                elif j % 2 == 1:
                    df[c] = pd.array(col.astype(np.int64), dtype="Int64")
                else:
                    df[c] = col.astype(np.int64)
        return df
    if kind == "np_small":
        # the narrowest integer type that holds the values (uint8 / int8 / int16), boolean for 0/1 data: products taken in that
        # type would overflow or be combined logically
        if integral and a.dtype.kind == "f" and a.size and np.all(a == np.round(a)):
            lo, hi = a.min(), a.max()
            if is_matrix and lo >= 0 and hi <= 1:
                return a.astype(bool)
            if lo >= 0 and hi <= 255:
                return a.astype(np.uint8)
            if lo >= -128 and hi <= 127:
                return a.astype(np.int8)
            if lo >= -32768 and hi <= 32767:
                return a.astype(np.int16)
        return a.copy()
    if kind == "series":
        if is_matrix:
            if a.shape[1] == 1 and a.shape[0] > 1:
                return pd.Series(a[:, 0])
            if a.shape[0] == 1 and a.shape[1] > 1:
                return pd.Series(a[0, :])
            return pd.DataFrame(a)
        return pd.Series(vals)
    if kind == "frame":
        return pd.DataFrame(a) if is_matrix else pd.Series(vals)
    if kind == "view":
        if is_matrix:
            big = np.zeros((a.shape[0] * 2, a.shape[1] * 2)); big[::2, ::2] = a
            return big[::2, ::2]
        if a.dtype.kind == "f":
            big = np.zeros(len(a) * 2); big[::2] = a
            return big[::2]
        return a.copy()
    raise ValueError(kind)

def gen_c18_inplace(rng):
    """the situations in which a library that avoids copies would write into the caller's array: a scaled linear policy (alone or
    under Radius / Clusters), real-valued contexts, training batches whose decisions all name ONE arm (online updates), queries
    in between, everything passed as C-contiguous float64 numpy arrays"""
    kind = rng.choice(gen.LIN_KINDS)
    d = rng.randint(1, 3)
    arms = rng.sample(range(1, 9), rng.randint(2, 3))
    hp = 0.0 if kind == "lingreedy" else (1e-9 if kind == "lints" else 0.5)
    lp = (kind, hp, rng.choice([0.5, 1.0, 2.0]), True, True)
    rc = lambda n: [[round(rng.uniform(-3, 3), 3) for _ in range(d)] for _ in range(n)]
    n0 = rng.randint(6, 12)
    ops = [("fit", [rng.choice(arms) for _ in range(n0)], [float(rng.randint(0, 4)) for _ in range(n0)], rc(n0))]
    if rng.random() < 0.5:
        a = rng.choice(arms); n1 = rng.randint(2, 5)
        ops = [("fit", [a] * n1, [float(rng.randint(0, 4)) for _ in range(n1)], rc(n1))]
    for _ in range(rng.randint(2, 4)):
        a = rng.choice(arms); n1 = rng.choice([1, 1, 2, 3])
        ops.append(("pfit", [a] * n1, [float(rng.randint(0, 4)) for _ in range(n1)], rc(n1)))
        ops.append(("pexp", rc(rng.randint(1, 3))))
    npol = rng.choice([None, None, ("radius", 50.0, "euclidean", None)])
    base = {"arms": arms, "lp": lp, "np": npol, "seed": rng.randint(0, 10**6), "ops": ops, "label": "int", "mode": "tol", "reward_style": "smallint"}
    return {"base": base, "kind": "np_c"}

def gen_c18_small_ints(rng):
    """count features and ratings in the narrowest integer type (uint8 / int8 / bool): sums of products of such values leave the
    type's range after a few rows - a linear policy must not take them in the data's dtype"""
    kind = rng.choice(["lingreedy", "linucb"])
    d = rng.randint(1, 3)
    arms = rng.sample(range(1, 9), 2)
    lp = (kind, 0.0 if kind == "lingreedy" else 0.5, rng.choice([0.5, 1.0, 2.0]), rng.random() < 0.3, True)
    hi = rng.choice([1, 9, 20, 30000, 50000, 40000])
    rc = lambda n: [[float(rng.randint(0, hi)) for _ in range(d)] for _ in range(n)]
    n0 = rng.randint(20, 40)
    ops = [("fit", [rng.choice(arms) for _ in range(n0)], [float(rng.randint(0, 9)) for _ in range(n0)], rc(n0)), ("pexp", rc(3))]
    n1 = rng.randint(5, 15)
    ops += [("pfit", [rng.choice(arms) for _ in range(n1)], [float(rng.randint(0, 9)) for _ in range(n1)], rc(n1)), ("pexp", rc(2)), ("pred", rc(2))]
    npol = rng.choice([None, None, ("knearest", 3, "euclidean")])
    base = {"arms": arms, "lp": lp, "np": npol, "seed": rng.randint(0, 10**6), "ops": ops, "label": "int", "mode": "tol", "reward_style": "smallint"}
    return {"base": base, "kind": "np_i32" if hi > 255 else rng.choice(["np_small", "frame_mixed"])}

def gen_c18(rng, tier):
    z0 = rng.random()
    if z0 < 0.08:
        return gen_c18_inplace(rng)
    if z0 < 0.18:
        return gen_c18_small_ints(rng)
    z = rng.random()
    if z < 0.35:
        base = gen.gen_cf_case(rng, max_ops=5, warm=True, styles=["smallint", "binary", "dyadic"])
    else:
        base = gen.gen_ctx_case(rng, max_ops=5, warm=True, reward_styles=["smallint", "binary", "dyadic"],
                                force_dim=rng.choice([None, None, 1]))
    if base["lp"][0] == "thompson" and base["lp"][1] is None and rng.random() < 0.5:
        base["lp"] = ("thompson", ("gt", 0.0))
    if base.get("np") is not None and base["np"][0] != "lsh" and rng.random() < 0.35:
        # real-valued (non-integral, non-dyadic) contexts: in-place arithmetic on the caller's array would not round-trip
        base.pop("int_ctx", None)
        jit = lambda cx: [[v + rng.uniform(-0.4, 0.4) * 1.1 for v in row] for row in cx]
        base["ops"] = [((o[0], o[1], o[2], jit(o[3])) if o[0] in ("fit", "pfit") and o[3] is not None else
                        ((o[0], jit(o[1])) if o[0] in ("pred", "pexp") and o[1] is not None else o)) for o in base["ops"]]
    kind = rng.choice(CONTAINERS[1:])
    if base.get("np") is None or base["np"][0] not in ("clusters", "knearest"):
        fit0 = next((o for o in base["ops"] if o[0] == "fit" and o[3] is not None), None)
        if fit0 is not None and rng.random() < 0.3:
            # a re-fit on a single decision (or a single feature) of ANOTHER width, then a query of that width: as a Series the
            # contexts of a training call are read by the number of decisions, whatever the bandit was trained on before
            d = len(fit0[3][0]); a0 = base["arms"][0]
            r1 = 1.0 if base["lp"][0] == "thompson" else 2.0
            if d == 1 or rng.random() < 0.5:
                d2 = d + rng.choice([1, 2])
                base["ops"] = list(base["ops"]) + [("fit", [a0], [r1], gen.gen_ctx(rng, 1, d2)), ("pexp", gen.gen_ctx(rng, 1, d2))]
            else:
                n2 = rng.randint(3, 5)
                base["ops"] = list(base["ops"]) + [("fit", [a0] * n2, [r1] * n2, gen.gen_ctx(rng, n2, 1)), ("pexp", gen.gen_ctx(rng, 2, 1))]
            if rng.random() < 0.6:
                kind = "series"
    return {"base": base, "kind": kind}

def run_c18(t):
    base = t["base"]; kind = t["kind"]
    ref_mab, label, inv, ref_out = drive(base)
    arms_in = [label(a) for a in base["arms"]]
    arms_snapshot = snapshot(arms_in)
    # build the bandit from caller-owned objects and keep snapshots of them
    tp = None
    lp = mwh.build_lp(base["lp"], label, lambda l: inv(l))
    npol = mwh.build_np(base.get("np"))
    if base.get("np") and base["np"][0] == "tree":
        from mabwiser.mab import NeighborhoodPolicy
        tp = dict(base["np"][1]); tp_snap = snapshot(tp)
        npol = NeighborhoodPolicy.TreeBandit(tree_parameters=tp)
    # the caller's empty-neighbourhood probabilities (Radius / LSHNearest) and the policy objects themselves
    p_list = None
    if base.get("np") and base["np"][0] in ("radius", "lsh") and base["np"][3] is not None:
        from mabwiser.mab import NeighborhoodPolicy
        p_list = list(base["np"][3])
        npol = (NeighborhoodPolicy.Radius(radius=base["np"][1], metric=base["np"][2], no_nhood_prob_of_arm=p_list) if base["np"][0] == "radius"
                else NeighborhoodPolicy.LSHNearest(n_dimensions=base["np"][1], n_tables=base["np"][2], no_nhood_prob_of_arm=p_list))
    p_snap = snapshot(p_list); pol_snap = (repr(lp), repr(npol))
    from mabwiser.mab import MAB
    mab = MAB(arms_in, lp, npol, seed=base["seed"])
    if snapshot(arms_in) != arms_snapshot:
        return False, {"why": "the constructor modified the caller's arm list"}
    if tp is not None and snapshot(tp) != tp_snap:
        return False, {"why": "the constructor modified the caller's tree_parameters dictionary", "after": repr(tp)}
    arms_in.append("sentinel-arm")
    if "sentinel-arm" in mab.arms:
        return False, {"why": "the bandit's arm list aliases the list it was constructed from"}
    arms_in.pop()
    for i, o in enumerate(base["ops"]):
        k = o[0]
        try:
            if k in ("fit", "pfit"):
                integral = all(float(r).is_integer() for r in o[2])
                ds = to_container([label(d) for d in o[1]], kind if kind != "np_int" else "np_c")
                rs = to_container(list(o[2]), kind, integral=integral)
                cx = to_container(o[3], kind, is_matrix=True, integral=True) if o[3] is not None else None
                snaps = [snapshot(x) for x in (ds, rs, cx)]
                (mab.fit if k == "fit" else mab.partial_fit)(ds, rs, cx)
                out = ("done",)
                if [snapshot(x) for x in (ds, rs, cx)] != snaps:
                    return False, {"why": "call %d (%s) modified a data container passed by the caller (%s)" % (i, k, kind)}
            elif k == "warm":
                feats = {label(a): (list(f) if kind == "list" else list(f)) for a, f in zip(o[1], o[2])}
                snap = snapshot(feats)
                mab.warm_start(feats, o[3]); out = ("done",)
                if snapshot(feats) != snap:
                    return False, {"why": "warm_start modified the caller's arm-feature dictionary"}
            elif k in ("pred", "pexp"):
                # a Series query is interpreted through the trained number of features; when the library has none
                # (context-free bandit; TreeBandit none of whose current arms has a fitted tree) its shape is undetermined
                no_width = (not mab.is_contextual) or (type(mab._imp).__name__ == "_TreeBandit" and
                                                        not any(hasattr(t_, "tree_") for t_ in mab._imp.arm_to_tree.values()))
                qkind = "np_c" if (kind == "series" and no_width) else kind
                cx = to_container(o[1], qkind, is_matrix=True, integral=True) if o[1] is not None else None
                snap = snapshot(cx)
                r = (mab.predict if k == "pred" else mab.predict_expectations)(cx)
                if snapshot(cx) != snap:
                    return False, {"why": "call %d (%s) modified the query contexts passed by the caller (%s)" % (i, k, kind)}
                if k == "pred":
                    out = ("arms", [inv(a) for a in r]) if isinstance(r, list) else ("arm", inv(r))
                else:
                    out = ("exps", [[(inv(a), mwh.canon_val(v)) for a, v in d.items()] for d in r]) if isinstance(r, list) else \
                          ("exp", [(inv(a), mwh.canon_val(v)) for a, v in r.items()])
            else:
                out = mwh.apply_op(mab, o, label, inv, base)
        except Exception as e:
            out = ("rejected", type(e).__name__, str(e)[:200])
        if out[0] != ref_out[i][0] or not outs_equal(out, ref_out[i], rel_mode(base), rtol=1e-9):
            return False, {"why": "call %d (%s) with %s containers differs from the run with Python lists" % (i, k, kind),
                           "lists": str(ref_out[i])[:300], kind: str(out)[:300]}
    if tp is not None and snapshot(tp) != tp_snap:
        return False, {"why": "the caller's tree_parameters dictionary was modified", "after": repr(tp)}
    # one more arm change at the end (its effect on later calls is not looked at): the caller's policy objects stay as they were
    try:
        mab.add_arm(label(97))
    except Exception:
        pass
    if snapshot(p_list) != p_snap:
        return False, {"why": "the caller's no_nhood_prob_of_arm list was modified", "after": repr(p_list)}
    if (repr(lp), repr(npol)) != pol_snap:
        return False, {"why": "a policy object passed by the caller was modified", "before": str(pol_snap)[:300], "after": str((repr(lp), repr(npol)))[:300]}
    return True, {}

# ------------------------------------------------------------------ Simulator (C15, C16)
import logging
def quiet_logging():
    logging.getLogger().handlers = []
    logging.getLogger().setLevel(logging.CRITICAL)
    logging.disable(logging.CRITICAL)

def gen_sim(rng, tier, metrics=None, deterministic=False):
    n = rng.randint(20, 70)
    n_arms = rng.randint(2, 4)
    arms = rng.sample(range(0, 9), n_arms)
    present = list(arms)
    if n_arms > 2 and rng.random() < 0.3:
        present = arms[:-1]                      # an arm that never occurs in the data
    d = rng.randint(1, 3)
    style = rng.choice(["smallint", "binary", "dyadic", "smallint"])
    draw = gen.reward_stream(rng, style)
    ds = [rng.choice(present) for _ in range(n)]
    if rng.random() < 0.3:
        # an arm that occurs only in the first rows (absent from an ordered test set)
        a0 = present[0]
        ds = [a0 if i < 4 else (rng.choice(present[1:]) if len(present) > 1 else a0) for i in range(n)]
    rs = [draw() for _ in range(n)]
    cx = gen.gen_ctx(rng, n, d, 0, 4)
    for i in range(min(n, 5)):
        cx[i][0] = float(i)
    nb = rng.randint(1, 3)
    bandits = []
    metrics = metrics or gen.METRICS
    for b in range(nb):
        z = rng.random()
        if z < 0.25:
            kind = rng.choice(["greedy", "ucb", "softmax", "thompson", "popularity", "random"] if not deterministic else ["greedy", "ucb"])
            lp = (kind, 0.0 if kind == "greedy" and (deterministic or rng.random() < 0.6) else gen.gen_hp(rng, kind)) if kind in ("greedy", "ucb", "softmax") else ((kind, gen.gen_binz(rng, arms) if rng.random() < 0.5 else None) if kind == "thompson" else (kind,))
            npol = None
        else:
            npk = rng.choice(["radius", "knearest", "radius", "knearest", "lsh", "clusters", "tree", "none"])
            kinds = ["greedy", "ucb", "linucb", "lingreedy"] if deterministic else ["greedy", "ucb", "thompson", "softmax", "linucb", "lingreedy"]
            if npk == "tree":
                kinds = [k for k in kinds if k in ("greedy", "ucb", "thompson")]
            if npk == "none":
                kinds = ["linucb", "lingreedy"] + ([] if deterministic else ["lints"])
            kind = rng.choice(kinds)
            if kind in gen.LIN_KINDS:
                lp = gen.gen_lin_lp(rng, kind, scale_ok=False)
                if kind == "lingreedy": lp = (kind, 0.0) + tuple(lp[2:])
            elif kind == "thompson":
                # half of the Thompson bandits carry a binarizer (TreeBandit re-applies it at the leaves: finding D6, not generated here)
                lp = (kind, gen.gen_binz(rng, arms) if (rng.random() < 0.5 and npk != "tree") else None)
            elif kind == "greedy":
                lp = (kind, 0.0 if (deterministic or rng.random() < 0.7) else 0.2)
            else:
                lp = (kind, gen.gen_hp(rng, kind))
            if npk == "radius":
                m = rng.choice(metrics)
                q = cx[rng.randrange(n)]
                try:
                    from scipy.spatial.distance import cdist
                    dd = sorted(set(float(x) for x in cdist(np.asarray(cx), np.asarray([q]), metric=m).reshape(-1) if x == x))
                    r = dd[min(len(dd) - 1, rng.randint(1, max(1, len(dd) // 2)))] if len(dd) > 1 else 1.0
                except Exception:
                    r = 2.0
                npol = ("radius", float(r) if r > 0 else 1.0, m, None)
            elif npk == "knearest":
                npol = ("knearest", rng.randint(1, 4), rng.choice(metrics))
            elif npk == "lsh":
                npol = ("lsh", rng.randint(1, 4), rng.randint(1, 3), None)
            elif npk == "clusters":
                npol = ("clusters", 2, False)
            elif npk == "tree":
                npol = ("tree", {}, (True, True))
            else:
                npol = None
        bandits.append({"name": "b%d" % b, "lp": lp, "np": npol, "seed": rng.randint(0, 10**6)})
    test_size = rng.choice([0.2, 0.3, 0.5, 0.25])
    n_test = math.ceil(n * test_size)
    bs = rng.choice([0, 0, 1, rng.randint(1, max(1, n_test)), n_test, max(1, n_test // 2)])
    if rng.random() < 0.3:
        # rewards all above (or all below) zero: an arm that occurs on one side of the split only must not pick up the 0 of the
        # placeholder statistics of the other side
        sh = rng.choice([10.0, -10.0, 3.5])
        rs = [r + sh if sh > 0 else -abs(r) + sh for r in rs]
    thompson = any(b["lp"][0] == "thompson" and b["lp"][1] is None for b in bandits)
    if thompson:
        rs = [float(int(abs(r)) % 2) for r in rs]
    if any(b["lp"][0] == "popularity" for b in bandits):
        rs = [abs(r) for r in rs]
    return {"arms": arms, "ds": ds, "rs": rs, "cx": cx, "bandits": bandits, "test_size": test_size, "is_ordered": rng.random() < 0.5,
            "batch_size": min(bs, n_test), "is_quick": rng.random() < 0.4, "seed": rng.randint(0, 10**6),
            "container": rng.choice([0, 0, 0, 1, 2, 3, 4]), "int_rs": rng.random() < 0.4}

def build_sim_bandits(t):
    out = []
    label = mwh.make_label("int"); inv = lambda a: a
    for b in t["bandits"]:
        contextual_data = True
        m = MAB_build(t["arms"], b)
        out.append((b["name"], m))
    return out

def MAB_build(arms, b):
    from mabwiser.mab import MAB
    label = mwh.make_label("int")
    return MAB(list(arms), mwh.build_lp(b["lp"], label, lambda l: l), mwh.build_np(b["np"]), seed=b["seed"])

def is_context_free(b):
    return b["np"] is None and b["lp"][0] not in gen.LIN_KINDS

def sim_inputs(t, any_ctx):
    """the Simulator's data arguments in the container t["container"] names (C18 applies to the Simulator as well):
       0 lists; 1 numpy arrays (C order); 2 numpy arrays, Fortran-ordered contexts; 3 pandas Series / DataFrame;
       4 numpy, contexts a non-contiguous strided view"""
    import pandas as pd
    k = t.get("container", 0)
    ds, rs = list(t["ds"]), list(t["rs"])
    # integer-typed rewards (clicks, ratings) when the case asks for them and every reward is integral: same values, another dtype
    as_int = bool(t.get("int_rs")) and all(float(x) == int(x) for x in rs)
    if as_int:
        rs = [int(x) for x in rs]
    cx = [list(r) for r in t["cx"]] if any_ctx else None
    if k == 0:
        return ds, rs, cx
    if k == 3:
        return pd.Series(ds), pd.Series(rs if as_int else [float(x) for x in rs]), (pd.DataFrame(np.asarray(cx, dtype=float)) if cx is not None else None)
    a_ds, a_rs = np.asarray(ds), (np.asarray(rs, dtype=np.int64) if as_int else np.asarray(rs, dtype=float))
    if cx is None:
        return a_ds, a_rs, None
    a = np.asarray(cx, dtype=float)
    if k == 2:
        a = np.asfortranarray(a)
    elif k == 4:
        wide = np.zeros((a.shape[0], 2 * a.shape[1]), dtype=float)
        wide[:, ::2] = a
        a = wide[:, ::2]
    return a_ds, a_rs, a

def run_simulator(t):
    from mabwiser.simulator import Simulator
    quiet_logging()
    bandits = build_sim_bandits(t)
    originals = [(n, copy.deepcopy(m)) for n, m in bandits]
    any_ctx = any(not is_context_free(b) for b in t["bandits"])
    in_ds, in_rs, in_cx = sim_inputs(t, any_ctx)
    sim = Simulator(bandits, in_ds, in_rs, in_cx,
                    test_size=t["test_size"], is_ordered=t["is_ordered"], batch_size=t["batch_size"], seed=t["seed"], is_quick=t["is_quick"])
    if t.get("force_chunk"):
        # exercise the chunked branches (normally taken only when the distance list would exceed 1 GB) on small data:
        # the chunk size computed by _run_train_test_split is lowered from outside
        import types
        orig = sim._run_train_test_split
        def lowered(self):
            r = orig()
            self._chunk_size = max(1, min(self._chunk_size, t["force_chunk"]))
            return r
        sim._run_train_test_split = types.MethodType(lowered, sim)
    sim.run()
    return sim, originals, any_ctx

def np_stats(x):
    x = np.asarray(x, dtype=float)
    return {"count": x.size, "sum": x.sum(), "min": x.min(), "max": x.max(), "mean": x.mean(), "std": x.std()}

def stats_close(a, b):
    for k in ("count", "sum", "min", "max", "mean", "std"):
        x, y = float(a[k]), float(b[k])
        if x != x or y != y:
            if (x != x) != (y != y): return False
            continue
        if abs(x - y) > 1e-9 * max(1.0, abs(x), abs(y)): return False
    return True

def run_c16(t):
    try:
        sim, originals, any_ctx = run_simulator(t)
    except Exception as e:
        import traceback
        # "every bandit gets exactly one prediction per test row": a run() that raises on data the public API handles accounts for no row at all
        if api_replay_completes(t):
            return False, {"why": "the Simulator raised %s: %s where fit + predict through the public API complete" % (type(e).__name__, str(e)[:150]),
                           "batch_size": t["batch_size"], "forced_chunk_size": t.get("force_chunk"), "trace": traceback.format_exc()[-600:]}
        return True, {"skipped": "simulator raised: %r (so does the public API)" % e}
    n = len(t["ds"]); ds = np.asarray(t["ds"]); rs = np.asarray(t["rs"], dtype=float)
    ti = [int(i) for i in sim.test_indices]
    if len(set(ti)) != len(ti) or any(i < 0 or i >= n for i in ti):
        return False, {"why": "test_indices are not distinct row positions", "test_indices": ti[:20]}
    n_test_expected = n - int(n * (1 - t["test_size"])) if t["is_ordered"] else None
    if t["is_ordered"] and ti != list(range(n - len(ti), n)):
        return False, {"why": "ordered split: test indices are not the last rows", "test_indices": ti[:20]}
    if t["is_ordered"] and len(ti) != n_test_expected:
        return False, {"why": "ordered split: %d test rows, expected %d" % (len(ti), n_test_expected)}
    tr = [i for i in range(n) if i not in set(ti)]
    arms = t["arms"]
    for scope, idx, got in (("total", list(range(n)), sim.arm_to_stats_total), ("train", tr, sim.arm_to_stats_train), ("test", ti, sim.arm_to_stats_test)):
        for a in arms:
            mine = [rs[i] for i in idx if ds[i] == a]
            want = np_stats(mine) if mine else {"count": 0, "sum": 0, "min": 0, "max": 0, "mean": 0, "std": 0}
            if not stats_close(got[a], want):
                return False, {"why": "%s statistics of arm %r differ from direct recomputation" % (scope, a), "got": str(got[a]), "want": str(want)}
    for a in arms:
        if sim.arm_to_stats_train[a]["count"] + sim.arm_to_stats_test[a]["count"] != sim.arm_to_stats_total[a]["count"] or \
                abs(sim.arm_to_stats_train[a]["sum"] + sim.arm_to_stats_test[a]["sum"] - sim.arm_to_stats_total[a]["sum"]) > 1e-9 * max(1.0, abs(sim.arm_to_stats_total[a]["sum"])):
            return False, {"why": "train + test counts / sums of arm %r do not give the totals" % a}
    test_ds = [t["ds"][i] for i in ti]; test_rs = [t["rs"][i] for i in ti]
    for (name, mab), b in zip(sim.bandits, t["bandits"]):
        preds = sim.bandit_to_predictions[name]
        if len(preds) != len(ti):
            return False, {"why": "bandit %s has %d predictions for %d test rows" % (name, len(preds), len(ti))}
        if any(p not in arms for p in preds):
            return False, {"why": "bandit %s predicted something that is not an arm" % name}
        nn = type(mab).__name__ in ("_RadiusSimulator", "_KNearestSimulator", "_LSHSimulator")
        nstats = sim.bandit_to_arm_to_stats_neighborhoods.get(name) if (nn and not t["is_quick"]) else None
        res = {}
        npol = b.get("np")
        cxa = np.asarray(t["cx"], dtype=float)
        def indep_nstat(i, p):
            """None: not recomputed here; {}: no neighbour took arm p; else the statistics of the neighbours' rewards for p"""
            if not (nstats is not None and npol and npol[0] == "radius" and npol[2] in ("cityblock", "chebyshev", "sqeuclidean", "euclidean")):
                return None
            from scipy.spatial.distance import cdist
            bs_ = t["batch_size"]
            hist = list(tr) + ([] if bs_ == 0 else ti[:(i // bs_) * bs_])
            if not hist:
                return None
            dd = cdist(cxa[hist], cxa[ti[i]][np.newaxis, :], metric=npol[2]).reshape(-1)
            # a row EXACTLY at the radius is a neighbour (closed ball); rows within rounding distance of it, but not on it,
            # are numerically ambiguous and are left to the library comparison (C15)
            gap = np.abs(dd - npol[1])
            if np.any((gap > 0) & (gap <= 1e-9 * max(1.0, abs(npol[1])))):
                return None
            sel = [h for h, x in zip(hist, dd) if x <= npol[1]]
            mine = [rs[h] for h in sel if ds[h] == p]
            return np_stats(mine) if mine else {}
        for stat, table in (("min", sim.bandit_to_arm_to_stats_min), ("mean", sim.bandit_to_arm_to_stats_avg), ("max", sim.bandit_to_arm_to_stats_max)):
            got = table[name]["total"] if t["batch_size"] > 0 else table[name]
            credited = {a: [] for a in arms}
            for i, p in enumerate(preds):
                if p == test_ds[i]:
                    credited[p].append(test_rs[i])
                else:
                    v = None
                    if nstats is not None:
                        row = nstats[i]
                        # a neighbourhood statistic exists only when some neighbour took the arm (a zero-count record is none)
                        if row and row.get(p) and row[p].get("count", 1) != 0:
                            v = row[p][stat]
                        own = indep_nstat(i, p)
                        if own is not None:
                            # independent recomputation of the neighbourhood (Radius, plain metrics)
                            w = own[stat] if own else None
                            if (w is None) != (v is None) or (w is not None and abs(w - v) > 1e-9 * max(1.0, abs(w))):
                                return False, {"why": "bandit %s, test row %d: the neighbourhood statistic of the predicted arm %r is %r, direct recomputation over the rows within the radius gives %r" % (name, i, p, v, w)}
                    if v is None:
                        v = sim.arm_to_stats_train[p][stat]
                    credited[p].append(v)
            total_count = 0
            for a in arms:
                want = np_stats(credited[a]) if credited[a] else {"count": 0, "sum": float("nan"), "min": float("nan"), "max": float("nan"), "mean": float("nan"), "std": float("nan")}
                if not stats_close(got[a], want):
                    return False, {"why": "default evaluation (%s) of bandit %s, arm %r differs from direct recomputation" % (stat, name, a),
                                   "got": str(got[a]), "want": str(want)}
                total_count += got[a]["count"]
            if total_count != len(ti):
                return False, {"why": "evaluated counts of bandit %s sum to %d, not to the %d test rows" % (name, total_count, len(ti))}
            res[stat] = got
        for a in arms:
            lo, mid, hi = res["min"][a]["sum"], res["mean"][a]["sum"], res["max"][a]["sum"]
            if lo == lo and not (lo <= mid + 1e-9 * max(1, abs(mid)) and mid <= hi + 1e-9 * max(1, abs(hi))):
                return False, {"why": "min / mean / max analyses of bandit %s, arm %r are not ordered: %r %r %r" % (name, a, lo, mid, hi)}
    return True, {}

def gen_c16(rng, tier):
    t = gen_sim(rng, tier)
    if rng.random() < 0.2:
        t["force_chunk"] = rng.choice([1, 2, 3, 5])
    return t

ALL_SIM_METRICS = ["cityblock", "chebyshev", "sqeuclidean", "euclidean", "seuclidean", "mahalanobis", "cosine", "canberra", "braycurtis"]

def gen_c15(rng, tier):
    if rng.random() < 0.25:
        # chunked simulation (deterministic policies: chunking changes how many row seeds are drawn per call, which only
        # deterministic policies are indifferent to)
        t = gen_sim(rng, tier, metrics=ALL_SIM_METRICS, deterministic=True)
        t["force_chunk"] = rng.choice([1, 2, 3, 5])
        # an empty neighbourhood is answered by a draw from the row generator, and chunking changes the row seeds: Radius / LSH
        # bandits become KNearest ones (never empty) in the chunked variant
        for b in t["bandits"]:
            if b["np"] is not None and b["np"][0] in ("radius", "lsh"):
                b["np"] = ("knearest", rng.randint(1, 4), rng.choice(ALL_SIM_METRICS))
        return t
    t = gen_sim(rng, tier, metrics=ALL_SIM_METRICS)
    if rng.random() < 0.15 and t["cx"] is not None and len(t["cx"][0]) >= 2:
        # a metric whose parameters scipy estimates from the arrays it is given (seuclidean: variances, mahalanobis: covariance): the library
        # computes the distances of ONE query row to the history at a time, so the simulator must not hand a whole batch to one cdist call;
        # drifting contexts (the test rows are spread differently from the training rows) and batches of several rows make the difference visible
        m = rng.choice(["seuclidean", "mahalanobis"])
        n = len(t["cx"])
        t["cx"] = [[round(row[0] * (1.0 + 3.0 * i / n), 3)] + [float(v) for v in row[1:]] for i, row in enumerate(t["cx"])]
        kinds = [("knearest", rng.randint(2, 4), m)]
        if rng.random() < 0.5:
            kinds.append(("radius", rng.choice([1.0, 1.5, 2.0, 3.0]), m, None))
            if rng.random() < 0.5: kinds.reverse()
        t["bandits"] = [{"name": "b%d" % i, "lp": rng.choice([("greedy", 0.0), ("ucb", 1.0)]), "np": npol, "seed": rng.randint(0, 10**6)} for i, npol in enumerate(kinds)]
        t["is_ordered"] = True
        if t["batch_size"] == 1:
            t["batch_size"] = rng.choice([0, 3, 5])
        return t
    if rng.random() < 0.3:
        # the shared distance dictionary: two or three neighbourhood bandits with ONE metric, KNearest and Radius in both orders,
        # over deterministic learning policies; the radius is a distance that occurs in the data (neither 0 nor 1), so whatever a
        # bandit leaves in the dictionary for its metric must be the plain distance
        m = rng.choice(["euclidean", "euclidean", "cityblock", "sqeuclidean", "chebyshev"])
        cx = np.asarray(t["cx"], dtype=float)
        try:
            from scipy.spatial.distance import cdist
            dd = sorted(set(round(float(x), 9) for x in cdist(cx, cx[:3], metric=m).reshape(-1) if x == x and x > 0 and abs(x - 1.0) > 1e-9))
        except Exception:
            dd = []
        r = dd[min(len(dd) - 1, rng.randint(0, max(0, len(dd) // 3)))] if dd else 2.5
        kinds = [("knearest", rng.randint(1, 4), m), ("radius", float(r), m, None)]
        if rng.random() < 0.5:
            kinds.reverse()
        if rng.random() < 0.4:
            kinds.insert(rng.randint(0, 2), None)       # a linear bandit in between
        bandits = []
        for i, npol in enumerate(kinds):
            if npol is None:
                lp = ("linucb", 0.5, 1.0, False, True)
            else:
                lp = rng.choice([("greedy", 0.0), ("ucb", 1.0)])
            bandits.append({"name": "b%d" % i, "lp": lp, "np": npol, "seed": rng.randint(0, 10**6)})
        t["bandits"] = bandits
    return t

def api_replay_completes(t):
    """drives fresh copies of the bandits through the public protocol on an ordered split; False if the public API raises"""
    try:
        n = len(t["ds"]); ds = np.asarray(t["ds"]); rs = np.asarray(t["rs"], dtype=float); cx = np.asarray(t["cx"], dtype=float)
        k = int(n * (1 - t["test_size"]))
        for b in t["bandits"]:
            m = MAB_build(t["arms"], b); cf = is_context_free(b)
            m.fit(ds[:k], rs[:k], **({} if cf else {"contexts": cx[:k]}))
            if cf: m.predict()
            else: m.predict(cx[k:])
        return True
    except Exception:
        return False

def run_c15(t):
    try:
        sim, originals, any_ctx = run_simulator(t)
    except Exception as e:
        # a simulation of valid data that the public API handles must not raise
        if api_replay_completes(t):
            import traceback
            return False, {"why": "the Simulator raised %s: %s where fit + predict through the public API complete" % (type(e).__name__, str(e)[:150]),
                           "batch_size": t["batch_size"], "forced_chunk_size": t.get("force_chunk"), "trace": traceback.format_exc()[-600:]}
        return True, {"skipped": "simulator raised: %r (so does the public API)" % e}
    ds = np.asarray(t["ds"]); rs = np.asarray(t["rs"], dtype=float); cx = np.asarray(t["cx"], dtype=float)
    ti = [int(i) for i in sim.test_indices]; n = len(ds)
    if t["is_ordered"]:
        tr = [i for i in range(n) if i not in set(ti)]
    else:
        from sklearn.model_selection import train_test_split
        tr, ti2 = train_test_split(list(range(n)), test_size=t["test_size"], random_state=t["seed"])
        if [int(i) for i in ti2] != ti:
            return False, {"why": "test_indices are not those of train_test_split with the given seed"}
        tr = [int(i) for i in tr]
    for (name, orig), b in zip(originals, t["bandits"]):
        cf = is_context_free(b)
        mab = orig
        kw = {} if cf else {"contexts": cx[tr]}
        mab.fit(ds[tr], rs[tr], **kw)
        preds = []; exps = []
        bs = t["batch_size"]
        # expectations are compared for policies whose expectations are deterministic
        k = b["lp"][0]
        det = (k == "ucb") or (k == "linucb") or (k in ("greedy", "lingreedy") and b["lp"][1] == 0.0)
        def as_list(e):
            return e if isinstance(e, list) else [e]
        if bs == 0:
            if cf:
                preds = [mab.predict() for _ in ti]
                if det: exps = [mab.predict_expectations()]
            else:
                p = mab.predict(cx[ti]); preds = p if isinstance(p, list) else [p]
                if det: exps = as_list(mab.predict_expectations(cx[ti]))
        else:
            for s in range(0, len(ti), bs):
                idx = ti[s:s + bs]
                if cf:
                    preds += [mab.predict() for _ in idx]
                    if det: exps += [mab.predict_expectations()]
                    mab.partial_fit(ds[idx], rs[idx])
                else:
                    p = mab.predict(cx[idx]); preds += p if isinstance(p, list) else [p]
                    e = mab.predict_expectations(cx[idx])
                    if det: exps += as_list(e)
                    mab.partial_fit(ds[idx], rs[idx], cx[idx])
        got = list(sim.bandit_to_predictions[name])
        if got != preds:
            k = next(i for i, (a, c) in enumerate(zip(got, preds)) if a != c) if len(got) == len(preds) else -1
            return False, {"why": "predictions reported for bandit %s differ from the public-API replay (first difference at test row %d)" % (name, k),
                           "bandit": b, "simulator": str(got[:12]), "replay": str(preds[:12]), "batch_size": bs}
        if det:
            ge = sim.bandit_to_expectations[name]
            ge = as_list(ge)
            if len(ge) != len(exps):
                return False, {"why": "bandit %s: %d expectation records reported, the public-API replay has %d" % (name, len(ge), len(exps)), "bandit": b, "batch_size": bs}
            lin = b["lp"][0] in gen.LIN_KINDS
            for j, (g1, e1) in enumerate(zip(ge, exps)):
                if not g1:
                    # (finding D37, repaired: the simulator classes reported {} for an empty neighbourhood where the library reports NaN for every arm)
                    return False, {"why": "bandit %s, record %d: the simulator reports no expectations, the public API reports %r" % (name, j, e1), "bandit": b}
                if list(g1.keys()) != list(e1.keys()):
                    return False, {"why": "bandit %s, record %d: expectation keys %r differ from the public API's %r" % (name, j, list(g1.keys()), list(e1.keys())), "bandit": b}
                for a in e1:
                    x, y = float(g1[a]), float(e1[a])
                    same = (x == y) or (x != x and y != y) or (lin and abs(x - y) <= 1e-9 * max(1.0, abs(x), abs(y)))
                    if not same:
                        return False, {"why": "bandit %s, record %d, arm %r: reported expectation %r, the public-API replay gives %r" % (name, j, a, x, y),
                                       "bandit": b, "batch_size": bs}
    return True, {}

# ------------------------------------------------------------------ C19
import pickle
def gen_c19(rng, tier):
    """a history, a cut point, and what is done with the copy"""
    z0 = rng.random()
    if z0 < 0.05:
        # many hyper-planes (hash codes beyond 2^53) and a copy restored in another interpreter (another hash seed)
        base = gen.gen_ctx_case(rng, nps=["lsh"], max_ops=4, warm=False, lints_nbhd=False)
        npol = list(base["np"]); npol[1] = rng.choice([54, 60, 64, 70]); base["np"] = tuple(npol)
        if base["lp"][0] == "thompson" and base["lp"][1] is not None and base["lp"][1][0] == "thr":
            base["lp"] = ("thompson", ("gt", 0.0))
        base["ops"] = [o for o in base["ops"] if o[0] != "add" or o[2] is None]
        return {"base": base, "pos": len(base["ops"]), "how": "fresh_interpreter", "seed2": rng.randint(0, 10**9)}
    if z0 < 0.1:
        # TreeBandit over Thompson sampling with a binarizer: queried, then an arm arrives WITH another binarizer, then the copy is
        # taken: whatever a query may have cached per arm outside the instance dictionary is not in the copy
        arms = [2, 4, 6]; d = 2; n = rng.randint(8, 14)
        # (the first binarizer is absent or the identity on {0,1}, the second one is not: "flip")
        first = rng.choice([None, ("gt", 0.5)])
        cx = gen.gen_ctx(rng, n, d); ds = [arms[i % 3] for i in range(n)]; rs = [float(rng.randint(0, 1)) for _ in range(n)]
        n2 = rng.randint(3, 6)
        ops = [("fit", ds, rs, cx), ("pexp", gen.gen_ctx(rng, 2, d)), ("add", 9, ("flip",)),
               ("pfit", [rng.choice(arms + [9]) for _ in range(n2)], [float(rng.randint(0, 1)) for _ in range(n2)], gen.gen_ctx(rng, n2, d)),
               ("pexp", gen.gen_ctx(rng, 2, d))]
        base = {"arms": arms, "lp": ("thompson", first), "np": ("tree", {}, (True, True)), "seed": rng.randint(0, 10**6), "ops": ops,
                "label": "int", "mode": "exact", "reward_style": "smallint"}
        pos = rng.choice([3, 4, 5])
        return {"base": base, "pos": pos, "how": rng.choice(["deepcopy", "pickle4", "fresh_interpreter"]), "seed2": rng.randint(0, 10**9)}
    if rng.random() < 0.35:
        base = gen.gen_cf_case(rng, max_ops=7, warm=True)
    else:
        base = gen.gen_ctx_case(rng, max_ops=6, warm=True, lints_nbhd=True)
    # binarizers: only the picklable kinds (module-level functions), also for arms added later
    def ok_bz(b):
        return b is None or b[0] in ("gt", "flip", "const")
    lp = base["lp"]
    if lp[0] == "thompson" and not ok_bz(lp[1]):
        base["lp"] = ("thompson", ("gt", 0.0))
    base["ops"] = [(("add", o[1], o[2] if ok_bz(o[2]) else ("gt", 0.0)) if o[0] == "add" and o[2] is not None else o) for o in base["ops"]]
    if base.get("np") and base["np"][0] == "lsh" and rng.random() < 0.3:
        npol = list(base["np"]); npol[1] = rng.randint(54, 62); base["np"] = tuple(npol)      # many hyper-planes (hash codes beyond 2^53)
    pos = 0 if rng.random() < 0.15 else rng.randint(0, len(base["ops"]))
    how = rng.choice(["deepcopy", "pickle2", "pickle3", "pickle4", "pickle5", "fresh_interpreter", "fresh_interpreter"])
    return {"base": base, "pos": pos, "how": how, "seed2": rng.randint(0, 10**9)}

def c19_continuation(base, pos, rng, mab):
    cont = list(base["ops"][pos:])
    d, arms, fitted, nrows = history_dims(base, len(base["ops"]))
    style = base.get("reward_style", "binary")
    draw = gen.reward_stream(rng, "binary" if base["lp"][0] == "thompson" and base["lp"][1] is None else (style if style != "float" else "dyadic"))
    n = 8 if base.get("np") and base["np"][0] in ("clusters", "knearest") else rng.randint(1, 6)
    if arms:
        dsx = [rng.choice(arms) for _ in range(n)]
        cxx = None if not mab.is_contextual else gen.gen_ctx(rng, n, d or 2)
        if cxx is not None and base.get("np") and base["np"][0] == "clusters":
            for i in range(min(n, 4)): cxx[i][0] = float(i)
        cont.append(("pfit", dsx, [draw() for _ in range(n)], cxx))
        cont.append(("pexp", None if cxx is None else gen.gen_ctx(rng, 2, d or 2)))
        cont.append(("pred", None if cxx is None else [list(cxx[0])]))
    return cont

def run_c19_batch(tests, tier):
    """returns the list of (index, info) of failing tests.  Two identical originals A and B are built by driving the same
    prefix; C is the copy of A.  The continuation runs on C first, then on A, then on B: C = B (the copy behaves like the
    original) and A = B (using the copy did not affect the original)."""
    import subprocess
    work = os.path.join(mwh.ROOT, "build", "work_c19")
    os.makedirs(work, exist_ok=True)
    bad = []; jobs = []; pending = []
    for idx, t in enumerate(tests):
        base = t["base"]; rng = random.Random(t["seed2"])
        A, label, inv = mwh.build_mab(base); B, _, _ = mwh.build_mab(base)
        for o in base["ops"][:t["pos"]]:
            mwh.apply_op(A, o, label, inv, base); mwh.apply_op(B, o, label, inv, base)
        cont = c19_continuation(base, t["pos"], rng, A)
        t["_cont"] = cont
        try:
            if t["how"] == "deepcopy":
                C = copy.deepcopy(A)
            elif t["how"].startswith("pickle"):
                C = pickle.loads(pickle.dumps(A, protocol=int(t["how"][-1])))
            else:
                fn = os.path.join(work, "b%d.pkl" % idx)
                with open(fn, "wb") as f:
                    pickle.dump(A, f, protocol=pickle.HIGHEST_PROTOCOL)
                C = None
        except Exception as e:
            bad.append((idx, {"why": "the bandit cannot be copied (%s): %r" % (t["how"], e)})); continue
        if C is not None:
            outC = [mwh.apply_op(C, o, label, inv, base) for o in cont]
        outA = [mwh.apply_op(A, o, label, inv, base) for o in cont]
        outB = [mwh.apply_op(B, o, label, inv, base) for o in cont]
        mode = rel_mode(base)
        for i, (a, b) in enumerate(zip(outA, outB)):
            if a[0] != b[0] or not outs_equal(a, b, mode, rtol=1e-12):
                bad.append((idx, {"why": "using the copy (%s) changed the original: continuation call %d (%s) differs" % (t["how"], i, cont[i][0]),
                                  "original_after_copy_was_used": str(a)[:300], "reference": str(b)[:300]})); break
        else:
            if C is not None:
                for i, (c, b) in enumerate(zip(outC, outB)):
                    if c[0] != b[0] or not outs_equal(c, b, mode, rtol=1e-12):
                        bad.append((idx, {"why": "the copy (%s) answers continuation call %d (%s) differently from the original" % (t["how"], i, cont[i][0]),
                                          "copy": str(c)[:300], "original": str(b)[:300]})); break
            else:
                jobs.append({"pickle": os.path.join(work, "b%d.pkl" % idx), "case": {k: v for k, v in base.items() if not k.startswith("_")}, "ops": cont})
                pending.append((idx, outB, mode, cont))
    if jobs:
        jf = os.path.join(work, "jobs.json")
        json.dump(jobs, open(jf, "w"), default=str)
        env = dict(os.environ); env["PYTHONPATH"] = mwh.REPO; env["PYTHONHASHSEED"] = "1"
        p = subprocess.run(["/venv/bin/python", os.path.join(mwh.ROOT, "harness", "c19_worker.py"), jf], stdout=subprocess.PIPE, stderr=subprocess.PIPE, text=True, env=env)
        try:
            res = json.loads(p.stdout.strip().splitlines()[-1])["outs"]
        except Exception:
            return [(-1, "fresh-interpreter worker failed: %s" % (p.stderr or p.stdout)[-400:])]
        for (idx, outB, mode, cont), outC in zip(pending, res):
            outC = [jsonable_out(o) for o in outC]
            for i, (c, b) in enumerate(zip(outC, [jsonable_out(json.loads(json.dumps(list(x), default=str))) for x in outB])):
                if c[0] != b[0] or not outs_equal(c, b, mode, rtol=1e-12):
                    bad.append((idx, {"why": "the bandit restored from a pickle in a fresh interpreter answers continuation call %d (%s) differently" % (i, cont[i][0]),
                                      "restored": str(c)[:300], "original": str(b)[:300]})); break
        for j in jobs:
            try: os.remove(j["pickle"])
            except OSError: pass
    return [(i, d["why"] + " | " + json.dumps({k: v for k, v in d.items() if k != "why"}, default=str)[:600]) for i, d in bad]

def jsonable_out(o):
    """outputs after a JSON round trip: lists instead of tuples; restore the shape outs_equal expects"""
    o = list(o)
    if o[0] in ("exp",):
        return (o[0], [tuple(x) for x in o[1]])
    if o[0] in ("exps",):
        return (o[0], [[tuple(x) for x in d] for d in o[1]])
    if o[0] in ("arms",):
        return (o[0], list(o[1]))
    return tuple(o)
