From MW Require Import Num.
Theorem placeholder : True. Proof. exact I. Qed.
Print Assumptions placeholder.
