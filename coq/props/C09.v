(*  C09 — predict returns the arm with the highest expectation.
   
    PROVED for context-free bandits, every state, every generator state, every number of rows: what predict
    returns is the first-maximum (utils.argmax: replace only on strictly greater, so the FIRST arm in arm-list
    order among ties) of exactly the dictionaries predict_expectations returns from the same state and the same
    generator position, and both calls leave the same state behind.
    Under the order laws (NumLaws: a total order on the numbers): the key utils.argmax returns attains the maximum
    of the dictionary, and every key listed before it holds a strictly smaller value (first among ties).
    EVERY policy combination (predict_is_argmax_all): linear, Radius/KNearest/LSH over either kind of learning policy,
    Clusters, TreeBandit with UCB1 / ThompsonSampling - from the same state and generator, row by row, predict's arm is
    the first arg-max of predict_expectations' dictionary, or the dictionary is all-NaN (empty neighbourhood: the
    property's exception), and both calls leave the generator in the same position.  TreeBandit + EpsilonGreedy is the
    excluded combination (its exploration step exists only inside predict); Radius / LSHNearest whose no_nhood_prob_of_arm list no longer matches the arm
    list are excluded too (finding D24: predict raises on an empty neighbourhood where predict_expectations answers); with epsilon = 0 it is covered by the
    deep-copy twin relation on the implementation. *)
From Coq Require Import List ZArith Bool Arith QArith Qcanon Permutation.
From MW Require Import Num Assoc AssocFacts Rng Par CF CFInv CFClean CFForget CFSpec Matrix Lin Warm WarmInv Nbr NbrFacts NbrIndep LshFacts Clu Tree CellFacts Mab FacadeCF FacadeArms MoreFacts NumLaws CFAlg Sim Extra QcInst OrderFacts ExpIrrel LinInv FacadeLin LpInv NbrInv CluTreeInv FacadeAll ToyFacts C09All C10All LinForget LinSim MatrixFacts GaussJordan LinSpec NbrIndepGen CluIndep C17Lin WarmIdem C14More LshScale TreeLeaf Rename PopSpec CopyFacts StatFacts CluBatch LinWarm.
Import ListNotations.

Theorem C09_predict_is_first_argmax_of_expectations_partial :
  forall (R A G : Type) (N : Num R) (aeqb : A -> A -> bool) (RG : RngOps R G) 
    (m : (@mab R A G)) (cx : option (@ctxs R)) (orc : (@oracle R A)),
  is_cf m ->
  snd (step N aeqb RG m (Predict cx orc)) = out_argmax N (snd (step N aeqb RG m (PredictExp cx orc))) /\
  fst (step N aeqb RG m (Predict cx orc)) = fst (step N aeqb RG m (PredictExp cx orc)).
Proof. exact @predict_is_argmax_of_expectations. Qed.
Print Assumptions C09_predict_is_first_argmax_of_expectations_partial.

Theorem C09_argmax_is_a_key :
  forall (R A : Type) (N : Num R) (d : list (A * R)),
  d <> [] -> exists a : A, argmax_first N d = Some a /\ In a (akeys d).
Proof. exact @argmax_first_in. Qed.
Print Assumptions C09_argmax_is_a_key.

Theorem C09_predict_is_first_argmax_every_policy_combination :
  forall (R A G : Type) (N : Num R) (aeqb : A -> A -> bool) (RG : RngOps R G) 
    (m : (@mab R A G)) (cx : option (@ctxs R)) (orc : (@oracle R A)),
  c09_applicable (m_imp m) ->
  out_agree N (snd (step N aeqb RG m (Predict cx orc))) (snd (step N aeqb RG m (PredictExp cx orc))) /\
  m_rng (fst (step N aeqb RG m (Predict cx orc))) = m_rng (fst (step N aeqb RG m (PredictExp cx orc))).
Proof. exact @predict_is_argmax_all. Qed.
Print Assumptions C09_predict_is_first_argmax_every_policy_combination.

Theorem C09_empty_neighbourhood_row_stays_all_nan_add_arm :
  forall (R A G : Type) (N : Num R) (aeqb : A -> A -> bool) (s : (@nbr R A G)) (a : A)
    (bz : option (A -> R -> R)),
  n_kf_newarm0 s = false -> nan_row (n_exp s) -> nan_row (n_exp (nbr_add_arm N aeqb s a bz)).
Proof. exact @nan_row_add. Qed.
Print Assumptions C09_empty_neighbourhood_row_stays_all_nan_add_arm.

Theorem C09_empty_neighbourhood_row_all_nan_at_construction :
  forall (R A G : Type) (k : nkind) (m : metric) (p : option (list R)) (arms : list A) (l : (@lp R A G)),
  nan_row (n_exp (nbr_init k m p false arms l)).
Proof. exact @nan_row_init. Qed.
Print Assumptions C09_empty_neighbourhood_row_all_nan_at_construction.

Theorem C09_argmax_attains_the_maximum :
  forall (R A : Type) (N : Num R),
  NumLaws N ->
  forall (d : list (A * R)) (a : A),
  argmax_first N d = Some a ->
  exists v : R, In (a, v) d /\ (forall kv : A * R, In kv d -> leb N (snd kv) v = true).
Proof. exact @argmax_first_is_maximal. Qed.
Print Assumptions C09_argmax_attains_the_maximum.

Theorem C09_ties_go_to_the_first_arm :
  forall (R A : Type) (N : Num R),
  NumLaws N ->
  forall (h : A * R) (t : list (A * R)),
  (forall kv : A * R, In kv t -> leb N (snd kv) (snd h) = true) ->
  argmax_first N (h :: t) = Some (fst h).
Proof. exact @argmax_first_ties_go_to_the_first_key. Qed.
Print Assumptions C09_ties_go_to_the_first_arm.


