(*  C07 — fit discards everything learned before.
   
    PROVED for the six context-free learning policies, for every reachable state (the two reachable-state
    invariants keys_ok and clean are proved to hold after every history in C08 / CFClean), every data set:
     * fit(D) on the used policy object yields exactly (Leibniz equality) the state fit(D) yields on a freshly
       constructed object with the same configuration and current arm list; for Thompson Sampling up to the
       stored copy of the last sample, which no operation reads (statistics, trained / warm status, warm-start
       copies, UCB1's N, Popularity's normalisation flag are all included in the equality);
     * at the facade: fit on the used bandit and on the fresh bandit are accepted or rejected alike, leave the
       same fitted flag, generator and cold_arms, and related implementation states.
     * LINEAR policies: fit(D) on the used policy equals (Leibniz) fit(D) on [lin_strip s], the freshly constructed
       policy in which each per-arm regression holds the generator copy it holds in s - NOTHING else survives a fit
       (lin_fit_forgets, lin_strip_is_fresh).  For LinGreedy / LinUCB those copies are never read: every operation
       commutes with erasing them and answers alike (LinSim), so fit discards everything observable.  For LinTS they
       are read by predict: that is finding D8, characterised exactly by this theorem.
     * Radius / KNearest / LSHNearest, TreeBandit, Clusters (Forget.v): the whole facade result of fit(D) on the used bandit equals
       (Leibniz, for every accepted call) the result of fit(D) on the bandit with everything learned removed - empty history, no
       planes / hash tables, no leaves, no fitted width, per-cluster policies as constructed, fitted flag down - and both are accepted
       or rejected alike; for Clusters the hypothesis (per-cluster policies satisfy keys_ok and clean) holds in every reachable state
       (ForgetInv.v); Thompson Sampling inside Clusters keeps only the stored copy of its last sample.
    ..._partial (facade, context-free): stated up to the relation imp_rel rather than equality.  That the trees / k-means / planes the CODE
    builds at fit depend on nothing earlier is the oracle's side of the contract: refit-versus-fresh relation on the implementation. *)
From Coq Require Import List ZArith Bool Arith QArith Qcanon Permutation.
From MW Require Import Num Assoc AssocFacts Rng Par CF CFInv CFClean CFForget CFSpec Matrix Lin Warm WarmInv Nbr NbrFacts NbrIndep LshFacts Clu Tree CellFacts Mab FacadeCF FacadeArms MoreFacts NumLaws CFAlg Sim Extra QcInst OrderFacts ExpIrrel LinInv FacadeLin LpInv NbrInv CluTreeInv FacadeAll ToyFacts C09All C10All LinForget LinSim MatrixFacts GaussJordan LinSpec NbrIndepGen CluIndep C17Lin WarmIdem C14More LshScale TreeLeaf Rename PopSpec CopyFacts StatFacts CluBatch LinWarm Forget ForgetInv.
Import ListNotations.

Theorem C07_fit_forgets_context_free :
  forall (R A : Type) (N : Num R) (aeqb : A -> A -> bool) (s : (@cf R A)) (ds : list A) (rs : list R),
  keys_ok s ->
  clean N s ->
  cf_fit N aeqb s ds rs =
  match c_kind s with
  | KThompson => set_exp (cf_fit N aeqb (cf_fresh N s) ds rs) (c_exp s)
  | _ => cf_fit N aeqb (cf_fresh N s) ds rs
  end.
Proof. exact @cf_fit_forgets. Qed.
Print Assumptions C07_fit_forgets_context_free.

Theorem C07_fit_forgets_at_the_facade_partial :
  forall (R A G : Type) (N : Num R) (aeqb : A -> A -> bool) (RG : RngOps R G),
  (forall x y : A, aeqb x y = true <-> x = y) ->
  forall (m : (@mab R A G)) (ds : list A) (rs : list R) (cx : option (@ctxs R)) (orc : (@oracle R A)),
  is_cf m ->
  mab_inv N m ->
  let r := step N aeqb RG m (Fit ds rs cx orc) in
  let r' := step N aeqb RG (mab_fresh N m) (Fit ds rs cx orc) in
  snd r = snd r' /\
  (snd r = ODone ->
   imp_rel (m_imp (fst r)) (m_imp (fst r')) /\
   m_fitted (fst r) = m_fitted (fst r') /\
   m_rng (fst r) = m_rng (fst r') /\ mab_cold_arms aeqb (fst r) = mab_cold_arms aeqb (fst r')).
Proof. exact @fit_forgets_facade. Qed.
Print Assumptions C07_fit_forgets_at_the_facade_partial.

Theorem C07_invariants_hold_after_every_history :
  forall (R A G : Type) (N : Num R) (aeqb : A -> A -> bool) (RG : RngOps R G),
  (forall x y : A, aeqb x y = true <-> x = y) ->
  forall (ops : list (@op R A)) (m : (@mab R A G)),
  rng_lengths_ok RG ->
  is_cf m ->
  mab_inv N m -> is_cf (state_after N aeqb RG m ops) /\ mab_inv N (state_after N aeqb RG m ops).
Proof. exact @run_preserves_inv. Qed.
Print Assumptions C07_invariants_hold_after_every_history.

Theorem C07_linear_fit_keeps_only_private_generator_copies :
  forall (R A G : Type) (N : Num R) (aeqb : A -> A -> bool) (s : (@lin R A G)) (g : G) 
    (ds : list A) (rs : list R) (cx : (@mat R)),
  lin_fit N aeqb (lin_strip s) g ds rs cx = lin_fit N aeqb s g ds rs cx.
Proof. exact @lin_fit_forgets. Qed.
Print Assumptions C07_linear_fit_keeps_only_private_generator_copies.

Theorem C07_linear_stripped_policy_is_the_constructed_one :
  forall (R A G : Type) (N : Num R) (s : (@lin R A G)),
  lin_keys_ok s ->
  lin_exp_zero N s ->
  let f := lin_fresh N s in
  l_kind (lin_strip s) = l_kind f /\
  l_alpha (lin_strip s) = l_alpha f /\
  l_eps (lin_strip s) = l_eps f /\
  l_l2 (lin_strip s) = l_l2 f /\
  l_scale (lin_strip s) = l_scale f /\
  l_kf_ainv (lin_strip s) = l_kf_ainv f /\
  l_nf (lin_strip s) = l_nf f /\
  l_arms (lin_strip s) = l_arms f /\
  l_exp (lin_strip s) = l_exp f /\
  l_status (lin_strip s) = l_status f /\
  map
    (fun am : A * (@ridge R G) =>
     (fst am,
      {|
        r_beta := r_beta (snd am);
        r_A := r_A (snd am);
        r_Ainv := r_Ainv (snd am);
        r_Xty := r_Xty (snd am);
        r_scaler := r_scaler (snd am);
        r_rng := None
      |})) (l_models (lin_strip s)) = l_models f.
Proof. exact @lin_strip_is_fresh. Qed.
Print Assumptions C07_linear_stripped_policy_is_the_constructed_one.

Theorem C07_lingreedy_linucb_fit_ignores_the_copies :
  forall (R A G : Type) (N : Num R) (aeqb : A -> A -> bool) (s : (@lin R A G)) (g : G) 
    (ds : list A) (rs : list R) (cx : (@mat R)),
  lin_erase (fst (lin_fit N aeqb (lin_erase s) g ds rs cx)) =
  lin_erase (fst (lin_fit N aeqb s g ds rs cx)) /\
  snd (lin_fit N aeqb (lin_erase s) g ds rs cx) = snd (lin_fit N aeqb s g ds rs cx).
Proof. exact @lin_fit_erase. Qed.
Print Assumptions C07_lingreedy_linucb_fit_ignores_the_copies.

Theorem C07_lingreedy_linucb_partial_fit_ignores_the_copies :
  forall (R A G : Type) (N : Num R) (aeqb : A -> A -> bool) (s : (@lin R A G)) (g : G) 
    (ds : list A) (rs : list R) (cx : (@mat R)),
  lin_erase (fst (lin_partial_fit N aeqb (lin_erase s) g ds rs cx)) =
  lin_erase (fst (lin_partial_fit N aeqb s g ds rs cx)) /\
  snd (lin_partial_fit N aeqb (lin_erase s) g ds rs cx) = snd (lin_partial_fit N aeqb s g ds rs cx).
Proof. exact @lin_partial_fit_erase. Qed.
Print Assumptions C07_lingreedy_linucb_partial_fit_ignores_the_copies.

Theorem C07_lingreedy_linucb_queries_ignore_the_copies :
  forall (R A G : Type) (N : Num R) (aeqb : A -> A -> bool) (RG : RngOps R G) 
    (s : (@lin R A G)) (g : G) (cx : (@mat R)),
  l_kind s <> RTs ->
  fst (fst (lin_expectations N aeqb RG (lin_erase s) g cx)) =
  fst (fst (lin_expectations N aeqb RG s g cx)) /\
  snd (lin_expectations N aeqb RG (lin_erase s) g cx) = snd (lin_expectations N aeqb RG s g cx).
Proof. exact @lin_expectations_erase. Qed.
Print Assumptions C07_lingreedy_linucb_queries_ignore_the_copies.

Theorem C07_lingreedy_linucb_warm_start_ignores_the_copies :
  forall (R A G : Type) (N : Num R) (aeqb : A -> A -> bool) (s : (@lin R A G)) (g : G) 
    (keys : list A) (raw : A -> A -> R) (q : R),
  option_map lin_erase (lin_warm_start N aeqb (lin_erase s) g keys raw q) =
  option_map lin_erase (lin_warm_start N aeqb s g keys raw q).
Proof. exact @lin_warm_start_erase. Qed.
Print Assumptions C07_lingreedy_linucb_warm_start_ignores_the_copies.

Theorem C07_lingreedy_linucb_add_arm_ignores_the_copies :
  forall (R A G : Type) (N : Num R) (aeqb : A -> A -> bool) (s : (@lin R A G)) (a : A),
  lin_erase (lin_add_arm N aeqb (lin_erase s) a) = lin_erase (lin_add_arm N aeqb s a).
Proof. exact @lin_add_arm_erase. Qed.
Print Assumptions C07_lingreedy_linucb_add_arm_ignores_the_copies.

Theorem C07_lingreedy_linucb_remove_arm_ignores_the_copies :
  forall (R A G : Type) (aeqb : A -> A -> bool) (s : (@lin R A G)) (a : A),
  lin_erase (lin_remove_arm aeqb (lin_erase s) a) = lin_erase (lin_remove_arm aeqb s a).
Proof. exact @lin_remove_arm_erase. Qed.
Print Assumptions C07_lingreedy_linucb_remove_arm_ignores_the_copies.

Theorem C07_fit_forgets_history_tables_trees_and_cluster_policies :
  forall (R A G : Type) (N : Num R) (aeqb : A -> A -> bool) (RG : RngOps R G) 
    (m : (@mab R A G)) (ds : list A) (rs : list R) (cx : option (@ctxs R)) (orc : (@oracle R A)),
  match m_imp m with
  | ICf _ | ILin _ => False
  | _ => True
  end ->
  imp_forget_inv N (m_imp m) ->
  let r := step N aeqb RG m (Fit ds rs cx orc) in
  let r' := step N aeqb RG (mab_forget N m) (Fit ds rs cx orc) in
  snd r = snd r' /\ (snd r = ODone -> fst r = fst r').
Proof. exact @fit_forgets_history_tables_trees_clusters. Qed.
Print Assumptions C07_fit_forgets_history_tables_trees_and_cluster_policies.

Theorem C07_neighbourhood_policy_fit_forgets :
  forall (R A G : Type) (N : Num R) (RG : RngOps R G) (s : (@nbr R A G)) (g : G) (ds : list A) 
    (rs : list R) (cx : (@mat R)), nbr_fit N RG s g ds rs cx = nbr_fit N RG (nbr_forget s) g ds rs cx.
Proof. exact @nbr_fit_forgets. Qed.
Print Assumptions C07_neighbourhood_policy_fit_forgets.

Theorem C07_forgotten_neighbourhood_policy_is_the_constructed_one :
  forall (R A G : Type) (s : (@nbr R A G)),
  n_exp s = afromkeys (n_arms s) None ->
  match n_kind s with
  | NLsh _ _ => True
  | _ => n_planes s = [] /\ n_tables s = []
  end ->
  nbr_forget s = nbr_init (n_kind s) (n_metric s) (n_nnprob s) (n_kf_newarm0 s) (n_arms s) (n_lp s).
Proof. exact @nbr_forget_is_constructed. Qed.
Print Assumptions C07_forgotten_neighbourhood_policy_is_the_constructed_one.

Theorem C07_clusters_fit_forgets :
  forall (R A G : Type) (N : Num R) (aeqb : A -> A -> bool) (s : (@clu R A G)) (g : G) 
    (ds : list A) (rs : list R) (cx : (@mat R)) (labels : list nat),
  clu_lps_inv N s ->
  clu_fit N aeqb s g ds rs cx labels = clu_fit N aeqb (clu_forget N s) g ds rs cx labels.
Proof. exact @clu_fit_forgets. Qed.
Print Assumptions C07_clusters_fit_forgets.

Theorem C07_tree_fit_forgets :
  forall (R A : Type) (aeqb : A -> A -> bool) (s : (@tree R A)) (leaf : A -> list R -> nat) 
    (ds : list A) (rs : list R) (cx : (@mat R)),
  tree_fit aeqb s leaf ds rs cx = tree_fit aeqb (tree_forget s) leaf ds rs cx.
Proof. exact @tree_fit_forgets. Qed.
Print Assumptions C07_tree_fit_forgets.

Theorem C07_cluster_policy_invariant_on_every_history :
  forall (R A G : Type) (N : Num R) (aeqb : A -> A -> bool) (RG : RngOps R G),
  (forall x y : A, aeqb x y = true <-> x = y) ->
  forall (ops : list (@op R A)) (m : (@mab R A G)),
  rng_lengths_ok RG ->
  imp_inv (m_imp m) ->
  imp_forget_inv N (m_imp m) -> imp_forget_inv N (m_imp (state_after N aeqb RG m ops)).
Proof. exact @run_preserves_forget_inv. Qed.
Print Assumptions C07_cluster_policy_invariant_on_every_history.

Theorem C07_constructed_clusters_satisfy_the_invariant :
  forall (R A G : Type) (N : Num R) (m : (@mab R A G)) (n : nat) (arms : list A) (k : cfkind) 
    (hp : R) (bz : option (A -> R -> R)),
  NoDup arms ->
  m_imp m = IClu (clu_init n arms (LCf (cf_init N k hp bz arms))) ->
  imp_inv (m_imp m) /\ imp_forget_inv N (m_imp m).
Proof. exact @constructed_clusters_forget_inv. Qed.
Print Assumptions C07_constructed_clusters_satisfy_the_invariant.

(* non-vacuity: a Clusters bandit over UCB1 with two clusters that has been trained, extended by an arm and trained again is
   re-fitted; the used and the forgotten bandit end Leibniz-equal, and they differ before the call *)
Definition q7 (z : Z) : Qc := Q2Qc (inject_Z z).
Definition ex7_m0 : @mab Qc Z nat := mkMab (IClu (clu_init 2 [1; 2]%Z (LCf (cf_init QcNum KUcb (q7 1) None [1; 2]%Z)))) false 5%nat.
Definition ex7_o (labels : list nat) : @oracle Qc Z := mkOracle [] labels [] (fun _ _ => 0%nat) [].
Definition ex7_used := state_after QcNum Z.eqb ToyRng ex7_m0
  [Fit [1; 2; 1]%Z [q7 1; q7 0; q7 3] (Some [[q7 0]; [q7 5]; [q7 1]]) (ex7_o [0; 1; 0]%nat);
   AddArm 3%Z None;
   PartialFit [3; 2]%Z [q7 2; q7 2] (Some [[q7 4]; [q7 0]]) (ex7_o [0; 1; 0; 1; 0]%nat)].
Definition ex7_call := Fit [2; 3; 1]%Z [q7 1; q7 1; q7 0] (Some [[q7 2]; [q7 3]; [q7 9]]) (ex7_o [1; 1; 0]%nat).
Example C07_clusters_example :
  ex7_used <> mab_forget QcNum ex7_used /\
  snd (step QcNum Z.eqb ToyRng ex7_used ex7_call) = ODone /\
  fst (step QcNum Z.eqb ToyRng ex7_used ex7_call) = fst (step QcNum Z.eqb ToyRng (mab_forget QcNum ex7_used) ex7_call).
Proof. split; [vm_compute; discriminate | split; vm_compute; reflexivity]. Qed.

