(* LinPD.v — C17 for the linear policies with l2_lambda > 0 (scale = False, ordered-field laws): in every reachable state each
   per-arm matrix A is lambda*I or lambda*I + X'X for some rows X of the fitted width (an invariant of fit, partial_fit, add_arm,
   remove_arm, warm_start and the queries), such a matrix is never singular (RidgeExists), hence training on a rectangular
   context array can fail only through a width mismatch, which is detected by the first arm that has rows - before anything
   is assigned.  So a rejected fit / partial_fit leaves the bandit exactly as it was.  (For l2_lambda = 0 the statement is false:
   finding D22, C17Singular.v.) *)
From Coq Require Import ZArith List Bool Arith Lia.
From MW Require Import Num NumLaws Assoc AssocFacts Rng Par CF CFInv CFClean Matrix MatrixFacts GaussJordan RidgeExists Lin LinInv LinSim LinSpec LinRidge Warm WarmInv LinWarm C17Lin.
Import ListNotations.

Section LinPD.
Context {R A G : Type} (N : Num R) (L : NumLaws N) (aeqb : A -> A -> bool) (RG : RngOps R G).
Hypothesis aeqb_spec : forall x y, aeqb x y = true <-> x = y.
Notation lin := (@lin R A G).
Notation ridge := (@ridge R G).

Definition psd_form (d : nat) (lam : R) (a : mat (R:=R)) : Prop :=
  a = mscale N lam (identity N d) \/ exists X, rows_len d X /\ a = madd N (mscale N lam (identity N d)) (xtx N d X).

Definition Q (d : nat) (lam : R) (m : ridge) : Prop := r_scaler m = None /\ psd_form d lam (r_A m).

Definition lin_pd (s : lin) : Prop :=
  l_scale s = false /\
  match l_nf s with Some d => Forall (fun am => Q d (l_l2 s) (snd am)) (l_models s) | None => True end.

Lemma ridge_fit_Q d lam (m : ridge) x y :
  ltb N (zero N) lam = true -> Q d lam m -> rows_len d x -> exists m1, ridge_fit N d m x y = Some m1 /\ Q d lam m1.
Proof.
  intros Hl [Hs [HA|[X [HX HA]]]] Hx.
  - destruct (ridge_fit_first N L d lam m x y Hl Hs HA Hx) as (m1 & E & A1 & S1). exists m1. split; [exact E|].
    split; [exact S1 | right; exists x; split; assumption].
  - destruct (ridge_fit_next N L d lam m X x y Hl Hs HA HX Hx) as (m1 & E & A1 & S1). exists m1. split; [exact E|].
    split; [exact S1 | right; exists (X ++ x); split; [apply Forall_app; split; assumption | exact A1]].
Qed.

Lemma arm_rows_rows_len a ds (rs : list R) (cx : mat (R:=R)) w : uniform_width w cx -> rows_len w (fst (arm_rows aeqb a ds rs cx)).
Proof.
  intros Hw. unfold arm_rows, rows_len. cbn [fst]. apply Forall_forall. intros r Hr. apply in_map_iff in Hr.
  destruct Hr as [[[dd rr] row] [<- Hf]]. apply filter_In in Hf. destruct Hf as [Hc _]. apply in_combine_r in Hc.
  unfold uniform_width in Hw. rewrite Forall_forall in Hw. apply Hw. exact Hc.
Qed.

Lemma aget_d_Q d lam (ms : list (A * ridge)) a : In a (akeys ms) -> Forall (fun am => Q d lam (snd am)) ms -> Q d lam (aget_d aeqb ridge_new ms a).
Proof.
  intros Hin H. unfold aget_d. induction ms as [|[k v] t IH]; [contradiction|]. cbn [aget]. inversion H as [|? ? Hv Ht]; subst.
  destruct (aeqb a k) eqn:E; [exact Hv|]. apply IH; [|exact Ht]. destruct Hin as [Hin|Hin]; [|exact Hin].
  cbn in Hin. subst k. assert (aeqb a a = true) by (apply aeqb_spec; reflexivity). congruence.
Qed.

Lemma Forall_aset_Q d lam (ms : list (A * ridge)) a m : Q d lam m -> Forall (fun am => Q d lam (snd am)) ms -> Forall (fun am => Q d lam (snd am)) (aset aeqb ms a m).
Proof. intros Hm H. apply (Forall_aset aeqb); [intros k; exact Hm | exact H]. Qed.

(* one arm's task *)
Lemma lin_fit_arm_pd (s : lin) g a ds rs cx d :
  ltb N (zero N) (l_l2 s) = true -> lin_keys_ok s -> lin_pd s -> l_nf s = Some d -> In a (l_arms s) -> uniform_width d cx ->
  exists s', lin_fit_arm N aeqb s g a ds rs cx = Some s' /\ lin_keys_ok s' /\ lin_pd s' /\ l_nf s' = Some d /\ l_arms s' = l_arms s /\ l_l2 s' = l_l2 s.
Proof.
  intros Hl Hk [Hsc Hpd] Hnf Hin Hw. rewrite Hnf in Hpd. unfold lin_fit_arm.
  pose proof (arm_rows_rows_len a ds rs cx d Hw) as Hrl.
  destruct (arm_rows aeqb a ds rs cx) as [x y] eqn:Ea. cbn [fst] in Hrl.
  destruct x as [|r0 x'].
  { exists s. split; [reflexivity|]. split; [exact Hk|]. split; [split; [exact Hsc | rewrite Hnf; exact Hpd]|]. repeat split; try assumption; reflexivity. }
  pose proof (arm_rows_width aeqb a ds rs cx d r0 x' Hw ltac:(rewrite Ea; reflexivity)) as Hnc.
  rewrite Hnf, Hnc, Nat.eqb_refl. cbn [negb].
  assert (Hkey : In a (akeys (l_models s))) by (destruct Hk as (_ & _ & _ & Hm); rewrite Hm; exact Hin).
  pose proof (aget_d_Q d (l_l2 s) (l_models s) a Hkey Hpd) as Hq.
  set (m := aget_d aeqb ridge_new (l_models s) a) in *.
  set (m1 := mkRidge (r_beta m) (r_A m) (r_Ainv m) (r_Xty m) (r_scaler m) (Some (match r_rng m with Some g' => g' | None => g end))).
  assert (Hq1 : Q d (l_l2 s) m1) by exact Hq.
  destruct (ridge_fit_Q d (l_l2 s) m1 (r0 :: x') y Hl Hq1 Hrl) as (m2 & E2 & Q2). rewrite E2.
  eexists. split; [reflexivity|]. split.
  - destruct Hk as (K1 & K2 & K3 & K4). unfold lin_keys_ok. cbn [set_models l_arms l_exp l_status l_models]. repeat split; try assumption.
    rewrite (akeys_aset_in aeqb aeqb_spec) by exact Hkey. exact K4.
  - split; [|cbn; repeat split; try assumption; reflexivity].
    split; [exact Hsc|]. cbn [set_models l_nf l_l2 l_models]. rewrite Hnf. apply Forall_aset_Q; assumption.
Qed.

Lemma lin_parallel_fit_pd (arms : list A) : forall (s : lin) g ds rs cx d,
  ltb N (zero N) (l_l2 s) = true -> lin_keys_ok s -> lin_pd s -> l_nf s = Some d -> (forall a, In a arms -> In a (l_arms s)) -> uniform_width d cx ->
  let r := lin_parallel_fit N aeqb s g arms ds rs cx in
  snd r = true /\ lin_keys_ok (fst r) /\ lin_pd (fst r) /\ l_nf (fst r) = Some d /\ l_arms (fst r) = l_arms s /\ l_l2 (fst r) = l_l2 s.
Proof.
  induction arms as [|a t IH]; intros s g ds rs cx d Hl Hk Hp Hnf Hsub Hw; cbn [lin_parallel_fit].
  { cbn [fst snd]. split; [reflexivity|]. split; [exact Hk|]. split; [exact Hp|]. split; [exact Hnf|]. split; reflexivity. }
  destruct (lin_fit_arm_pd s g a ds rs cx d Hl Hk Hp Hnf (Hsub a (or_introl eq_refl)) Hw) as (s' & E & K' & P' & N' & A' & L').
  rewrite E.
  assert (Hl' : ltb N (zero N) (l_l2 s') = true) by (rewrite L'; exact Hl).
  assert (Hsub' : forall b, In b t -> In b (l_arms s')) by (intros b Hb; rewrite A'; apply Hsub; right; exact Hb).
  specialize (IH s' g ds rs cx d Hl' K' P' N' Hsub' Hw).
  cbv zeta in IH. destruct IH as (I1 & I2 & I3 & I4 & I5 & I6).
  split; [exact I1|]. split; [exact I2|]. split; [exact I3|]. split; [exact I4|]. split; [rewrite I5; exact A' | rewrite I6; exact L'].
Qed.

Lemma lset_trained_pd (s : lin) ds p : lin_pd s -> lin_pd (lset_trained aeqb s ds p).
Proof. intros H. exact H. Qed.

Theorem lin_partial_fit_never_fails (s : lin) g ds rs cx d :
  ltb N (zero N) (l_l2 s) = true -> lin_keys_ok s -> lin_pd s -> l_nf s = Some d -> uniform_width d cx ->
  snd (lin_partial_fit N aeqb s g ds rs cx) = true /\ lin_pd (fst (lin_partial_fit N aeqb s g ds rs cx)) /\
  l_nf (fst (lin_partial_fit N aeqb s g ds rs cx)) = Some d /\ l_l2 (fst (lin_partial_fit N aeqb s g ds rs cx)) = l_l2 s.
Proof.
  intros Hl Hk Hp Hnf Hw. unfold lin_partial_fit.
  destruct (lin_parallel_fit_pd (l_arms s) s g ds rs cx d Hl Hk Hp Hnf (fun a H => H) Hw) as (I1 & I2 & I3 & I4 & _ & I6).
  destruct (lin_parallel_fit N aeqb s g (l_arms s) ds rs cx) as [s4 ok]. cbn [fst snd] in *. subst ok. cbn [fst snd].
  split; [reflexivity|]. split; [apply lset_trained_pd; exact I3|]. split; [exact I4 | exact I6].
Qed.

Theorem lin_fit_never_fails (s : lin) g ds rs cx :
  ltb N (zero N) (l_l2 s) = true -> lin_keys_ok s -> l_scale s = false -> uniform_width (ncols cx) cx ->
  snd (lin_fit N aeqb s g ds rs cx) = true /\ lin_pd (fst (lin_fit N aeqb s g ds rs cx)) /\
  l_nf (fst (lin_fit N aeqb s g ds rs cx)) = Some (ncols cx) /\ l_l2 (fst (lin_fit N aeqb s g ds rs cx)) = l_l2 s.
Proof.
  intros Hl Hk Hsc Hw. unfold lin_fit.
  set (d := ncols cx). set (s1 := set_lnf s (Some d)).
  set (s2 := set_models s1 (map (fun am => (fst am, ridge_init N s1 d (snd am))) (l_models s1))).
  set (s3 := set_lstatus s2 (afromkeys (l_arms s2) status0)).
  assert (K3 : lin_keys_ok s3).
  { destruct Hk as (K1 & K2 & K3 & K4). unfold lin_keys_ok, s3, s2, s1. cbn. repeat split; try assumption; [apply akeys_afromkeys|].
    unfold akeys in *. rewrite map_map. cbn. exact K4. }
  assert (P3 : lin_pd s3).
  { split; [exact Hsc|]. unfold s3, s2, s1. cbn [set_lstatus set_models set_lnf l_nf l_models l_l2]. apply Forall_forall. intros am Ham.
    apply in_map_iff in Ham. destruct Ham as [am0 [<- _]]. cbn [snd]. unfold Q, ridge_init. cbn. rewrite Hsc. split; [reflexivity | left; reflexivity]. }
  destruct (lin_parallel_fit_pd (l_arms s3) s3 g ds rs cx d Hl K3 P3 eq_refl (fun a H => H) Hw) as (I1 & I2 & I3 & I4 & _ & I6).
  destruct (lin_parallel_fit N aeqb s3 g (l_arms s3) ds rs cx) as [s4 ok]. cbn [fst snd] in *. subst ok. cbn [fst snd].
  split; [reflexivity|]. split; [apply lset_trained_pd; exact I3|]. split; [exact I4 | exact I6].
Qed.


(* ---- the other operations keep the invariant ------------------------------------------------------------------- *)
Lemma lin_add_arm_pd (s : lin) a : lin_pd s -> lin_pd (lin_add_arm N aeqb s a).
Proof.
  intros [Hsc Hp]. split; [exact Hsc|]. unfold lin_add_arm. cbn [l_nf l_l2 l_models].
  destruct (l_nf s) as [d|]; [|exact I]. apply Forall_aset_Q; [|exact Hp].
  unfold Q, ridge_init. cbn. rewrite Hsc. split; [reflexivity | left; reflexivity].
Qed.

Lemma lin_remove_arm_pd (s : lin) a : lin_pd s -> lin_pd (lin_remove_arm aeqb s a).
Proof.
  intros [Hsc Hp]. split; [exact Hsc|]. unfold lin_remove_arm. cbn [l_nf l_l2 l_models].
  destruct (l_nf s) as [d|]; [|exact I]. apply (Forall_apop aeqb). exact Hp.
Qed.

Lemma lin_copy_arm_pd g (s : lin) c w : In c (akeys (l_models s)) -> In w (akeys (l_models s)) -> lin_pd s ->
  lin_pd (lin_copy_arm aeqb g s (c, w)) /\ akeys (l_models (lin_copy_arm aeqb g s (c, w))) = akeys (l_models s).
Proof.
  intros Hc Hw [Hsc Hp]. unfold lin_copy_arm. cbn [set_models l_models]. split.
  - split; [exact Hsc|]. cbn [set_models l_nf l_l2 l_models]. destruct (l_nf s) as [d|]; [|exact I].
    apply Forall_aset_Q; [|exact Hp]. pose proof (aget_d_Q d (l_l2 s) (l_models s) w Hw Hp) as Hq. exact Hq.
  - apply (akeys_aset_in aeqb aeqb_spec). exact Hc.
Qed.

Lemma fold_copy_pd g (m : list (A * A)) : forall (s : lin), (forall c w, In (c, w) m -> In c (akeys (l_models s)) /\ In w (akeys (l_models s))) -> lin_pd s ->
  lin_pd (fold_left (lin_copy_arm aeqb g) m s).
Proof.
  induction m as [|[c w] t IH]; intros s Hin Hp; cbn [fold_left]; [exact Hp|].
  destruct (Hin c w (or_introl eq_refl)) as [Hc Hw]. destruct (lin_copy_arm_pd g s c w Hc Hw Hp) as [P1 K1].
  apply IH; [|exact P1]. intros c' w' H'. rewrite K1. apply Hin. right. exact H'.
Qed.

Lemma fold_mark_pd (m : list (A * A)) : forall (s : lin), lin_pd s -> lin_pd (fold_left (lin_mark_warm aeqb) m s).
Proof. induction m as [|[c w] t IH]; intros s Hp; cbn [fold_left]; [exact Hp|]. apply IH. exact Hp. Qed.

Lemma lin_warm_start_pd (s s' : lin) g keys raw q : lin_keys_ok s -> lin_pd s -> lin_warm_start N aeqb s g keys raw q = Some s' -> lin_pd s'.
Proof.
  intros Hk Hp. unfold lin_warm_start. destruct (distance_threshold N _ q) as [thr|]; [|discriminate]. intros E. injection E as <-.
  apply fold_mark_pd. apply fold_copy_pd; [|exact Hp]. intros c w Hcw.
  destruct (lin_warm_pairs_sound N aeqb s _ thr c w Hcw) as (H1 & H2 & _).
  destruct Hk as (_ & _ & _ & K4). rewrite K4. unfold lin_cold_arms in H1. unfold lin_trained_arms in H2.
  apply filter_In in H1. apply filter_In in H2. split; [apply H1 | apply H2].
Qed.

Lemma ridge_predict_Q (s : lin) d lam (m : ridge) g x : Q d lam m -> Q d lam (snd (fst (ridge_predict N RG s m g x))).
Proof.
  intros H. unfold ridge_predict. destruct (l_kind s); cbn [fst snd]; try exact H.
  destruct (draw_r RG _ _) as [smp gm']. destruct (r_rng m); cbn [fst snd]; exact H.
Qed.

Lemma predict_arms_Q (s : lin) d lam (arms : list A) : forall ms g x, (forall a, In a arms -> In a (akeys ms)) ->
  Forall (fun am => Q d lam (snd am)) ms -> Forall (fun am => Q d lam (snd am)) (snd (fst (predict_arms N aeqb RG s ms arms g x))).
Proof.
  induction arms as [|a t IH]; intros ms g x Hin H; cbn [predict_arms]; [exact H|].
  pose proof (ridge_predict_Q s d lam (aget_d aeqb ridge_new ms a) g x (aget_d_Q d lam ms a (Hin a (or_introl eq_refl)) H)) as Hq.
  destruct (ridge_predict N RG s (aget_d aeqb ridge_new ms a) g x) as [[v m'] g1]. cbn [fst snd] in Hq.
  assert (Hk : akeys (aset aeqb ms a m') = akeys ms) by (apply (akeys_aset_in aeqb aeqb_spec); apply Hin; left; reflexivity).
  specialize (IH (aset aeqb ms a m') g1 x ltac:(intros b Hb; rewrite Hk; apply Hin; right; exact Hb) (Forall_aset_Q d lam ms a m' Hq H)).
  destruct (predict_arms N aeqb RG s (aset aeqb ms a m') t g1 x) as [[rest ms'] g2]. cbn [fst snd] in *. exact IH.
Qed.

Lemma lin_expectations_pd (s : lin) g cx : lin_keys_ok s -> lin_pd s -> lin_pd (snd (fst (lin_expectations N aeqb RG s g cx))).
Proof.
  intros Hk [Hsc Hp]. unfold lin_expectations.
  destruct (draw_r RG g (RqRand [length cx])) as [rv g1]. destruct (draw_r RG g1 _) as [rnd g2].
  match goal with |- context [predict_arms N aeqb RG s (l_models s) (l_arms s) g2 ?X] =>
    pose proof (fun d lam => predict_arms_Q s d lam (l_arms s) (l_models s) g2 X) as HP;
    destruct (predict_arms N aeqb RG s (l_models s) (l_arms s) g2 X) as [[c1 m1] h1] end.
  cbn [fst snd] in *. split; [exact Hsc|]. cbn [set_models l_nf l_l2 l_models].
  destruct (l_nf s) as [d|]; [|exact I]. apply HP; [|exact Hp]. destruct Hk as (_ & _ & _ & K4). rewrite K4. auto.
Qed.

End LinPD.
