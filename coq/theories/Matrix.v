(* Matrix.v — dense vectors and matrices as lists, over any Num; Gauss-Jordan inverse. *)
From Coq Require Import ZArith List Bool.
From MW Require Import Num.
Import ListNotations.

Section Matrix.
Context {R : Type} (N : Num R).

Definition vec := list R.
Definition mat := list (list R).

Fixpoint map2 {X Y Z} (f : X -> Y -> Z) (a : list X) (b : list Y) : list Z :=
  match a, b with
  | x :: a', y :: b' => f x y :: map2 f a' b'
  | _, _ => []
  end.

Definition dot (u v : vec) : R := pysum N (map2 (mul N) u v).
Definition vadd (u v : vec) : vec := map2 (add N) u v.
Definition vsub (u v : vec) : vec := map2 (sub N) u v.
Definition vscale (c : R) (u : vec) : vec := map (mul N c) u.
Definition madd (a b : mat) : mat := map2 vadd a b.
Definition mscale (c : R) (a : mat) : mat := map (vscale c) a.
Definition mat_vec (m : mat) (v : vec) : vec := map (fun row => dot row v) m.

Definition zeros (d : nat) : vec := repeat (zero N) d.
Definition unit_vec (d i : nat) : vec := map (fun j => if Nat.eqb i j then one N else zero N) (seq 0 d).
Definition identity (d : nat) : mat := map (unit_vec d) (seq 0 d).

(* columns of a matrix with [d] columns *)
Definition col (m : mat) (j : nat) : vec := map (fun row => nth j row (zero N)) m.
Definition transpose (d : nat) (m : mat) : mat := map (col m) (seq 0 d).
Definition mat_mul (d : nat) (a b : mat) : mat :=   (* b has d columns *)
  let bt := transpose d b in map (fun row => map (fun c => dot row c) bt) a.

(* X^T X and X^T y for a row list X with d columns *)
Definition xtx (d : nat) (x : mat) : mat := let xt := transpose d x in map (fun ci => map (fun cj => dot ci cj) xt) xt.
Definition xty (d : nat) (x : mat) (y : vec) : vec := map (fun ci => dot ci y) (transpose d x).

Definition rabs (x : R) : R := if ltb N x (zero N) then sub N (zero N) x else x.

(* index (>= from) of the row with the largest |entry| in column c; first such row *)
Fixpoint best_pivot (rows : list (nat * vec)) (c : nat) (best : option (nat * R)) : option (nat * R) :=
  match rows with
  | [] => best
  | (i, r) :: t =>
      let v := rabs (nth c r (zero N)) in
      match best with
      | None => best_pivot t c (Some (i, v))
      | Some (_, bv) => if ltb N bv v then best_pivot t c (Some (i, v)) else best_pivot t c best
      end
  end.

Definition swap_rows (m : mat) (i j : nat) : mat :=
  map (fun k => if Nat.eqb k i then nth j m [] else if Nat.eqb k j then nth i m [] else nth k m []) (seq 0 (length m)).

(* one elimination step on column c of the augmented d x 2d matrix *)
Definition gj_step (m : mat) (c : nat) : option mat :=
  let idx := combine (seq 0 (length m)) m in
  match best_pivot (skipn c idx) c None with
  | None => None
  | Some (p, _) =>
      let m1 := swap_rows m c p in
      let prow := nth c m1 [] in
      let piv := nth c prow (zero N) in
      if eqb N piv (zero N) then None else
      let prow' := map (fun x => div N x piv) prow in
      Some (map (fun ir => let (i, r) := (ir : nat * vec) in
                   if Nat.eqb i c then prow'
                   else let f := nth c r (zero N) in vsub r (vscale f prow'))
                (combine (seq 0 (length m1)) m1))
  end.

Fixpoint gj_loop (m : mat) (cols : list nat) : option mat :=
  match cols with
  | [] => Some m
  | c :: t => match gj_step m c with None => None | Some m' => gj_loop m' t end
  end.

(* np.linalg.inv; None = singular (LinAlgError) *)
Definition inverse (d : nat) (a : mat) : option mat :=
  let aug := map2 (fun r e => r ++ e) a (identity d) in
  match gj_loop aug (seq 0 d) with
  | None => None
  | Some m => Some (map (skipn d) m)
  end.

End Matrix.
