# mwh.py — shared harness library: drives the real implementation imported from
# /repo's working tree, records every random request, writes case files for the
# extracted model, runs the OCaml driver and compares.
import functools, os, sys, struct, hashlib, json, subprocess, time, copy, random, math, traceback, warnings

ROOT = os.path.dirname(os.path.dirname(os.path.abspath(__file__)))
REPO = os.environ.get("MABWISER_REPO", "/repo")
for k in ("OMP_NUM_THREADS", "OPENBLAS_NUM_THREADS", "MKL_NUM_THREADS"):
    os.environ[k] = "1"
os.environ.setdefault("PYTHONHASHSEED", "0")
if REPO not in sys.path:
    sys.path.insert(0, REPO)
warnings.filterwarnings("ignore")

import numpy as np
import mabwiser.utils as mutils
from mabwiser.mab import MAB, LearningPolicy, NeighborhoodPolicy

assert os.path.abspath(mutils.__file__).startswith(os.path.abspath(REPO)), mutils.__file__

DRIVER = os.path.join(ROOT, "build", "driver")

# ------------------------------------------------------------------ float <-> bits
def fbits(x):
    return struct.unpack("<q", struct.pack("<d", float(x)))[0]

def bits_f(b):
    return struct.unpack("<d", struct.pack("<q", int(b)))[0]

# ------------------------------------------------------------------ RNG recording
class Tape:
    def __init__(self):
        self.entries = {}      # key -> (params, kind, answers)
        self.log = []          # (key, reqstring) in request order

CURRENT = [None]

class GenProxy:
    """Wraps numpy's Generator inside mabwiser.utils._NumpyRNG.  Only the object
    stored in `_NumpyRNG.rng` is replaced; every method of _NumpyRNG runs unmodified."""
    def __init__(self, gen, seed):
        self._gen = gen
        self._d = "S%d" % int(seed)

    def _rec(self, req, params, kind, answers):
        key = hashlib.md5((self._d + "|" + req).encode()).hexdigest()
        self._d = key
        t = CURRENT[0]
        if t is not None:
            t.entries.setdefault(key, []).append(([float(p) for p in params], kind, answers))
            t.log.append((key, req))

    @staticmethod
    def _shape(size):
        if size is None:
            return ""
        if isinstance(size, (int, np.integer)):
            return str(int(size))
        return ",".join(str(int(s)) for s in size)

    def random(self, size=None):
        a = self._gen.random(size)
        self._rec("rand:" + self._shape(size), [], "r", [float(v) for v in np.asarray(a, dtype=float).ravel()])
        return a

    def integers(self, low, high=None, size=None):
        a = self._gen.integers(low=low, high=high, size=size)
        if high is None and size is not None:
            self._rec("randint:" + self._shape(size), [low], "z", [int(v) for v in np.asarray(a).ravel()])
        elif high is not None and size is None:
            self._rec("randint2:", [low, high], "z", [int(a)])
        else:
            raise RuntimeError("unmodelled integers() call shape")
        return a

    def choice(self, a, size=None, p=None):
        r = self._gen.choice(a=a, size=size, p=p)
        if not isinstance(a, (int, np.integer)) or size != 1:
            raise RuntimeError("unmodelled choice() call shape")
        self._rec("choice:%d" % int(a), [] if p is None else list(p), "z", [int(v) for v in np.asarray(r).ravel()])
        return r

    def beta(self, a, b, size=None):
        r = self._gen.beta(a, b, size)
        self._rec("beta:" + self._shape(size), [a, b], "r", [float(v) for v in np.asarray(r, dtype=float).ravel()])
        return r

    def standard_normal(self, size=None):
        r = self._gen.standard_normal(size)
        self._rec("stdnormal:" + self._shape(size), [], "r", [float(v) for v in np.asarray(r, dtype=float).ravel()])
        return r

    def multivariate_normal(self, mean, cov, size=None, method="svd"):
        r = self._gen.multivariate_normal(mean, cov, size=size, method=method)
        mean = np.asarray(mean, dtype=float).ravel()
        self._rec("mvn:%d,%s" % (len(mean), self._shape(size)),
                  list(mean) + list(np.asarray(cov, dtype=float).ravel()), "r",
                  [float(v) for v in np.asarray(r, dtype=float).ravel()])
        return r

    def dirichlet(self, alpha, size=None):
        r = self._gen.dirichlet(alpha, size)
        self._rec("dirichlet:%d,%s" % (len(alpha), self._shape(size)), list(alpha), "r",
                  [float(v) for v in np.asarray(r, dtype=float).ravel()])
        return r

    @property
    def bit_generator(self):
        return self._gen.bit_generator

_orig_init = mutils._NumpyRNG.__init__
def _patched_init(self, seed):
    _orig_init(self, seed)
    if not isinstance(self.rng, GenProxy):
        self.rng = GenProxy(self.rng, seed)
if getattr(mutils._NumpyRNG.__init__, "__name__", "") != "_patched_init":
    mutils._NumpyRNG.__init__ = _patched_init

class recording:
    def __init__(self):
        self.tape = Tape()
    def __enter__(self):
        self.prev = CURRENT[0]
        CURRENT[0] = self.tape
        return self.tape
    def __exit__(self, *a):
        CURRENT[0] = self.prev

def all_rngs(mab):
    """every _NumpyRNG object reachable from the bandit (for copying stream positions)"""
    seen, out = set(), []
    def walk(o, depth=0):
        if id(o) in seen or depth > 8:
            return
        seen.add(id(o))
        if isinstance(o, mutils._BaseRNG):
            out.append(o)
            return
        if isinstance(o, dict):
            for v in o.values():
                walk(v, depth + 1)
        elif isinstance(o, (list, tuple)):
            for v in o:
                walk(v, depth + 1)
        elif hasattr(o, "__dict__") and type(o).__module__.startswith("mabwiser"):
            for v in vars(o).values():
                walk(v, depth + 1)
    walk(mab)
    return out

# ------------------------------------------------------------------ labels
def make_label(style):
    if style == "int":
        return lambda k: int(k)
    if style == "str":
        # labels of different lengths: numpy stores them in a fixed-width unicode dtype sized by the longest one it has seen
        return lambda k: "arm" + "x" * (int(k) % 3) + "%d" % k
    if style == "float":
        return lambda k: float(k) + 0.5
    if style == "tenths":
        # float labels that single precision does not represent exactly: a float32 decisions array holds OTHER doubles than the labels
        return lambda k: (int(k) + 3) / 10.0
    if style == "negint":
        return lambda k: -int(k) * 3 - 1
    if style == "mixed":
        # one arm list mixing the three label types (numpy would turn a list of such decisions into strings)
        return lambda k: int(k) if int(k) % 3 == 0 else ("arm%d" % k if int(k) % 3 == 1 else float(k) + 0.5)
    raise ValueError(style)

# ------------------------------------------------------------------ binarizers (same codes as driver/main.ml)
def make_binarizer(code, label, inv):
    if code is None:
        return None
    kind = code[0]
    if kind == "thr":
        # keyed by the labels themselves, bound by functools.partial: picklable (process-based workers, C19)
        tbl = {label(a): v for a, v in code[1]}; dflt = code[2]
        return functools.partial(binz_thr, tbl, dflt)
    # module-level functions bound by functools.partial: picklable (C19), same behaviour as the former lambdas
    if kind == "flip":
        return functools.partial(binz_flip)
    if kind == "gt":
        return functools.partial(binz_gt, code[1])
    if kind == "const":
        return functools.partial(binz_const, code[1])
    raise ValueError(code)

def binz_thr(tbl, dflt, arm, r):
    return 1 if r >= tbl.get(arm, dflt) else 0
def binz_flip(arm, r):
    return 1 if r == 0 else 0
def binz_gt(t, arm, r):
    return 1 if r > t else 0
def binz_const(c, arm, r):
    return c

def make_inv(case):
    label = make_label(case.get("label", "int"))
    inv_map = {label(k): k for k in case["arms"]}
    for o in case["ops"]:
        if o[0] == "add":
            inv_map[label(o[1])] = o[1]
    return label, (lambda l: inv_map[l])

def binz_tokens(code):
    if code is None:
        return ["none"]
    kind = code[0]
    if kind == "thr":
        t = ["thr", str(len(code[1]))]
        for a, v in code[1]:
            t += [str(a), str(fbits(v))]
        t.append(str(fbits(code[2])))
        return t
    if kind == "flip":
        return ["flip"]
    if kind == "gt":
        return ["gt", str(fbits(code[1]))]
    if kind == "const":
        return ["const", str(fbits(code[1]))]
    raise ValueError(code)

# ------------------------------------------------------------------ building the bandit
def build_lp(lp, label, inv):
    k = lp[0]
    if k == "greedy": return LearningPolicy.EpsilonGreedy(epsilon=lp[1])
    if k == "ucb": return LearningPolicy.UCB1(alpha=lp[1])
    if k == "softmax": return LearningPolicy.Softmax(tau=lp[1])
    if k == "popularity": return LearningPolicy.Popularity()
    if k == "thompson": return LearningPolicy.ThompsonSampling(make_binarizer(lp[1], label, inv))
    if k == "random": return LearningPolicy.Random()
    if k == "lingreedy": return LearningPolicy.LinGreedy(epsilon=lp[1], l2_lambda=lp[2], scale=lp[3])
    if k == "lints": return LearningPolicy.LinTS(alpha=lp[1], l2_lambda=lp[2], scale=lp[3])
    if k == "linucb": return LearningPolicy.LinUCB(alpha=lp[1], l2_lambda=lp[2], scale=lp[3])
    raise ValueError(lp)

def build_np(npol):
    if npol is None or npol[0] == "none":
        return None
    k = npol[0]
    if k == "radius": return NeighborhoodPolicy.Radius(radius=npol[1], metric=npol[2], no_nhood_prob_of_arm=npol[3])
    if k == "knearest": return NeighborhoodPolicy.KNearest(k=npol[1], metric=npol[2])
    if k == "lsh": return NeighborhoodPolicy.LSHNearest(n_dimensions=npol[1], n_tables=npol[2], no_nhood_prob_of_arm=npol[3])
    if k == "clusters": return NeighborhoodPolicy.Clusters(n_clusters=npol[1], is_minibatch=npol[2])
    if k == "tree": return NeighborhoodPolicy.TreeBandit(tree_parameters=dict(npol[1]))
    raise ValueError(npol)

def build_mab(case):
    label = make_label(case.get("label", "int"))
    inv_map = {}
    def inv(l):
        return inv_map[l]
    for k in case["arms"]:
        inv_map[label(k)] = k
    for o in case["ops"]:
        if o[0] == "add":
            inv_map[label(o[1])] = o[1]
    # any label used in decisions is mapped too
    arms = [label(k) for k in case["arms"]]
    mab = MAB(arms, build_lp(case["lp"], label, inv), build_np(case.get("np")), seed=case["seed"],
              n_jobs=case.get("n_jobs", 1), backend=case.get("backend"))
    return mab, label, inv

# ------------------------------------------------------------------ running the implementation
def canon_val(v):
    v = float(v)
    return "nan" if v != v else fbits(v)

def observe(mab, inv, kind):
    """state observables after a call, in the model's vocabulary"""
    imp = mab._imp
    obs = {}
    obs["arms"] = [inv(a) for a in mab.arms]
    obs["cold"] = [inv(a) for a in mab.cold_arms]
    if kind in ("greedy", "ucb", "softmax", "popularity", "thompson", "random") and type(imp).__module__ in (
            "mabwiser.greedy", "mabwiser.ucb", "mabwiser.softmax", "mabwiser.popularity", "mabwiser.thompson", "mabwiser.rand"):
        obs["cfexp"] = [(inv(a), canon_val(v)) for a, v in imp.arm_to_expectation.items()]
        st = {}
        keys = list(imp.arm_to_status.keys())
        obs["status"] = [(inv(a), bool(s["is_trained"]), bool(s["is_warm"]),
                          None if s["warm_started_by"] is None else inv(s["warm_started_by"]))
                         for a, s in imp.arm_to_status.items()]
        stats = {}
        if kind in ("greedy", "popularity", "ucb", "softmax"):
            stats["sum"] = [(inv(a), canon_val(v)) for a, v in imp.arm_to_sum.items()]
            stats["count"] = [(inv(a), int(v)) for a, v in imp.arm_to_count.items()]
        if kind in ("ucb", "softmax"):
            stats["mean"] = [(inv(a), canon_val(v)) for a, v in imp.arm_to_mean.items()]
        if kind == "thompson":
            stats["succ"] = [(inv(a), canon_val(v)) for a, v in imp.arm_to_success_count.items()]
            stats["fail"] = [(inv(a), canon_val(v)) for a, v in imp.arm_to_fail_count.items()]
        obs["stats"] = stats
    elif kind in ("lingreedy", "lints", "linucb") and type(imp).__module__ == "mabwiser.linear":
        obs["status"] = [(inv(a), bool(s["is_trained"]), bool(s["is_warm"]),
                          None if s["warm_started_by"] is None else inv(s["warm_started_by"]))
                         for a, s in imp.arm_to_status.items()]
        obs["beta"] = [(inv(a), None if m.beta is None else [canon_val(v) for v in m.beta]) for a, m in imp.arm_to_model.items()]
    mod = type(imp).__name__
    if mod in ("_Radius", "_KNearest", "_LSHNearest", "_Clusters"):
        obs["nhist"] = [0 if x is None else len(x) for x in (imp.decisions, imp.rewards, imp.contexts)]
    if mod == "_LSHNearest":
        obs["lsh"] = [(k, sorted((int(h), [int(i) for i in l]) for h, l in imp.table_to_hash_to_index[k].items() if len(l)))
                      for k in sorted(imp.table_to_hash_to_index.keys())]
    if mod == "_TreeBandit":
        obs["leaves"] = [(inv(a), sorted((int(lf), [canon_val(v) for v in rs]) for lf, rs in d.items() if len(rs)))
                         for a, d in imp.arm_to_leaf_to_rewards.items()]
    return obs

def to_ctx(cx, container="list"):
    if cx is None:
        return None
    if container == "list":
        return [list(r) for r in cx]
    return np.asarray(cx, dtype=float)

def apply_op(mab, o, label, inv, case):
    """performs one call on the real bandit; returns the canonical output"""
    k = o[0]
    try:
        if k in ("fit", "pfit"):
            ds = [label(d) for d in o[1]]
            rs = list(o[2])
            cx = to_ctx(o[3])
            if case.get("np_inputs", True):
                if case.get("label") == "mixed":
                    # labels of several types: a plain list, or an object array (numpy's default conversion of such a list is the
                    # caller's business: it would hand the library an all-string array)
                    ds = np.asarray(ds, dtype=object) if len(ds) % 2 else ds
                elif case.get("label") == "tenths":
                    # (not with a binarizer: the generated binarizers look the decision up by label, and would be handed numpy.float32 values)
                    binz = (case["lp"][0] == "thompson" and case["lp"][1] is not None) or any(x[0] == "add" and x[2] is not None for x in case.get("ops", []))
                    ds = np.asarray(ds, dtype=np.float32) if (len(ds) + (k == "pfit")) % 2 and not binz else np.asarray(ds)
                else:
                    ds = np.asarray(ds)
                rs = np.asarray(rs, dtype=float)
                cx = None if cx is None else np.asarray(cx, dtype=float)
                # integer-typed training contexts (count features): same values, another dtype of the stored history
                if cx is not None and case.get("int_ctx") and cx.size and np.all(cx == np.round(cx)):
                    cx = cx.astype(np.int64)
                # integer-typed rewards (counts) where all of them are integral
                if case.get("int_rs") and rs.size and np.all(rs == np.round(rs)):
                    rs = rs.astype(np.int64)
            (mab.fit if k == "fit" else mab.partial_fit)(ds, rs, cx)
            return ("done",)
        if k == "add":
            mab.add_arm(label(o[1]), make_binarizer(o[2], label, inv))
            return ("done",)
        if k == "rem":
            mab.remove_arm(label(o[1]))
            return ("done",)
        if k == "warm":
            feats = {label(a): list(f) for a, f in zip(o[1], o[2])}
            mab.warm_start(feats, o[3])
            return ("done",)
        if k in ("fitS", "pfitS"):
            import pandas as pd
            ds = np.asarray([label(d) for d in o[1]]); rs = np.asarray(list(o[2]), dtype=float)
            (mab.fit if k == "fitS" else mab.partial_fit)(ds, rs, pd.Series([float(v) for v in o[3]]))
            return ("done",)
        if k in ("predS", "pexpS"):
            import pandas as pd
            r = (mab.predict if k == "predS" else mab.predict_expectations)(pd.Series([float(v) for v in o[1]]))
            if k == "predS":
                if isinstance(r, list):
                    return ("arms", [inv(a) for a in r])
                return ("arm", inv(r))
            if isinstance(r, list):
                return ("exps", [[(inv(a), canon_val(v)) for a, v in d.items()] for d in r])
            return ("exp", [(inv(a), canon_val(v)) for a, v in r.items()])
        if k in ("pred", "pexp"):
            cx = to_ctx(o[1])
            r = (mab.predict if k == "pred" else mab.predict_expectations)(cx)
            if k == "pred":
                if isinstance(r, list):
                    return ("arms", [inv(a) for a in r])
                return ("arm", inv(r))
            if isinstance(r, list):
                return ("exps", [[(inv(a), canon_val(v)) for a, v in d.items()] for d in r])
            return ("exp", [(inv(a), canon_val(v)) for a, v in r.items()])
        raise ValueError(o)
    except Exception as e:   # noqa
        return ("rejected", type(e).__name__, str(e)[:200])

def warm_raw(o):
    """raw pairwise cosine distances (the oracle input of the model's warm_start)"""
    from scipy.spatial.distance import cdist
    keys, feats = o[1], o[2]
    n = len(keys)
    m = [[0.0] * n for _ in range(n)]
    for i in range(n):
        for j in range(n):
            if i != j:
                try:
                    m[i][j] = float(cdist(np.asarray([feats[i]]), np.asarray([feats[j]]), metric="cosine")[0][0])
                except Exception:
                    m[i][j] = float("nan")
    return m

def tree_fitted(t):
    return hasattr(t, "tree_")

def oracle_before(mab, o, inv, case):
    """answers of the third-party libraries a query will receive (computed without changing the bandit)"""
    orc = {k: list(v) for k, v in EMPTY_ORC.items()}
    imp = mab._imp
    mod = type(imp).__name__
    if o[0] in ("predS", "pexpS") and mab._is_initial_fit:
        # the oracles are computed for the rows the implementation itself makes of the Series
        try:
            import pandas as pd
            conv = mab._MAB__convert_context(pd.Series([float(v) for v in o[1]]))
            o = ("pred" if o[0] == "predS" else "pexp", [list(map(float, r)) for r in np.asarray(conv, dtype=float)])
        except Exception:
            return orc
    if o[0] in ("pred", "pexp") and o[1] is not None and mab._is_initial_fit:
        cx = np.asarray(o[1], dtype=float)
        orc["sizes"] = [len(cx)]
        if case.get("n_jobs", 1) != 1 and hasattr(imp, "_partition_contexts"):
            try:
                orc["sizes"] = list(imp._partition_contexts(len(cx))[1])
            except Exception:
                pass
        try:
            if mod == "_KNearest":
                from scipy.spatial.distance import cdist
                for row in cx:
                    d = cdist(imp.contexts, row[np.newaxis, :], metric=imp.metric).reshape(-1)
                    try:
                        orc["knn"].append([int(i) for i in np.argpartition(d, imp.k - 1)[:imp.k]])
                    except Exception:
                        orc["knn"].append([])
            elif mod == "_Clusters":
                orc["assign"] = [int(c) for c in imp.kmeans.predict(cx)]
            elif mod == "_TreeBandit":
                for a in mab.arms:
                    t = imp.arm_to_tree[a]
                    if tree_fitted(t):
                        for row, lf in zip(cx, t.apply(cx)):
                            orc["leaf"].append((inv(a), [float(v) for v in row], int(lf)))
        except Exception as e:
            orc["error"] = repr(e)
    return orc

def oracle_after(mab, o, inv, case, orc, label):
    imp = mab._imp
    mod = type(imp).__name__
    if o[0] in ("fitS", "pfitS"):
        vals = [float(v) for v in o[3]]
        o = ("fit" if o[0] == "fitS" else "pfit", o[1], o[2], [[v] for v in vals] if len(o[1]) > 1 else [vals])
    if o[0] in ("fit", "pfit") and o[3] is not None:
        try:
            if mod == "_Clusters" and hasattr(imp.kmeans, "labels_"):
                orc["labels"] = [int(c) for c in imp.kmeans.labels_]
            elif mod == "_TreeBandit":
                cx = np.asarray(o[3], dtype=float)
                for a in mab.arms:
                    t = imp.arm_to_tree[a]
                    if tree_fitted(t):
                        rows = [r for d, r in zip(o[1], cx) if d == inv(a)]
                        if rows:
                            for row, lf in zip(rows, t.apply(np.asarray(rows))):
                                orc["leaf"].append((inv(a), [float(v) for v in row], int(lf)))
        except Exception as e:
            orc["error"] = repr(e)
    return orc

def run_impl(case):
    with recording() as tape:
        mab, label, inv = build_mab(case)
        trace, orcs = [], []
        for o in case["ops"]:
            orc = oracle_before(mab, o, inv, case)
            out = apply_op(mab, o, label, inv, case)
            orc = oracle_after(mab, o, inv, case, orc, label)
            try:
                obs = observe(mab, inv, case["lp"][0])
            except Exception as e:
                obs = {"observe_error": repr(e)}
            trace.append((out, obs))
            orcs.append(orc)
    case["_orcs"] = orcs
    return trace, tape, mab

# ------------------------------------------------------------------ case files for the driver
def ctx_tokens(cx):
    if cx is None:
        return ["noctx"]
    rows = len(cx); cols = len(cx[0]) if rows else 0
    t = ["ctx", str(rows), str(cols)]
    for r in cx:
        t += [str(fbits(v)) for v in r]
    return t

def lp_tokens(lp):
    k = lp[0]
    if k in ("greedy", "ucb", "softmax"):
        return [k, str(fbits(lp[1]))]
    if k in ("popularity", "random"):
        return [k]
    if k == "thompson":
        return [k] + binz_tokens(lp[1])
    if k in ("lingreedy", "lints", "linucb"):
        return [k, str(fbits(lp[1])), str(fbits(lp[2])), "1" if lp[3] else "0", "1" if lp[4] else "0"]
    raise ValueError(lp)

def optlist_tokens(p):
    if p is None:
        return ["nop"]
    return ["p", str(len(p))] + [str(fbits(v)) for v in p]

def np_tokens(npol):
    if npol is None or npol[0] == "none":
        return ["none"]
    k = npol[0]
    if k == "radius":
        return ["radius", str(fbits(npol[1])), npol[2]] + optlist_tokens(npol[3]) + ["0"]
    if k == "knearest":
        return ["knearest", str(npol[1]), npol[2]]
    if k == "lsh":
        return ["lsh", str(npol[1]), str(npol[2])] + optlist_tokens(npol[3]) + ["0"]
    if k == "clusters":
        return ["clusters", str(npol[1])]
    if k == "tree":
        kf = npol[2] if len(npol) > 2 else (True, True)
        return ["tree", "1" if kf[0] else "0", "1" if kf[1] else "0"]
    raise ValueError(npol)

EMPTY_ORC = {"knn": [], "labels": [], "assign": [], "leaf": [], "sizes": []}

def orc_tokens(orc):
    orc = orc or EMPTY_ORC
    t = ["ORC", str(len(orc["knn"]))]
    for l in orc["knn"]:
        t += [str(len(l))] + [str(int(i)) for i in l]
    t += [str(len(orc["labels"]))] + [str(int(i)) for i in orc["labels"]]
    t += [str(len(orc["assign"]))] + [str(int(i)) for i in orc["assign"]]
    t.append(str(len(orc["leaf"])))
    for a, row, lf in orc["leaf"]:
        t += [str(a), str(len(row))] + [str(fbits(v)) for v in row] + [str(int(lf))]
    t += [str(len(orc["sizes"]))] + [str(int(i)) for i in orc["sizes"]]
    return t

def op_tokens(o, orc=None):
    k = o[0]
    if k in ("fit", "pfit"):
        return [k, str(len(o[1]))] + [str(d) for d in o[1]] + [str(len(o[2]))] + [str(fbits(r)) for r in o[2]] + ctx_tokens(o[3]) + orc_tokens(orc)
    if k == "add":
        return ["add", str(o[1])] + binz_tokens(o[2])
    if k == "rem":
        return ["rem", str(o[1])]
    if k == "warm":
        raw = o[4] if len(o) > 4 else warm_raw(o)
        t = ["warm", str(len(o[1]))] + [str(a) for a in o[1]]
        for row in raw:
            t += [str(fbits(v)) for v in row]
        t.append(str(fbits(o[3])))
        return t
    if k in ("pred", "pexp"):
        return [k] + ctx_tokens(o[1]) + orc_tokens(orc)
    if k in ("fitS", "pfitS"):
        return ["fits" if k == "fitS" else "pfits", str(len(o[1]))] + [str(d) for d in o[1]] + [str(len(o[2]))] + [str(fbits(r)) for r in o[2]] + \
               [str(len(o[3]))] + [str(fbits(v)) for v in o[3]] + orc_tokens(orc)
    if k in ("predS", "pexpS"):
        return ["preds" if k == "predS" else "pexps", str(len(o[1]))] + [str(fbits(v)) for v in o[1]] + orc_tokens(orc)
    raise ValueError(o)

def case_text(cid, case, tape, orcs=None):
    lines = ["CASE %s %s" % (cid, case.get("mode", "exact"))]
    lines.append("ARMS %d %s" % (len(case["arms"]), " ".join(str(a) for a in case["arms"])))
    lines.append("SEED %d" % case["seed"])
    lines.append("LP " + " ".join(lp_tokens(case["lp"])))
    lines.append("NP " + " ".join(np_tokens(case.get("np"))))
    lines.append("OPS %d" % len(case["ops"]))
    for j, o in enumerate(case["ops"]):
        lines.append(" ".join(op_tokens(o, None if orcs is None else orcs[j])))
    flat = [(key, e) for key, lst in tape.entries.items() for e in lst]
    lines.append("TAPE %d" % len(flat))
    for key, (params, kind, answers) in flat:
        if kind == "r":
            a = " ".join(str(fbits(v)) for v in answers)
        else:
            a = " ".join(str(int(v)) for v in answers)
        lines.append("%s %d %s %s %d %s" % (key, len(params), " ".join(str(fbits(p)) for p in params), kind, len(answers), a))
    lines.append("END")
    return "\n".join(lines) + "\n"

def run_model(texts, workdir, shard=200, jobs=8):
    """texts: list of (cid, text).  Returns cid -> {'R': {i: tokens}, 'S': {i: {name: tokens}}, 'E': msg}"""
    os.makedirs(workdir, exist_ok=True)
    files = []
    for s in range(0, len(texts), shard):
        fn = os.path.join(workdir, "cases_%d.txt" % (s // shard))
        with open(fn, "w") as f:
            for _, t in texts[s:s + shard]:
                f.write(t)
        files.append(fn)
    procs = []
    outs = []
    for fn in files:
        while len(procs) >= jobs:
            p, f2 = procs.pop(0)
            outs.append((f2, p.communicate()[0], p.returncode))
        env = dict(os.environ); env["OCAMLRUNPARAM"] = "l=1000M"
        procs.append((subprocess.Popen(["bash", "-c", "ulimit -s unlimited 2>/dev/null; exec %s %s" % (DRIVER, fn)],
                                       stdout=subprocess.PIPE, stderr=subprocess.STDOUT, text=True, env=env), fn))
    for p, f2 in procs:
        outs.append((f2, p.communicate()[0], p.returncode))
    res = {}
    for fn, out, rc in outs:
        for line in out.splitlines():
            t = line.split()
            if not t:
                continue
            if t[0] in ("R", "S", "E", "X") and len(t) >= 2:
                d = res.setdefault(t[1], {"R": {}, "S": {}, "E": None, "done": False})
                if t[0] == "R":
                    d["R"][int(t[2])] = t[3:]
                elif t[0] == "S":
                    d["S"].setdefault(int(t[2]), {})[t[3]] = t[4:]
                elif t[0] == "E":
                    d["E"] = " ".join(t[2:])
                elif t[0] == "X":
                    d["done"] = True
            else:
                res.setdefault("__driver__", {"R": {}, "S": {}, "E": None, "done": False})["E"] = (
                    "driver output: " + line[:300])
        if rc != 0:
            res.setdefault("__driver__", {"R": {}, "S": {}, "E": None, "done": False})["E"] = "driver exit %s on %s: %s" % (rc, fn, out[-300:])
    return res

# ------------------------------------------------------------------ comparison
def close_bits(a, b, mode, rtol=1e-7, atol=1e-9):
    """a: impl canonical value ('nan' or bits int), b: model token"""
    if a == "nan" or b == "nan":
        return str(a) == str(b)
    if mode == "exact":
        if int(a) == int(b):
            return True
        x, y = bits_f(a), bits_f(b)
        return x == y   # +0.0 / -0.0
    x, y = bits_f(a), bits_f(b)
    return x == y or abs(x - y) <= atol + rtol * max(abs(x), abs(y))

def parse_kv(tokens):
    out = []
    for t in tokens:
        p = t.split(":")
        out.append(p)
    return out

def cmp_exp(impl_d, tokens, mode):
    kv = parse_kv(tokens)
    if len(kv) != len(impl_d):
        return False
    for (a, v), p in zip(impl_d, kv):
        if int(p[0]) != a or not close_bits(v, p[1], mode):
            return False
    return True

ALL_FIELDS = ("out", "arms", "cold", "cfexp", "stats", "status", "beta", "nhist", "lsh", "leaves")

def compare_case(case, trace, mres, fields=ALL_FIELDS):
    """returns list of disagreement descriptions (empty = agree)"""
    dis = []
    mode = case.get("mode", "exact")
    if mres is None:
        return ["model produced no output for the case"]
    if mres["E"]:
        dis.append("model error: " + mres["E"])
    kind = case["lp"][0]
    for i, (out, obs) in enumerate(trace):
        r = mres["R"].get(i)
        if r is None:
            if not mres["E"]:
                dis.append("op %d: no model output" % i)
            break
        if "out" in fields:
            ok = True
            if out[0] == "done":
                ok = r == ["done"]
            elif out[0] == "rejected":
                ok = r == ["rejected"]
            elif out[0] == "arm":
                ok = r[0] == "arm" and r[1] == str(out[1])
                if not ok and mode == "tol" and r[0] == "arm":
                    mg = mres["S"].get(i, {}).get("margins", [])
                    ok = len(mg) == 1 and float(mg[0]) < 1e-6      # the two best expectations agree up to rounding
            elif out[0] == "arms":
                ok = r[0] == "arms" and r[1:] == [str(a) for a in out[1]]
                if not ok and mode == "tol" and r[0] == "arms" and len(r[1:]) == len(out[1]):
                    mg = mres["S"].get(i, {}).get("margins", [])
                    ok = len(mg) == len(out[1]) and all(str(a) == b or float(g) < 1e-6 for a, b, g in zip(out[1], r[1:], mg))
            elif out[0] == "exp":
                ok = r[0] == "exp" and cmp_exp(out[1], r[1:], mode)
            elif out[0] == "exps":
                rows = " ".join(r[1:]).split("|")
                ok = r[0] == "exps" and len(rows) == len(out[1]) and all(
                    cmp_exp(d, row.split(), mode) for d, row in zip(out[1], rows))
            if not ok:
                dis.append("op %d (%s): output differs: impl=%s model=%s" % (i, case["ops"][i][0], str(out)[:300], " ".join(r)[:300]))
        s = mres["S"].get(i, {})
        if "observe_error" in obs:
            dis.append("op %d: cannot observe implementation state: %s" % (i, obs["observe_error"]))
            continue
        if "arms" in fields and [str(a) for a in obs["arms"]] != [x for x in ",".join(s.get("arms", [])).split(",") if x]:
            dis.append("op %d: arms differ: impl=%s model=%s" % (i, obs["arms"], s.get("arms")))
        if "cold" in fields and [str(a) for a in obs["cold"]] != [x for x in ",".join(s.get("cold", [])).split(",") if x]:
            dis.append("op %d: cold_arms differ: impl=%s model=%s" % (i, obs["cold"], s.get("cold")))
        if "cfexp" in fields and "cfexp" in obs and kind != "random":
            if not cmp_exp(obs["cfexp"], s.get("cfexp", []), mode):
                dis.append("op %d: arm_to_expectation differs: impl=%s model=%s" % (i, obs["cfexp"], s.get("cfexp")))
        if "status" in fields and "status" in obs:
            ms = parse_kv(s.get("status", []))
            il = [[str(a), str(t).lower(), str(w).lower(), "none" if b is None else str(b)] for a, t, w, b in obs["status"]]
            if ms != il:
                dis.append("op %d: arm_to_status differs: impl=%s model=%s" % (i, il, ms))
        if "stats" in fields and "stats" in obs:
            ms = parse_kv(s.get("cfstats", []))
            md = {int(p[0]): p for p in ms}
            col = {"sum": 1, "count": 2, "mean": 3, "succ": 4, "fail": 5}
            for name, lst in obs["stats"].items():
                if [a for a, _ in lst] != [int(p[0]) for p in ms]:
                    dis.append("op %d: keys of arm_to_%s differ: impl=%s model=%s" % (i, name, [a for a, _ in lst], [p[0] for p in ms]))
                    continue
                for a, v in lst:
                    mv = md[a][col[name]]
                    if name == "count":
                        if int(mv) != v:
                            dis.append("op %d: count[%d] impl=%s model=%s" % (i, a, v, mv))
                    elif not close_bits(v, mv, mode):
                        dis.append("op %d: %s[%d] impl=%s model=%s" % (i, name, a, v if v == "nan" else bits_f(v), mv if mv == "nan" else bits_f(mv)))
        if "nhist" in obs and "nhist" in fields:
            if [str(x) for x in obs["nhist"]] != s.get("nhist", []):
                dis.append("op %d: stored history lengths differ: impl=%s model=%s" % (i, obs["nhist"], s.get("nhist")))
        if "lsh" in obs and "lsh" in fields:
            il = ["%d:%s" % (k, ";".join("%d=%s" % (h, ",".join(str(x) for x in l)) for h, l in tb)) for k, tb in obs["lsh"]]
            if il != s.get("lsh", []):
                dis.append("op %d: LSH tables differ: impl=%s model=%s" % (i, il[:3], s.get("lsh", [])[:3]))
        if "leaves" in obs and "leaves" in fields:
            ms = {}
            for t in s.get("leaves", []):
                a, _, rest = t.partition(":")
                ms[int(a)] = rest
            for a, tb in obs["leaves"]:
                il = ";".join("%d=%s" % (lf, ",".join(str(x) for x in rs)) for lf, rs in tb)
                if mode == "exact":
                    if il != ms.get(a, ""):
                        dis.append("op %d: leaf rewards of arm %d differ: impl=%s model=%s" % (i, a, il[:200], ms.get(a, "")[:200]))
        if "beta" in fields and "beta" in obs:
            ms = {int(p[0]): p[1] for p in parse_kv(s.get("beta", []))}
            for a, b in obs["beta"]:
                mb = [x for x in ms.get(a, "").split(",") if x]
                if b is None:
                    if mb:
                        dis.append("op %d: beta[%d] impl=None model=%s" % (i, a, mb))
                elif len(mb) != len(b) or not all(close_bits(x, y, mode) for x, y in zip(b, mb)):
                    dis.append("op %d: beta[%d] impl=%s model=%s" % (i, a, [bits_f(x) for x in b], [bits_f(y) for y in mb if y != "nan"]))
    return dis
