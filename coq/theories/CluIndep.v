(* CluIndep.v — C05 for Clusters: the per-cluster learning policies are only QUERIED at prediction time, and a query
   leaves nothing behind that a later query reads (Thompson's stored sample aside, which nothing reads; LinTS is
   excluded: finding D8).  Hence the answer for a row does not depend on the rows its worker processed before, and
   the answers do not depend on how the rows are partitioned among workers. *)
From Coq Require Import ZArith List Bool Arith Lia.
From MW Require Import Num Assoc AssocFacts Rng Par CF CFInv Matrix Lin LinInv Nbr Clu LpInv C10All ExpIrrel CluTreeInv.
Import ListNotations.

Section CluIndep.
Context {R A G : Type} (N : Num R) (aeqb : A -> A -> bool) (RG : RngOps R G).
Hypothesis aeqb_spec : forall x y, aeqb x y = true <-> x = y.
Hypothesis Hrng : rng_lengths_ok RG.
Notation cf := (@cf R A).
Notation lp := (@lp R A G).
Notation res := (option A + list (A * option R))%type.

(* forget Thompson's stored sample *)
Definition cnorm (c : cf) : cf :=
  match c_kind c with KThompson => set_exp c (areset (c_exp c) (zero N)) | _ => c end.
Definition lp_norm (l : lp) : lp := match l with LCf c => LCf (cnorm c) | LLin s => LLin s end.
Definition no_lints (l : lp) : Prop := match l with LLin s => l_kind s <> RTs | _ => True end.

Lemma cf_query_norm (c : cf) g m :
  keys_ok c ->
  cnorm (snd (fst (cf_predict_exp N aeqb RG c g m))) = cnorm c /\
  fst (fst (cf_predict_exp N aeqb RG (cnorm c) g m)) = fst (fst (cf_predict_exp N aeqb RG c g m)) /\
  snd (cf_predict_exp N aeqb RG (cnorm c) g m) = snd (cf_predict_exp N aeqb RG c g m).
Proof.
  intros Hk. unfold cnorm. destruct (c_kind c) eqn:Ek.
  1-4,6: (split; [|split; reflexivity]); unfold cf_predict_exp; rewrite Ek;
      repeat match goal with
             | |- context [draw_r RG ?g ?r] => destruct (draw_r RG g r)
             | |- context [draw_scalars N RG ?g ?n] => destruct (draw_scalars N RG g n)
             | |- context [if ?b then _ else _] => destruct b
             end; simpl; rewrite ?Ek; reflexivity.
  (* Thompson *)
  assert (Hs : exp_sim c (set_exp c (areset (c_exp c) (zero N)))).
  { unfold exp_sim. split; [exact Ek|]. split; [reflexivity|]. simpl. apply akeys_areset. }
  pose proof (exp_sim_predict N aeqb RG c _ g m Hs) as H.
  pose proof (cf_predict_exp_ok N aeqb RG c g m Hrng Hk) as Hok.
  destruct (cf_predict_exp N aeqb RG c g m) as [[e1 t1] g1] eqn:E1.
  destruct (cf_predict_exp N aeqb RG (set_exp c (areset (c_exp c) (zero N))) g m) as [[e2 t2] g2]. simpl.
  destruct H as (He & Hg & _). destruct Hok as (_ & _ & Hk1 & Ha1).
  split; [|split; congruence].
  assert (Ht1 : t1 = set_exp c (c_exp t1)).
  { unfold cf_predict_exp in E1. rewrite Ek in E1. destruct (draw_betas N aeqb RG g (c_stats c) (akeys (c_exp c)) (msize m)) as [b gg].
    injection E1 as _ <- _. reflexivity. }
  assert (Ek1 : c_kind t1 = KThompson) by (rewrite Ht1; exact Ek). rewrite Ek1.
  destruct Hk as (_ & Hke & _). destruct Hk1 as (_ & Hke1 & _).
  assert (Hkeys : akeys (c_exp t1) = akeys (c_exp c)) by congruence.
  assert (Ereset : areset (c_exp t1) (zero N) = areset (c_exp c) (zero N)).
  { clear -Hkeys. revert Hkeys. generalize (c_exp t1) (c_exp c). induction l as [|[k v] t IH]; intros [|[k' v'] t'] H; simpl in *; try discriminate; [reflexivity|].
    injection H as -> H. f_equal. apply IH. exact H. }
  rewrite Ereset. rewrite Ht1. reflexivity.
Qed.

Lemma lin_expectations_state (s : @lin R A G) g cx :
  l_kind s <> RTs -> lin_keys_ok s -> snd (fst (lin_expectations N aeqb RG s g cx)) = s.
Proof.
  intros Hk (Hn & _ & _ & Hm). unfold lin_expectations.
  destruct (draw_r RG g _) as [rv g1]. destruct (draw_r RG g1 _) as [rnd g2].
  match goal with |- context [predict_arms N aeqb RG s (l_models s) (l_arms s) g2 ?X] =>
    pose proof (predict_arms_eq N aeqb RG aeqb_spec s (l_arms s) (l_models s) g2 X) as Hp;
    destruct (predict_arms N aeqb RG s (l_models s) (l_arms s) g2 X) as [[pc ms'] g3] end.
  destruct Hp as [_ P2]; [intros a Ha; rewrite Hm; exact Ha|]. simpl.
  rewrite (P2 Hk) by (rewrite Hm; exact Hn). destruct s; reflexivity.
Qed.

(* one query of a per-cluster policy: the answer and the generator depend on the policy only up to lp_norm,
   and the policy is left lp_norm-equal *)
Lemma lp_query_norm (l l2 : lp) g row :
  lp_ok l -> lp_ok l2 -> no_lints l -> lp_norm l2 = lp_norm l ->
  let '(e, l', g') := lp_expectations1 N aeqb RG l g row in
  let '(e2, l2', g2') := lp_expectations1 N aeqb RG l2 g row in
  e2 = e /\ g2' = g' /\ lp_norm l' = lp_norm l /\ lp_norm l2' = lp_norm l /\ lp_ok l' /\ lp_ok l2' /\ no_lints l'.
Proof.
  intros Ho Ho2 Hnl En.
  pose proof (lp_expectations1_ok N aeqb RG aeqb_spec l g row Hrng Ho) as Q1.
  pose proof (lp_expectations1_ok N aeqb RG aeqb_spec l2 g row Hrng Ho2) as Q2.
  destruct l as [c|s]; destruct l2 as [c2|s2]; simpl in En; try discriminate.
  - injection En as En. simpl in *.
    destruct (cf_query_norm c g (Some 1%nat) Ho) as (A1 & B1 & C1).
    destruct (cf_query_norm c2 g (Some 1%nat) Ho2) as (A2 & B2 & C2).
    rewrite En in B2, C2.
    destruct (cf_predict_exp N aeqb RG c g (Some 1%nat)) as [[e t] g'].
    destruct (cf_predict_exp N aeqb RG c2 g (Some 1%nat)) as [[e2 t2] g2'].
    destruct (cf_predict_exp N aeqb RG (cnorm c) g (Some 1%nat)) as [[e0 t0] g0]. simpl in *.
    destruct Q1 as (_ & Q1 & _). destruct Q2 as (_ & Q2 & _).
    split; [congruence|]. split; [congruence|]. split; [congruence|]. split; [congruence|]. split; [exact Q1|]. split; [exact Q2 | exact I].
  - injection En as ->. simpl in *.
    pose proof (lin_expectations_state s g [row] Hnl Ho) as St.
    destruct (lin_expectations N aeqb RG s g [row]) as [[e t] g']. simpl in *. subst t.
    destruct Q1 as (_ & Q1 & _). split; [reflexivity|]. split; [reflexivity|]. split; [reflexivity|]. split; [reflexivity|].
    split; [exact Q1|]. split; [exact Q1 | exact Hnl].
Qed.

Definition lps_norm_eq (a b : list lp) : Prop := map lp_norm a = map lp_norm b.

Lemma nth_error_norm (a b : list lp) c l : lps_norm_eq a b -> nth_error a c = Some l ->
  exists l2, nth_error b c = Some l2 /\ lp_norm l2 = lp_norm l.
Proof.
  unfold lps_norm_eq. intros E H. assert (H' : nth_error (map lp_norm a) c = Some (lp_norm l)) by (rewrite nth_error_map, H; reflexivity).
  rewrite E in H'. rewrite nth_error_map in H'. destruct (nth_error b c) as [l2|]; simpl in H'; [|discriminate].
  exists l2. split; [reflexivity | congruence].
Qed.

Lemma set_nth_map {X Y} (f : X -> Y) (l : list X) i x : map f (set_nth l i x) = set_nth (map f l) i (f x).
Proof. revert i. induction l as [|h t IH]; intros [|i]; simpl; try reflexivity. rewrite IH. reflexivity. Qed.

Lemma set_nth_same {X} (l : list X) i x : nth_error l i = Some x -> set_nth l i x = l.
Proof. revert i. induction l as [|h t IH]; intros [|i] H; simpl in *; try discriminate; [congruence | rewrite IH; auto]. Qed.

(* the rows of a chunk: the answers depend on the starting copies only up to lp_norm, and lp_norm is not changed *)
Lemma clu_rows_norm (arms : list A) p : forall seeds rows assign (a b : list lp),
  lps_ok arms a -> lps_ok arms b -> Forall no_lints a -> lps_norm_eq a b ->
  clu_rows N aeqb RG a seeds rows assign p = clu_rows N aeqb RG b seeds rows assign p.
Proof.
  induction seeds as [|sd seeds IH]; intros rows assign a b Ha Hb Hnl E; simpl; [reflexivity|].
  destruct rows as [|row rows]; [reflexivity|]. destruct assign as [|c assign]; [reflexivity|].
  destruct (nth_error a c) as [l|] eqn:Ea.
  - destruct (nth_error_norm a b c l E Ea) as (l2 & Eb & En). rewrite Eb.
    assert (Hl : lp_ok l /\ lp_arms l = arms) by (unfold lps_ok in Ha; rewrite Forall_forall in Ha; apply Ha; eapply nth_error_In; eauto).
    assert (Hl2 : lp_ok l2 /\ lp_arms l2 = arms) by (unfold lps_ok in Hb; rewrite Forall_forall in Hb; apply Hb; eapply nth_error_In; eauto).
    assert (Hn : no_lints l) by (rewrite Forall_forall in Hnl; apply Hnl; eapply nth_error_In; eauto).
    pose proof (lp_query_norm l l2 (create RG sd) row (proj1 Hl) (proj1 Hl2) Hn En) as H.
    pose proof (lp_expectations1_ok N aeqb RG aeqb_spec l (create RG sd) row Hrng (proj1 Hl)) as Q1.
    pose proof (lp_expectations1_ok N aeqb RG aeqb_spec l2 (create RG sd) row Hrng (proj1 Hl2)) as Q2.
    destruct (lp_expectations1 N aeqb RG l (create RG sd) row) as [[e l'] g'].
    destruct (lp_expectations1 N aeqb RG l2 (create RG sd) row) as [[e2 l2'] g2'].
    destruct H as (-> & _ & N1 & N2 & O1 & O2 & NL). f_equal.
    apply IH.
    + apply set_nth_forall; [exact Ha | split; [exact O1 | destruct Q1 as (_ & _ & Q1); rewrite Q1; exact (proj2 Hl)]].
    + apply set_nth_forall; [exact Hb | split; [exact O2 | destruct Q2 as (_ & _ & Q2); rewrite Q2; exact (proj2 Hl2)]].
    + apply set_nth_forall; assumption.
    + unfold lps_norm_eq in *. rewrite !set_nth_map. rewrite N1, N2, <- En. rewrite <- E.
      assert (H1 : nth_error (map lp_norm a) c = Some (lp_norm l)) by (rewrite nth_error_map, Ea; reflexivity).
      rewrite En. rewrite !(set_nth_same _ _ _ H1). reflexivity.
  - assert (Eb : nth_error b c = None).
    { apply nth_error_None. apply nth_error_None in Ea. unfold lps_norm_eq in E. apply (f_equal (@length _)) in E. rewrite !map_length in E. lia. }
    rewrite Eb. reflexivity.
Qed.

(* the copies a chunk ends with are lp_norm-equal to those it started with *)
Lemma clu_rows_app (arms : list A) p : forall r1 sd1 as1 r2 sd2 as2 (a : list lp),
  lps_ok arms a -> Forall no_lints a -> length sd1 = length r1 -> length as1 = length r1 ->
  Forall (fun c => c < length a) as1 ->
  clu_rows N aeqb RG a (sd1 ++ sd2) (r1 ++ r2) (as1 ++ as2) p =
  clu_rows N aeqb RG a sd1 r1 as1 p ++ clu_rows N aeqb RG a sd2 r2 as2 p.
Proof.
  induction r1 as [|row r1 IH]; intros sd1 as1 r2 sd2 as2 a Ha Hnl H1 H2 Hlt.
  - destruct sd1; [|discriminate]. destruct as1; [|discriminate]. reflexivity.
  - destruct sd1 as [|sd sd1]; [discriminate|]. destruct as1 as [|c as1]; [discriminate|]. simpl in H1, H2. injection H1 as H1. injection H2 as H2.
    inversion Hlt as [|? ? Hc Hlt']; subst.
    cbn [app clu_rows]. destruct (nth_error a c) as [l|] eqn:Ea; [|apply nth_error_None in Ea; lia].
    assert (Hl : lp_ok l /\ lp_arms l = arms) by (unfold lps_ok in Ha; rewrite Forall_forall in Ha; apply Ha; eapply nth_error_In; eauto).
    assert (Hn : no_lints l) by (rewrite Forall_forall in Hnl; apply Hnl; eapply nth_error_In; eauto).
    pose proof (lp_query_norm l l (create RG sd) row (proj1 Hl) (proj1 Hl) Hn eq_refl) as H.
    pose proof (lp_expectations1_ok N aeqb RG aeqb_spec l (create RG sd) row Hrng (proj1 Hl)) as Q1.
    destruct (lp_expectations1 N aeqb RG l (create RG sd) row) as [[e l'] g'].
    destruct H as (_ & _ & N1 & _ & O1 & _ & NL). destruct Q1 as (_ & _ & Q1).
    assert (Ha' : lps_ok arms (set_nth a c l')) by (apply set_nth_forall; [exact Ha | split; [exact O1 | rewrite Q1; exact (proj2 Hl)]]).
    assert (Hnl' : Forall no_lints (set_nth a c l')) by (apply set_nth_forall; assumption).
    rewrite <- app_comm_cons. f_equal.
    rewrite (IH sd1 as1 r2 sd2 as2 (set_nth a c l') Ha' Hnl' H1 H2) by (rewrite set_nth_length; exact Hlt').
    f_equal. apply clu_rows_norm with (arms := arms); auto.
    unfold lps_norm_eq. rewrite set_nth_map, N1. apply set_nth_same. rewrite nth_error_map, Ea. reflexivity.
Qed.

Theorem clu_predict_partition_independent (s : @clu R A G) g cx assign sizes p :
  clu_inv s -> Forall no_lints (k_lps s) ->
  (forall g high size, length (fst (draw_z RG g (RqRandint high size))) = size) ->
  length assign = length cx -> Forall (fun c => c < length (k_lps s)) assign ->
  sum_list sizes = length cx ->
  clu_predict N aeqb RG s g cx assign sizes p = clu_predict N aeqb RG s g cx assign [length cx] p.
Proof.
  intros (_ & _ & Hl) Hnl Hz Hla Hlt Hs. unfold clu_predict.
  pose proof (Hz g 2147483647%Z (length cx)) as Hlen.
  destruct (draw_z RG g (RqRandint 2147483647 (length cx))) as [seeds g1]. simpl in Hlen. f_equal.
  assert (Gen : forall sizes seeds (cx : mat (R:=R)) assign, length seeds = length cx -> length assign = length cx ->
            Forall (fun c => c < length (k_lps s)) assign -> sum_list sizes = length cx ->
            flat_map (fun q => let '(sd, rows, asg) := (q : list Z * mat (R:=R) * list nat) in clu_rows N aeqb RG (k_lps s) sd rows asg p)
              (combine (combine (chunks sizes seeds) (chunks sizes cx)) (chunks sizes assign))
            = clu_rows N aeqb RG (k_lps s) seeds cx assign p).
  { clear -Hl Hnl aeqb_spec Hrng. induction sizes as [|n sizes IH]; intros seeds cx assign H1 H2 Hlt Hs; simpl in *.
    - destruct cx; [|discriminate]. destruct seeds; [|discriminate]. reflexivity.
    - rewrite IH; rewrite ?skipn_length; try lia; [| rewrite Forall_forall in *; intros c Hc; apply Hlt; eapply in_skipn; eauto].
      rewrite <- (firstn_skipn n seeds) at 3. rewrite <- (firstn_skipn n cx) at 3. rewrite <- (firstn_skipn n assign) at 3.
      symmetry. apply clu_rows_app with (arms := k_arms s); auto; rewrite ?firstn_length; try lia.
      rewrite Forall_forall in *. intros c Hc. apply Hlt. eapply in_firstn; eauto. }
  rewrite (Gen sizes seeds cx assign Hlen Hla Hlt Hs).
  rewrite (Gen [length cx] seeds cx assign Hlen Hla Hlt); [reflexivity | simpl; lia].
Qed.

End CluIndep.
