(*  C06 — Incremental training equals batch training.
   
    PROVED under exact arithmetic (NumLaws; QcLaws shows the laws are satisfiable) for count/sum based policies:
     * the running sum, count and mean that C01 shows the policies hold depend only on the concatenation of
       the reward batches observed for the arm since the last fit - NOT on how that history was cut into
       fit / partial_fit batches (any chunking, chunks in which the arm does not occur, one-row chunks);
     * in particular fit(c1 ++ c2) and fit(c1); partial_fit(c2) give the same sum, count and mean for every arm.
    PROVED structurally (any number structure, so also bit-for-bit in binary64) for neighbourhood policies:
     * Radius / KNearest / LSHNearest: fit(c1 ++ c2) and fit(c1); partial_fit(c2) leave the SAME object - stored decisions,
       (binarized) rewards, contexts, the learning policy with its flags, the LSH planes, the LSH hash tables bucket for bucket
       and position for position, and the generator - at the policy (NbrBatch.v) and at the public facade (NbrBatchFacade.v);
       the hash tables of rows c1 ++ c2 are those of c1 with c2 inserted at positions start + |c1| + i (insert_rows_app).
    PROVED for TreeBandit (TreeWhole.v; one leaf function, i.e. the trees fitted at fit): any two ways of cutting the same history into fit +
    partial_fit calls file the same rewards, in the same order, in every (arm, leaf) cell - all that prediction reads.
    PROVED for the linear policies (scale=False, exact arithmetic): any two ways of cutting the same per-arm rows into
    fit + partial_fit calls give the same A, X'y, A_inv and beta for every arm (X'X and X'y are additive over row blocks).
    PROVED for Clusters over context-free policies other than Thompson Sampling: one fit on the accumulated history, or fit +
    partial_fit, leave the same state whenever k-means labels the accumulated history alike (the per-cluster policies are
    re-fitted on their rows of the whole history, and fit forgets).
    ..._partial: that KMeans does label alike (it is re-run on the whole history with the same seed) and MiniBatchKMeans are
    covered by the batch-versus-chunked relation only. *)
From Coq Require Import List ZArith Bool Arith QArith Qcanon Permutation.
From MW Require Import Num Assoc AssocFacts Rng Par CF CFInv CFClean CFForget CFSpec Matrix Lin Warm WarmInv Nbr NbrFacts NbrIndep LshFacts Clu Tree CellFacts Mab FacadeCF FacadeArms MoreFacts NumLaws CFAlg Sim Extra QcInst OrderFacts ExpIrrel LinInv FacadeLin LpInv NbrInv CluTreeInv FacadeAll ToyFacts C09All C10All LinForget LinSim MatrixFacts GaussJordan LinSpec NbrIndepGen CluIndep C17Lin WarmIdem C14More LshScale TreeLeaf Rename PopSpec CopyFacts StatFacts CluBatch LinWarm NbrBatch NbrBatchFacade TreeWhole RowOrder.
Import ListNotations.

Theorem C06_statistics_depend_only_on_concatenated_history :
  forall (R : Type) (N : Num R),
  NumLaws N ->
  forall bs bs' : list (list R),
  concat (rev bs) = concat (rev bs') ->
  spec_sum N bs = spec_sum N bs' /\ spec_count bs = spec_count bs' /\ spec_mean N bs = spec_mean N bs'.
Proof. exact @chunking_irrelevant. Qed.
Print Assumptions C06_statistics_depend_only_on_concatenated_history.

Theorem C06_fit_whole_equals_fit_prefix_plus_partial_fit_partial :
  forall (R A : Type) (N : Num R),
  NumLaws N ->
  forall (aeqb : A -> A -> bool) (a : A) (d1 d2 : list A) (r1 r2 : list R) (t : list (@cfop R A)),
  length d1 = length r1 ->
  let whole := batches_rev aeqb (OFit (d1 ++ d2) (r1 ++ r2) :: t) a in
  let split := batches_rev aeqb (OPartial d2 r2 :: OFit d1 r1 :: t) a in
  spec_sum N whole = spec_sum N split /\
  spec_count whole = spec_count split /\ spec_mean N whole = spec_mean N split.
Proof. exact @batch_equals_incremental_spec. Qed.
Print Assumptions C06_fit_whole_equals_fit_prefix_plus_partial_fit_partial.

Theorem C06_sum_closed_form :
  forall (R : Type) (N : Num R),
  NumLaws N -> forall bs : list (list R), spec_sum N bs = nsum N (concat (rev bs)).
Proof. exact @spec_sum_concat. Qed.
Print Assumptions C06_sum_closed_form.

Theorem C06_count_closed_form :
  forall (R : Type) (bs : list (list R)), spec_count bs = Z.of_nat (length (concat (rev bs))).
Proof. exact @spec_count_concat. Qed.
Print Assumptions C06_count_closed_form.

Theorem C06_laws_are_satisfiable :
  NumLaws QcNum.
Proof. exact @QcLaws. Qed.
Print Assumptions C06_laws_are_satisfiable.

Theorem C06_linear_split_into_fit_and_partial_fit_is_irrelevant :
  forall (R A G : Type) (N : Num R),
  NumLaws N ->
  forall aeqb : A -> A -> bool,
  (forall x y : A, aeqb x y = true <-> x = y) ->
  forall (s0 : (@lin R A G)) (g g' : G) (d0 : list A) (rs0 : list R) (cx0 : (@mat R)) (h : list (@batch R A)) 
    (d0' : list A) (rs0' : list R) (cx0' : (@mat R)) (h' : list (@batch R A)) (a : A),
  lin_keys_ok s0 ->
  In a (l_arms s0) ->
  l_scale s0 = false ->
  snd (lin_fit N aeqb s0 g d0 rs0 cx0) = true ->
  snd (lin_partials N aeqb (fst (lin_fit N aeqb s0 g d0 rs0 cx0)) g h) = true ->
  snd (lin_fit N aeqb s0 g' d0' rs0' cx0') = true ->
  snd (lin_partials N aeqb (fst (lin_fit N aeqb s0 g' d0' rs0' cx0')) g' h') = true ->
  ncols cx0 = ncols cx0' ->
  let bs := arm_batches aeqb a ((d0, rs0, cx0) :: h) in
  let bs' := arm_batches aeqb a ((d0', rs0', cx0') :: h') in
  bs <> [] ->
  bs' <> [] ->
  concat (map fst bs) = concat (map fst bs') ->
  concat (map snd bs) = concat (map snd bs') ->
  let mk := model aeqb (fst (lin_partials N aeqb (fst (lin_fit N aeqb s0 g d0 rs0 cx0)) g h)) a in
  let mk' := model aeqb (fst (lin_partials N aeqb (fst (lin_fit N aeqb s0 g' d0' rs0' cx0')) g' h')) a
    in
  r_A mk = r_A mk' /\ r_Xty mk = r_Xty mk' /\ r_Ainv mk = r_Ainv mk' /\ r_beta mk = r_beta mk'.
Proof. exact @lin_split_irrelevant. Qed.
Print Assumptions C06_linear_split_into_fit_and_partial_fit_is_irrelevant.

Theorem C06_clusters_batch_equals_incremental :
  forall (R A G : Type) (N : Num R) (aeqb : A -> A -> bool),
  (forall x y : A, aeqb x y = true <-> x = y) ->
  forall (s : (@clu R A G)) (g g' : G) (ds1 : list A) (rs1 : list R) (cx1 : (@mat R)) (ds2 : list A) 
    (rs2 : list R) (cx2 : (@mat R)) (labels1 labels : list nat),
  Forall (plain N) (k_lps s) ->
  length (k_lps s) = k_n s ->
  fst (clu_partial_fit N aeqb (fst (clu_fit N aeqb s g ds1 rs1 cx1 labels1)) g' ds2 rs2 cx2 labels) =
  fst (clu_fit N aeqb s g' (ds1 ++ ds2) (rs1 ++ rs2) (cx1 ++ cx2) labels).
Proof. exact @clusters_batch_equals_incremental. Qed.
Print Assumptions C06_clusters_batch_equals_incremental.

Theorem C06_tree_cut_of_the_history_is_irrelevant :
  forall (R A : Type) (aeqb : A -> A -> bool),
  (forall x y : A, aeqb x y = true <-> x = y) ->
  forall (s : (@tree R A)) (leaf : A -> list R -> nat) (b0 b0' : list (A * R * list R))
    (h h' : list (list (A * R * list R))) (a : A) (lf : nat),
  NoDup (t_arms s) ->
  In a (t_arms s) ->
  b0 ++ concat h = b0' ++ concat h' ->
  leaves_at aeqb (tree_partials aeqb (tree_fit aeqb s leaf (ds_of b0) (rs_of b0) (cx_of b0)) leaf h) a
    lf =
  leaves_at aeqb (tree_partials aeqb (tree_fit aeqb s leaf (ds_of b0') (rs_of b0') (cx_of b0')) leaf h')
    a lf.
Proof. exact @tree_cut_of_the_history_is_irrelevant. Qed.
Print Assumptions C06_tree_cut_of_the_history_is_irrelevant.

Theorem C06_neighbourhood_policy_fit_whole_equals_fit_then_partial_fit :
  forall (R A G : Type) (N : Num R) (RG : RngOps R G) (s : (@nbr R A G)) (g : G) (d1 d2 : list A)
    (r1 r2 : list R) (c1 c2 : (@mat R)),
  length d1 = length r1 ->
  ncols (c1 ++ c2) = ncols c1 ->
  nbr_fit N RG s g (d1 ++ d2) (r1 ++ r2) (c1 ++ c2) =
  (nbr_partial_fit N (fst (nbr_fit N RG s g d1 r1 c1)) d2 r2 c2, snd (nbr_fit N RG s g d1 r1 c1)).
Proof. exact @nbr_fit_whole_equals_fit_then_partial_fit. Qed.
Print Assumptions C06_neighbourhood_policy_fit_whole_equals_fit_then_partial_fit.

Theorem C06_neighbourhood_facade_fit_whole_equals_fit_then_partial_fit :
  forall (R A G : Type) (N : Num R) (aeqb : A -> A -> bool) (RG : RngOps R G) 
    (m : (@mab R A G)) (s : (@nbr R A G)) (d1 d2 : list A) (r1 r2 row : list R) (c1 : list (list R)) 
    (c2 : (@mat R)) (o o1 o2 : (@oracle R A)),
  m_imp m = INbr s ->
  snd (step N aeqb RG m (Fit (d1 ++ d2) (r1 ++ r2) (Some ((row :: c1) ++ c2)) o)) = ODone ->
  snd (step N aeqb RG m (Fit d1 r1 (Some (row :: c1)) o1)) = ODone ->
  snd
    (step N aeqb RG (fst (step N aeqb RG m (Fit d1 r1 (Some (row :: c1)) o1)))
       (PartialFit d2 r2 (Some c2) o2)) = ODone ->
  fst (step N aeqb RG m (Fit (d1 ++ d2) (r1 ++ r2) (Some ((row :: c1) ++ c2)) o)) =
  fst
    (step N aeqb RG (fst (step N aeqb RG m (Fit d1 r1 (Some (row :: c1)) o1)))
       (PartialFit d2 r2 (Some c2) o2)).
Proof. exact @facade_nbr_fit_whole_equals_fit_then_partial_fit. Qed.
Print Assumptions C06_neighbourhood_facade_fit_whole_equals_fit_then_partial_fit.

Theorem C06_lsh_tables_of_concatenated_rows :
  forall (R : Type) (N : Num R) (ndim : nat) (plane : (@mat R)) (tbl : list (Z * list nat)) 
    (c1 c2 : (@mat R)) (start : nat),
  lsh_insert_rows N ndim plane tbl (c1 ++ c2) start =
  lsh_insert_rows N ndim plane (lsh_insert_rows N ndim plane tbl c1 start) c2 (start + length c1).
Proof. exact @insert_rows_app. Qed.
Print Assumptions C06_lsh_tables_of_concatenated_rows.

Theorem C06_gram_matrix_additive_over_row_blocks :
  forall (R : Type) (N : Num R),
  NumLaws N -> forall (d : nat) (x1 x2 : (@mat R)), xtx N d (x1 ++ x2) = madd N (xtx N d x1) (xtx N d x2).
Proof. exact @xtx_app. Qed.
Print Assumptions C06_gram_matrix_additive_over_row_blocks.

Theorem C06_moment_vector_additive_over_row_blocks :
  forall (R : Type) (N : Num R),
  NumLaws N ->
  forall (d : nat) (x1 x2 : (@mat R)) (y1 y2 : (@vec R)),
  length x1 = length y1 -> xty N d (x1 ++ x2) (y1 ++ y2) = vadd N (xty N d x1 y1) (xty N d x2 y2).
Proof. exact @xty_app. Qed.
Print Assumptions C06_moment_vector_additive_over_row_blocks.

(* non-vacuity of the facade statement: an LSHNearest bandit (2 bits, 2 tables) over Thompson Sampling with a binarizer;
   the three calls are accepted and the two objects are equal (also checked by evaluation) *)
Definition q6 (z : Z) : Qc := Q2Qc (inject_Z z).
Definition ex6_mab : @mab Qc Z nat :=
  mkMab (INbr (nbr_init (NLsh 2 2) Euclidean None false [1; 2]%Z
                        (LCf (cf_init QcNum KThompson (q6 0) (Some (fun (a : Z) (r : Qc) => if Qc_eq_dec r (q6 0) then q6 0 else q6 1)) [1; 2]%Z)))) false 3%nat.
Definition ex6_o : @oracle Qc Z := mkOracle [] [] [] (fun _ _ => 0%nat) [].
Definition ex6_whole := step QcNum Z.eqb ToyRng ex6_mab (Fit ([1; 2] ++ [2; 1; 1])%Z ([q6 0; q6 1] ++ [q6 1; q6 1; q6 0]) (Some (([q6 1; q6 (-2)] :: [[q6 0; q6 3]]) ++ [[q6 2; q6 2]; [q6 (-1); q6 0]; [q6 1; q6 (-2)]])) ex6_o).
Definition ex6_first := step QcNum Z.eqb ToyRng ex6_mab (Fit [1; 2]%Z [q6 0; q6 1] (Some ([q6 1; q6 (-2)] :: [[q6 0; q6 3]])) ex6_o).
Definition ex6_second := step QcNum Z.eqb ToyRng (fst ex6_first) (PartialFit [2; 1; 1]%Z [q6 1; q6 1; q6 0] (Some [[q6 2; q6 2]; [q6 (-1); q6 0]; [q6 1; q6 (-2)]]) ex6_o).
Example C06_facade_premises_hold : snd ex6_whole = ODone /\ snd ex6_first = ODone /\ snd ex6_second = ODone.
Proof. vm_compute. repeat split. Qed.
Example C06_facade_tables_are_not_trivial :
  match m_imp (fst ex6_second) with INbr s => map (fun t => length t) (n_tables s) | _ => [] end <> [0; 0]%nat.
Proof. vm_compute. discriminate. Qed.

