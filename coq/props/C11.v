(*  C11 — LSHNearest neighbourhoods are the sign-random-projection collisions.
   
    PROVED for every n_dimensions, every planes, every stored history and query:
     * the hash of a row is the little-endian value of its sign pattern (bit i = [0 < row . plane_i]), and two
       rows have equal hashes IF AND ONLY IF they have equal sign patterns;
     * inserting a batch into a table adds to bucket h exactly the positions start+i of the batch rows whose
       hash is h, and nothing else (so partial_fit rows are found under their position in the accumulated
       history, hashed with the same planes);
     * the neighbourhood of a query is the duplicate-free set of positions found under the query's hash in at
       least one table.
     * scale invariance (ordered-field laws NumLaws, incl. 0 < x, 0 < y -> 0 < x*y; satisfied by the rationals): for every
       c > 0 the hash of c*row is the hash of row in every table, so c*row has the neighbourhood of row.
    At binary64 the products round; the metamorphic relation on the implementation uses c from 2^-40 to 2^30. *)
From Coq Require Import List ZArith Bool Arith QArith Qcanon Permutation.
From MW Require Import Num Assoc AssocFacts Rng Par CF CFInv CFClean CFForget CFSpec Matrix Lin Warm WarmInv Nbr NbrFacts NbrIndep LshFacts Clu Tree CellFacts Mab FacadeCF FacadeArms MoreFacts NumLaws CFAlg Sim Extra QcInst OrderFacts ExpIrrel LinInv FacadeLin LpInv NbrInv CluTreeInv FacadeAll ToyFacts C09All C10All LinForget LinSim MatrixFacts GaussJordan LinSpec NbrIndepGen CluIndep C17Lin WarmIdem C14More LshScale TreeLeaf Rename.
Import ListNotations.

Theorem C11_hash_is_value_of_sign_pattern :
  forall (R : Type) (N : Num R) (ndim : nat) (plane : (@mat R)) (row : list R),
  lsh_hash N ndim plane row = bits_value (sign_pattern N ndim plane row).
Proof. exact @hash_is_pattern_value. Qed.
Print Assumptions C11_hash_is_value_of_sign_pattern.

Theorem C11_equal_hash_iff_equal_sign_pattern :
  forall (R : Type) (N : Num R) (ndim : nat) (plane : (@mat R)) (row row' : list R),
  lsh_hash N ndim plane row = lsh_hash N ndim plane row' <->
  sign_pattern N ndim plane row = sign_pattern N ndim plane row'.
Proof. exact @hash_injective_on_patterns. Qed.
Print Assumptions C11_equal_hash_iff_equal_sign_pattern.

Theorem C11_insert_rows_bucket :
  forall (R : Type) (N : Num R) (ndim : nat) (plane cx : (@mat R)) (start : nat) 
    (tbl : list (Z * list nat)) (h : Z) (j : nat),
  In j (aget_d zeqb [] (lsh_insert_rows N ndim plane tbl cx start) h) <->
  In j (aget_d zeqb [] tbl h) \/
  (exists i : nat, (i < length cx)%nat /\ j = (start + i)%nat /\ lsh_hash N ndim plane (nth i cx []) = h).
Proof. exact @insert_rows_bucket. Qed.
Print Assumptions C11_insert_rows_bucket.

Theorem C11_neighbourhood_is_union_of_collision_buckets :
  forall (R A G : Type) (N : Num R) (s : (@nbr R A G)) (ndim : nat) (row : list R) (j : nat),
  In j (lsh_neighbors N s ndim row) <->
  (exists (plane : (@mat R)) (tbl : list (Z * list nat)),
     In (plane, tbl) (combine (n_planes s) (n_tables s)) /\
     In j (aget_d zeqb [] tbl (lsh_hash N ndim plane row))).
Proof. exact @lsh_neighbourhood_membership. Qed.
Print Assumptions C11_neighbourhood_is_union_of_collision_buckets.

Theorem C11_hash_invariant_under_positive_scaling :
  forall (R : Type) (N : Num R),
  NumLaws N ->
  forall (ndim : nat) (plane : (@mat R)) (row : list R) (c : R),
  ltb N (zero N) c = true -> lsh_hash N ndim plane (vscale N c row) = lsh_hash N ndim plane row.
Proof. exact @lsh_hash_scale_invariant. Qed.
Print Assumptions C11_hash_invariant_under_positive_scaling.

Theorem C11_neighbourhood_invariant_under_positive_scaling :
  forall (R A G : Type) (N : Num R),
  NumLaws N ->
  forall (s : (@nbr R A G)) (ndim ntab : nat) (row : list R) (c : R) (orc : list nat),
  n_kind s = NLsh ndim ntab ->
  ltb N (zero N) c = true -> neighborhood N s (vscale N c row) orc = neighborhood N s row orc.
Proof. exact @lsh_neighbourhood_scale_invariant. Qed.
Print Assumptions C11_neighbourhood_invariant_under_positive_scaling.

Theorem C11_sign_of_a_positive_multiple :
  forall (R : Type) (N : Num R),
  NumLaws N -> forall c x : R, ltb N (zero N) c = true -> ltb N (zero N) (mul N c x) = ltb N (zero N) x.
Proof. exact @sign_scale. Qed.
Print Assumptions C11_sign_of_a_positive_multiple.


