(* Extraction of the executable model.  Only ExtrOcamlBasic is used: bool, option,
   list, prod, unit, sumbool map to OCaml's; Z, positive, nat, Q, Qc stay the
   extracted datatypes.  No Extract Constant, no further Extract Inductive. *)
Require Extraction.
Require Import ExtrOcamlBasic.
From MW Require Import Num Assoc Rng Par CF Matrix Lin Warm Nbr Clu Tree Mab Series Sim SimRun SelfCheck.
Extraction Language OCaml.
Extraction "mw.ml" QcNum cf_init lin_init nbr_init clu_init tree_init mkOracle mkMab step sstep run mab_cold_arms m_arms effective_jobs partition_sizes starts sim_train_all sim_offline sim_online sim_offline_chunked sim_online_chunked mkBatch sim_evaluate arm_stats st_min st_mean st_max selfcheck_case.
