(* C01 — Context-free policies compute the documented statistic of each arm's history.

   For EVERY history of fit / partial_fit / add_arm / remove_arm (given most recent call first), every
   arm set and label type, every number structure (so also for IEEE binary64, where the order of the
   additions is part of the statement), the state reached by the model equals the specification that
   scans the history backwards: the batches of rewards of the arm since the most recent fit or since the
   arm was (re-)added.  The specification has another shape than the model (backward scan per arm versus
   forward fold over calls and over arms).

   Proved for EpsilonGreedy (sum, count, mean), UCB1 (sum, count, mean, N, bound), Thompson Sampling
   without binarizer (Beta parameters) and Softmax (sum, count, mean; SoftmaxSpec.v), for all histories; after every
   call of a Softmax policy the expectation dictionary is the max-shifted soft-max of the means the state holds
   (every call ends with the recomputation).  Popularity: after every fit / partial_fit the expectation
   is the arm's share mean/sum-of-means of the raw means of the statistics (uniform when all are 0).
   ..._partial: the request pattern of the random draws is covered by the correspondence run only (binarizers:
   see C14). *)
From Coq Require Import List ZArith Bool QArith Qcanon.
From MW Require Import Num Assoc Rng CF CFInv CFSpec QcInst PopSpec SoftmaxSpec.
Import ListNotations.

Theorem C01_epsilon_greedy_running_mean :
  forall (R A : Type) (N : Num R) (aeqb : A -> A -> bool),
  (forall x y : A, aeqb x y = true <-> x = y) ->
  forall (s0 : cf) (rops : list cfop),
  c_kind s0 = KGreedy -> keys_ok s0 ->
  (forall a : A, In a (c_arms s0) -> greedy_arm_ok N aeqb s0 [] a) ->
  valid_rev N aeqb s0 rops ->
  let s := cf_run_rev N aeqb s0 rops in
  keys_ok s /\ c_kind s = KGreedy /\
  (forall a : A, In a (c_arms s) -> greedy_arm_ok N aeqb s (batches_rev aeqb rops a) a).
Proof. exact @greedy_stat. Qed.
Print Assumptions C01_epsilon_greedy_running_mean.

Theorem C01_ucb1_bound :
  forall (R A : Type) (N : Num R) (aeqb : A -> A -> bool),
  (forall x y : A, aeqb x y = true <-> x = y) ->
  forall (s0 : cf) (rops : list cfop),
  c_kind s0 = KUcb -> keys_ok s0 ->
  (forall a : A, In a (c_arms s0) -> ucb_arm_ok N aeqb s0 [] a) ->
  valid_rev N aeqb s0 rops ->
  let s := cf_run_rev N aeqb s0 rops in
  keys_ok s /\ c_kind s = KUcb /\ c_hp s = c_hp s0 /\ c_total s = spec_total (c_total s0) rops /\
  (forall a : A, In a (c_arms s) -> ucb_arm_ok N aeqb s (batches_rev aeqb rops a) a).
Proof. exact @ucb_stat. Qed.
Print Assumptions C01_ucb1_bound.

Theorem C01_thompson_beta_parameters :
  forall (R A : Type) (N : Num R) (aeqb : A -> A -> bool),
  (forall x y : A, aeqb x y = true <-> x = y) ->
  forall (s0 : cf) (rops : list cfop),
  c_kind s0 = KThompson -> c_binz s0 = None -> keys_ok s0 ->
  (forall a : A, In a (c_arms s0) -> ts_arm_ok N aeqb s0 [] a) ->
  valid_rev N aeqb s0 rops -> no_binz rops ->
  let s := cf_run_rev N aeqb s0 rops in
  keys_ok s /\ c_kind s = KThompson /\ c_binz s = None /\
  (forall a : A, In a (c_arms s) -> ts_arm_ok N aeqb s (batches_rev aeqb rops a) a).
Proof. exact @thompson_params. Qed.
Print Assumptions C01_thompson_beta_parameters.

Theorem C01_softmax_is_max_shifted_softmax_of_means_partial :
  forall (R A : Type) (N : Num R) (aeqb : A -> A -> bool),
  (forall x y : A, aeqb x y = true <-> x = y) ->
  forall (s : cf) (a : A), In a (akeys (c_exp s)) ->
  let s' := softmax_expectation N aeqb s in
  let maxm := pymax N (map (fun kv : A * armst => s_mean (snd kv)) (c_stats s)) in
  let e := fun st : armst => exp N (div N (sub N (s_mean st) maxm) (c_hp s)) in
  aget aeqb (c_exp s') a =
    Some (div N (e (aget_d aeqb (armst0 N) (c_stats s) a)) (psum N (map (fun kv : A * armst => e (snd kv)) (c_stats s)))) \/
  aget aeqb (c_stats s) a = None.
Proof. exact @softmax_expectation_formula. Qed.
Print Assumptions C01_softmax_is_max_shifted_softmax_of_means_partial.

Theorem C01_softmax_sum_count_mean :
  forall (R A : Type) (N : Num R) (aeqb : A -> A -> bool),
  (forall x y : A, aeqb x y = true <-> x = y) ->
  forall (s0 : cf) (rops : list cfop),
  c_kind s0 = KSoftmax -> keys_ok s0 ->
  (forall a : A, In a (c_arms s0) -> softmax_arm_ok N aeqb s0 [] a) ->
  valid_rev N aeqb s0 rops ->
  let s := cf_run_rev N aeqb s0 rops in
  keys_ok s /\ c_kind s = KSoftmax /\
  (forall a : A, In a (c_arms s) -> softmax_arm_ok N aeqb s (batches_rev aeqb rops a) a).
Proof. exact @softmax_stat. Qed.
Print Assumptions C01_softmax_sum_count_mean.

Theorem C01_softmax_expectations_after_every_call :
  forall (R A : Type) (N : Num R) (aeqb : A -> A -> bool),
  (forall x y : A, aeqb x y = true <-> x = y) ->
  forall (s : cf) (o : cfop) (a : A),
  c_kind s = KSoftmax -> keys_ok s ->
  match o with OAdd b _ => ~ In b (c_arms s) | _ => True end ->
  In a (c_arms (cf_step N aeqb s o)) ->
  aget aeqb (c_exp (cf_step N aeqb s o)) a = Some (softmax_of_means N aeqb (cf_step N aeqb s o) a).
Proof. exact @softmax_expectations_after_every_call. Qed.
Print Assumptions C01_softmax_expectations_after_every_call.

(* non-vacuity: a UCB1 policy over the rationals; arm 2 is observed, removed, re-added and observed again.
   The hypotheses hold for the constructed state and the specification evaluates to the expected numbers:
   after the re-add only the last batch [5] counts for arm 2, N counts every row since the fit. *)
Definition q (z : Z) : Qc := Q2Qc (inject_Z z).
Definition ex_s0 : @cf Qc Z := cf_init QcNum KUcb 1%Qc None [1; 2]%Z.
Definition ex_rops : list (@cfop Qc Z) :=
  [OPartial [2; 1]%Z [q 5; q 1]; OAdd 2%Z None; ORemove 2%Z; OFit [1; 2; 2]%Z [q 1; q 3; q 4]].
Example C01_hypotheses_satisfiable :
  keys_ok ex_s0 /\ (forall a, In a (c_arms ex_s0) -> ucb_arm_ok QcNum Z.eqb ex_s0 [] a) /\
  valid_rev QcNum Z.eqb ex_s0 ex_rops /\
  batches_rev Z.eqb ex_rops 2%Z = [[q 5]] /\ spec_total 0 ex_rops = 5%Z /\
  spec_mean QcNum (batches_rev Z.eqb ex_rops 1%Z) = 1%Qc.
Proof.
  split; [apply keys_ok_init; repeat constructor; simpl; intuition discriminate|].
  split.
  - intros a [<-|[<-|[]]]; eexists; repeat split; reflexivity.
  - split; [simpl; intuition discriminate|]. split; [reflexivity|]. split; [reflexivity|].
    apply Qc_is_canon. reflexivity.
Qed.

Theorem C01_popularity_partial_fit_shares :
  forall (R A : Type) (N : Num R) (aeqb : A -> A -> bool) (s : @cf R A) (ds : list A) (rs : list R),
  c_kind s = KPopularity ->
  let x := set_trained aeqb (cf_parallel_fit N aeqb s ds rs) ds true in
  let raw := map (fun kv => (fst kv, raw_mean N (aget_d aeqb (armst0 N) (c_stats x) (fst kv)))) (c_exp x) in
  c_exp (cf_partial_fit N aeqb s ds rs) = shares N (length (c_arms x)) raw (pysum N (avals raw)).
Proof. exact @popularity_partial_fit_expectations. Qed.
Print Assumptions C01_popularity_partial_fit_shares.

Theorem C01_popularity_fit_shares :
  forall (R A : Type) (N : Num R) (aeqb : A -> A -> bool) (s : @cf R A) (ds : list A) (rs : list R),
  c_kind s = KPopularity ->
  let s1 := set_pyfloat (reset_status (set_exp (reset_sums N s) (areset (c_exp s) (zero N)))) false in
  let x := set_trained aeqb (cf_parallel_fit N aeqb s1 ds rs) ds false in
  c_exp (cf_fit N aeqb s ds rs) = shares N (length (c_arms x)) (c_exp x) (pysum N (avals (c_exp x))).
Proof. exact @popularity_fit_expectations. Qed.
Print Assumptions C01_popularity_fit_shares.
