(*  C03 — Radius and KNearest use exactly the observations in the neighbourhood.
   
    PROVED for every state, every metric of the model, every radius / k, every query, every number structure:
     * the Radius neighbourhood is exactly the set of stored positions whose distance is <= the radius
       (boundary included), in ascending position order;
     * every KNearest selection the model accepts (the answer of numpy.argpartition is an oracle that is
       CHECKED, not trusted) consists of k distinct stored positions none of which is farther than any
       position left out - so any valid tie-break is accepted and nothing else;
     * the stored observations are the rows of fit followed by the rows of every later partial_fit, aligned;
     * an empty neighbourhood returns the stored NaN dictionary, and predict issues exactly one
       choice(len(arms), p=no_nhood_prob_of_arm) request on the row generator and returns that arm - unless a given probability list no longer
       has one entry per arm (after add_arm / remove_arm: finding D24), in which case predict raises;
     * for a non-empty neighbourhood the expectations are those of a FRESHLY CONSTRUCTED learning policy
       trained on exactly the selected observations (context-free policies other than Thompson Sampling; for
       Thompson Sampling the same holds up to the unused stored sample, see NbrIndep.fit_query_indep).
     * linear learning policies: the row's answer is that of [lin_strip c], the constructor's state keeping only the private
       generator copies (never read by LinGreedy / LinUCB), trained on the selected observations (nn_row_from_scratch_linear).
    KnnUnique.v: the model accepts ANY valid certificate of numpy's argpartition; with pairwise distinct distances two valid certificates select the same
    positions (permutations of each other), so the oracle decides only the listing order - the freedom the property grants exists at ties only. *)
From Coq Require Import List ZArith Bool Arith QArith Qcanon Permutation.
From MW Require Import Num Assoc AssocFacts Rng Par CF CFInv CFClean CFForget CFSpec Matrix Lin Warm WarmInv Nbr NbrFacts NbrIndep LshFacts Clu Tree CellFacts Mab FacadeCF FacadeArms MoreFacts NumLaws CFAlg Sim Extra QcInst OrderFacts ExpIrrel LinInv FacadeLin LpInv NbrInv CluTreeInv FacadeAll ToyFacts C09All C10All LinForget LinSim MatrixFacts GaussJordan LinSpec NbrIndepGen CluIndep C17Lin WarmIdem C14More LshScale TreeLeaf Rename PopSpec CopyFacts StatFacts CluBatch LinWarm KnnUnique.
Import ListNotations.

Theorem C03_radius_neighbourhood_is_closed_ball :
  forall (R A G : Type) (N : Num R) (s : (@nbr R A G)) (r : R) (row : list R) (orc l : list nat) (i : nat),
  n_kind s = NRadius r ->
  neighborhood N s row orc = Some l ->
  In i l <->
  (i < length (n_cx s))%nat /\ leb N (distance N (n_metric s) (nth i (n_cx s) []) row) r = true.
Proof. exact @radius_membership. Qed.
Print Assumptions C03_radius_neighbourhood_is_closed_ball.

Theorem C03_knearest_selection_is_valid :
  forall (R A G : Type) (N : Num R) (s : (@nbr R A G)) (k : nat) (row : list R) (orc sel : list nat),
  n_kind s = NKNearest k ->
  neighborhood N s row orc = Some sel ->
  let dists := map (fun c : list R => distance N (n_metric s) c row) (n_cx s) in
  length sel = k /\
  NoDup sel /\
  (forall i : nat, In i sel -> (i < length (n_cx s))%nat) /\
  (forall i j : nat,
   In i sel ->
   (j < length (n_cx s))%nat -> ~ In j sel -> leb N (nth i dists (zero N)) (nth j dists (zero N)) = true).
Proof. exact @knearest_valid. Qed.
Print Assumptions C03_knearest_selection_is_valid.

Theorem C03_without_ties_the_k_nearest_are_determined_by_the_distances :
  forall (R : Type) (N : Num R),
  NumLaws N ->
  forall (dists : list R) (k : nat) (sel1 sel2 : list nat),
  distinct_distances N dists ->
  knn_valid N dists k sel1 = true -> knn_valid N dists k sel2 = true -> Permutation sel1 sel2.
Proof. exact @distinct_distances_make_the_selection_unique. Qed.
Print Assumptions C03_without_ties_the_k_nearest_are_determined_by_the_distances.

Theorem C03_knearest_neighbourhood_is_a_function_of_the_distances_without_ties :
  forall (R A G : Type) (N : Num R),
  NumLaws N ->
  forall (s : (@nbr R A G)) (k : nat) (row : list R) (orc1 orc2 sel1 sel2 : list nat),
  n_kind s = NKNearest k ->
  distinct_distances N (map (fun c : list R => distance N (n_metric s) c row) (n_cx s)) ->
  neighborhood N s row orc1 = Some sel1 ->
  neighborhood N s row orc2 = Some sel2 -> Permutation sel1 sel2.
Proof. exact @knearest_neighbourhood_is_a_function_of_the_distances. Qed.
Print Assumptions C03_knearest_neighbourhood_is_a_function_of_the_distances_without_ties.

Theorem C03_history_after_fit :
  forall (R A G : Type) (N : Num R) (RG : RngOps R G) (s : (@nbr R A G)) (g : G) (ds : list A) 
    (rs : list R) (cx : (@mat R)),
  let s' := fst (nbr_fit N RG s g ds rs cx) in
  n_ds s' = ds /\ n_cx s' = cx /\ n_rs s' = snd (lp_binarize (n_lp s) ds rs).
Proof. exact @history_after_fit. Qed.
Print Assumptions C03_history_after_fit.

Theorem C03_history_after_partial_fit :
  forall (R A G : Type) (N : Num R) (s : (@nbr R A G)) (ds : list A) (rs : list R) (cx : (@mat R)),
  let s' := nbr_partial_fit N s ds rs cx in
  n_ds s' = n_ds s ++ ds /\
  n_cx s' = n_cx s ++ cx /\ n_rs s' = n_rs s ++ snd (lp_binarize (n_lp s) ds rs).
Proof. exact @history_after_partial_fit. Qed.
Print Assumptions C03_history_after_partial_fit.

Theorem C03_empty_neighbourhood :
  forall (R A G : Type) (N : Num R) (aeqb : A -> A -> bool) (RG : RngOps R G) 
    (s : (@nbr R A G)) (l : (@lp R A G)) (seed : Z) (row : list R) (orc : list nat),
  neighborhood N s row orc = Some [] ->
  (exists r : (@lp R A G), nbr_row N aeqb RG s l seed row orc false = Some (inr (n_exp s), r)) /\
  (nnprob_len_ok s = true ->
   exists (a : option A) (r : (@lp R A G)),
     nbr_row N aeqb RG s l seed row orc true = Some (inl a, r) /\
     a =
     nth_error (n_arms s)
       (Z.to_nat
          match fst (draw_z RG (create RG seed) (RqChoice (length (n_arms s)) (n_nnprob s))) with
          | [] => 0
          | x :: _ => x
          end)) /\ (nnprob_len_ok s = false -> nbr_row N aeqb RG s l seed row orc true = None).
Proof. exact @empty_neighbourhood. Qed.
Print Assumptions C03_empty_neighbourhood.

Theorem C03_expectations_of_policy_trained_from_scratch_partial :
  forall (R A G : Type) (N : Num R) (aeqb : A -> A -> bool) (RG : RngOps R G) 
    (s : (@nbr R A G)) (t c : (@cf R A)) (seed : Z) (row : list R) (orc : list nat) (i : nat) 
    (idx : list nat),
  keys_ok t ->
  clean N t ->
  cf_good N t c ->
  c_kind t <> KThompson ->
  neighborhood N s row orc = Some (i :: idx) ->
  let ds :=
    flat_map (fun o : option A => match o with
                                  | Some a => [a]
                                  | None => []
                                  end) (map (fun j : nat => nth_error (n_ds s) j) (i :: idx)) in
  let rs := select (n_rs s) (zero N) (i :: idx) in
  let
  '(e, _, _) :=
   cf_predict_exp N aeqb RG (cf_fit N aeqb (cf_fresh N t) ds rs) (create RG seed) (Some 1%nat) in
   exists l' : (@lp R A G),
     nbr_row N aeqb RG s (LCf c) seed row orc false =
     Some (inr (map (fun kv : A * R => (fst kv, Some (snd kv))) (hd [] e)), l').
Proof. exact @nn_expectations_from_scratch. Qed.
Print Assumptions C03_expectations_of_policy_trained_from_scratch_partial.

Theorem C03_linear_policy_trained_from_scratch :
  forall (R A G : Type) (N : Num R) (aeqb : A -> A -> bool) (RG : RngOps R G) 
    (s : (@nbr R A G)) (c : (@lin R A G)) (seed : Z) (row : list R) (orc : list nat) (p : bool),
  nbr_row N aeqb RG s (LLin c) seed row orc p = nbr_row N aeqb RG s (LLin (lin_strip c)) seed row orc p \/
  (exists idx : list nat, neighborhood N s row orc = Some idx /\ idx = []).
Proof. exact @nn_row_from_scratch_linear. Qed.
Print Assumptions C03_linear_policy_trained_from_scratch.

(* non-vacuity: a Radius bandit over the rationals, cityblock metric, radius 2; the stored row at distance
   exactly 2 is selected, the one at distance 3 is not *)
Definition q (z : Z) : Qc := Q2Qc (inject_Z z).
Definition ex_nbr : @nbr Qc Z nat :=
  mkNbr (NRadius (q 2)) Cityblock None false [1; 2]%Z (LCf (cf_init QcNum KUcb (q 1) None [1; 2]%Z))
        [(1%Z, None); (2%Z, None)] [1; 2; 1]%Z [q 1; q 0; q 1] [[q 0; q 0]; [q 1; q 1]; [q 3; q 0]] [] [].
Example C03_boundary_row_included :
  neighborhood QcNum ex_nbr [q 0; q 0] [] = Some [0; 1]%nat.
Proof. vm_compute. reflexivity. Qed.

(* non-vacuity of the uniqueness theorem: distances 3, 1, 2 are pairwise distinct; [1; 2] and [2; 1] are both valid certificates for k = 2
   (and [0; 1] is not) *)
From Coq Require Import Lia.
Example C03_distinct_distances_hypothesis_satisfiable :
  distinct_distances QcNum [q 3; q 1; q 2] /\
  knn_valid QcNum [q 3; q 1; q 2] 2 [1; 2]%nat = true /\ knn_valid QcNum [q 3; q 1; q 2] 2 [2; 1]%nat = true /\
  knn_valid QcNum [q 3; q 1; q 2] 2 [0; 1]%nat = false.
Proof.
  split; [|split; [vm_compute; reflexivity | split; vm_compute; reflexivity]].
  intros i j Hi Hj Hne. simpl in Hi, Hj.
  destruct i as [|[|[|i]]]; destruct j as [|[|[|j]]]; try lia; vm_compute; discriminate.
Qed.

