(* CopyFacts.v — C19 as far as a model of values can carry it: a copy of a bandit is the same value.  In a process that
   holds the original (object 0) and its copy (object 1), for EVERY interleaving of calls on the two:
   the copy answers its calls exactly as the original would have answered them, and the original answers its calls
   exactly as if the copy had never been used.  (What copy.deepcopy / pickle do to the Python object graph is runtime
   behaviour: observed by the C19 relation on the implementation.) *)
From Coq Require Import ZArith List Bool Arith Lia.
From MW Require Import Num Assoc Rng CF Matrix Lin Warm Nbr Clu Tree Mab Extra.
Import ListNotations.

Section CopyFacts.
Context {R A G : Type} (N : Num R) (aeqb : A -> A -> bool) (RG : RngOps R G).

Theorem copy_and_original (m : @mab R A G) (calls : list (nat * @op R A)) :
  only 1%nat (snd (wrun N aeqb RG [m; m] calls)) = snd (run N aeqb RG m (only 1%nat calls)) /\
  only 0%nat (snd (wrun N aeqb RG [m; m] calls)) = snd (run N aeqb RG m (only 0%nat calls)) /\
  nth_error (fst (wrun N aeqb RG [m; m] calls)) 0 = Some (fst (run N aeqb RG m (only 0%nat calls))) /\
  nth_error (fst (wrun N aeqb RG [m; m] calls)) 1 = Some (fst (run N aeqb RG m (only 1%nat calls))).
Proof.
  destruct (isolation N aeqb RG calls [m; m] 0 m eq_refl) as [A1 A2].
  destruct (isolation N aeqb RG calls [m; m] 1 m eq_refl) as [B1 B2].
  auto.
Qed.

End CopyFacts.
