# findings.py — known (recorded, unrepaired) defects: narrow signatures and witness replays.
# The list itself lives in /verif/known_findings.json (never written at run time).
import json, os
import mwh

def match(prop, findings, info, t):
    """returns the id of the known finding whose signature the failing input matches, else None"""
    for f in findings:
        if f.get("status") != "known" or f.get("property") != prop:
            continue
        sig = SIGNATURES.get(f["id"])
        if sig and sig(info, t):
            return f["id"]
    return None

def replay_witness(f):
    w = WITNESSES.get(f["id"])
    if not w:
        return True
    try:
        return bool(w())
    except Exception:
        return True

SIGNATURES = {}
WITNESSES = {}

def _base(t):
    return t.get("base", t) if isinstance(t, dict) else {}

def sig_lints(info, t):
    b = _base(t)
    return bool(b) and b.get("lp", [None])[0] == "lints"

def wit_d8_c07():
    import copy, numpy as np
    from mabwiser.mab import MAB, LearningPolicy
    X = [[1.0, 2.0], [0.0, 1.0], [3.0, 1.0], [2.0, 2.0]]
    a = MAB([1, 2], LearningPolicy.LinTS(alpha=1.0), seed=7)
    a.fit([1, 2, 1, 2], [1.0, 0.0, 2.0, 1.0], X)
    a.predict_expectations([[1.0, 1.0]])
    b = MAB([1, 2], LearningPolicy.LinTS(alpha=1.0), seed=7)
    b._rng.rng.bit_generator.state = copy.deepcopy(a._rng.rng.bit_generator.state)
    a.fit([1, 2, 2], [1.0, 0.0, 1.0], X[:3]); b.fit([1, 2, 2], [1.0, 0.0, 1.0], X[:3])
    return a.predict_expectations([[1.0, 1.0]]) != b.predict_expectations([[1.0, 1.0]])

SIGNATURES["D8-C07"] = sig_lints
WITNESSES["D8-C07"] = wit_d8_c07

def sig_tree_ts_binz(info, t):
    b = _base(t)
    return bool(b) and (b.get("np") or [None])[0] == "tree" and b.get("lp", [None])[0] == "thompson"

def wit_d6_c14():
    from mabwiser.mab import MAB, LearningPolicy, NeighborhoodPolicy
    bz = lambda a, r: 1 if r == 0 else 0
    X = [[0.0], [1.0], [2.0], [3.0], [0.0], [1.0], [2.0], [3.0]]
    ds = [1, 1, 1, 1, 2, 2, 2, 2]
    rs = [0.0, 0.0, 0.0, 1.0, 1.0, 1.0, 0.0, 1.0]
    a = MAB([1, 2], LearningPolicy.ThompsonSampling(bz), NeighborhoodPolicy.TreeBandit(), seed=3)
    a.fit(ds, rs, X)
    b = MAB([1, 2], LearningPolicy.ThompsonSampling(), NeighborhoodPolicy.TreeBandit(), seed=3)
    b.fit(ds, [float(bz(d, r)) for d, r in zip(ds, rs)], X)
    return a.predict_expectations([[0.0], [3.0]]) != b.predict_expectations([[0.0], [3.0]])

SIGNATURES["D6-C14"] = sig_tree_ts_binz
WITNESSES["D6-C14"] = wit_d6_c14

def sig_d2(info, t):
    return bool(info.get("arm_never_observed")) and info.get("l2_lambda") != 1.0

def wit_d2():
    from mabwiser.mab import MAB, LearningPolicy
    m = MAB([1, 2], LearningPolicy.LinUCB(alpha=1.0, l2_lambda=4.0))
    m.fit([1, 1], [1.0, 0.0], [[1.0, 0.0], [0.0, 1.0]])
    e = m.predict_expectations([[1.0, 1.0]])[2]
    return abs(e - (2.0 ** 0.5) / 2.0) > 1e-6

SIGNATURES["D2-C02"] = sig_d2
WITNESSES["D2-C02"] = wit_d2

def sig_d7(info, t):
    b = _base(t)
    if not b or (b.get("np") or [None])[0] != "tree":
        return False
    lp = b.get("lp", [None])
    return lp[0] == "thompson" or (lp[0] == "greedy" and lp[1] > 0)

def _njobs_differ(lp, npol, X, n=8, backend="threading"):
    import numpy as np
    from mabwiser.mab import MAB
    rng = np.random.default_rng(0)
    C = rng.integers(0, 4, size=(n, 2)).astype(float)
    ds = [1, 2] * (n // 2); rs = [float(i % 2) for i in range(n)]
    a = MAB([1, 2], lp, npol, seed=11, n_jobs=1); a.fit(ds, rs, C)
    b = MAB([1, 2], lp, npol, seed=11, n_jobs=2, backend=backend); b.fit(ds, rs, C)
    return a.predict_expectations(X) != b.predict_expectations(X)

def wit_d7():
    from mabwiser.mab import LearningPolicy, NeighborhoodPolicy
    return _njobs_differ(LearningPolicy.ThompsonSampling(), NeighborhoodPolicy.TreeBandit(), [[0.0, 1.0], [1.0, 2.0], [3.0, 0.0], [2.0, 2.0]], backend=None)

def sig_d8_c05(info, t):
    b = _base(t)
    return bool(b) and b.get("lp", [None])[0] == "lints" and (b.get("np") or [None])[0] not in (None, "none")

def wit_d8_c05():
    from mabwiser.mab import LearningPolicy, NeighborhoodPolicy
    return _njobs_differ(LearningPolicy.LinTS(alpha=1.0), NeighborhoodPolicy.KNearest(k=3), [[0.0, 1.0], [1.0, 2.0], [3.0, 0.0], [2.0, 2.0]])

SIGNATURES["D7-C05"] = sig_d7
WITNESSES["D7-C05"] = wit_d7
SIGNATURES["D8-C05"] = sig_d8_c05
WITNESSES["D8-C05"] = wit_d8_c05

RANDOMISED_LPS = ("softmax", "thompson", "popularity", "random", "lints")
def sig_d13(info, t):
    b = info.get("bandit")
    if not b or not isinstance(t, dict) or not t.get("batch_size"):
        return False
    npk = (b.get("np") or ["none"])[0]
    if npk not in ("radius", "knearest", "lsh"):
        return False
    lp = b["lp"]
    rnd = lp[0] in RANDOMISED_LPS or (lp[0] in ("greedy", "lingreedy") and lp[1] > 0)
    return rnd or npk in ("radius", "lsh")

def wit_d13():
    import relations as REL, random
    t = {"arms": [1, 2], "ds": [1, 2] * 15, "rs": [float(i % 3 == 0) for i in range(30)], "cx": [[float(i % 5), float(i % 3)] for i in range(30)],
         "bandits": [{"name": "b0", "lp": ("softmax", 1.0), "np": ("knearest", 3, "euclidean"), "seed": 5}],
         "test_size": 0.5, "is_ordered": True, "batch_size": 5, "is_quick": True, "seed": 1}
    ok, info = REL.run_c15(t)
    return not ok

SIGNATURES["D13-C15"] = sig_d13
WITNESSES["D13-C15"] = wit_d13

def sig_d19(info, t):
    b = _base(t)
    if not b or (b.get("np") or [None])[0] != "clusters":
        return False
    diff = info.get("differing_arms"); re = info.get("readded_with_stored_rows_since_training")
    return bool(diff) and re is not None and set(diff) <= set(re)

def wit_d19():
    from mabwiser.mab import MAB, LearningPolicy, NeighborhoodPolicy
    X = [[0.0], [1.0], [2.0], [3.0], [3.0], [0.0], [3.0], [1.0], [2.0], [3.0]]
    ds = [3, 3, 6, 3, 3, 6, 6, 6, 3, 6]
    rs = [1.0] + [0.0] * 9
    m = MAB([3, 6, 4], LearningPolicy.UCB1(alpha=1.0), NeighborhoodPolicy.Clusters(n_clusters=2), seed=11)
    m.fit(ds, rs, X)
    m.remove_arm(3); m.add_arm(3)
    e1 = m.predict_expectations([[0.0]])[3]
    m.partial_fit([6], [0.0], [[2.0]])
    e2 = m.predict_expectations([[0.0]])[3]
    return e1 == 0 and e2 != 0

SIGNATURES["D19-C12"] = sig_d19
WITNESSES["D19-C12"] = wit_d19

def sig_d22(info, t):
    """linear policy with l2_lambda = 0 whose training call raised LinAlgError (singular matrix of a later arm)"""
    b = _base(t)
    return bool(b) and b.get("lp", [None])[0] in ("lingreedy", "linucb") and float(b["lp"][2]) == 0.0 and info.get("exception") == "LinAlgError"

def wit_d22():
    import copy, numpy as np
    from mabwiser.mab import MAB, LearningPolicy
    m = MAB([1, 2], LearningPolicy.LinGreedy(epsilon=0.0, l2_lambda=0.0), seed=1)
    m.fit(np.array([1, 1]), np.array([1.0, 2.0]), np.array([[1.0, 0.0], [0.0, 1.0]]))
    twin = copy.deepcopy(m)
    try:
        m.partial_fit(np.array([1, 2]), np.array([5.0, 1.0]), np.array([[1.0, 1.0], [1.0, 2.0]]))
        return False
    except Exception:
        pass
    q = np.array([[1.0, 1.0]])
    return m.predict_expectations(q) != twin.predict_expectations(q)

SIGNATURES["D22-C17"] = sig_d22
WITNESSES["D22-C17"] = wit_d22


def sig_d24(info, t):
    b = _base(t)
    npol = b.get("np") if isinstance(b, dict) else None
    return bool(npol) and npol[0] in ("radius", "lsh") and npol[3] is not None and bool(info.get("no_nhood_prob")) \
        and any(o[0] in ("add", "rem") for o in b.get("ops", []))

def wit_d24():
    from mabwiser.mab import MAB, LearningPolicy, NeighborhoodPolicy
    m = MAB([1, 2], LearningPolicy.EpsilonGreedy(0.0), NeighborhoodPolicy.Radius(radius=0.1, no_nhood_prob_of_arm=[0.5, 0.5]), seed=1)
    m.fit([1, 2, 1, 2], [1, 0, 1, 0], [[0, 0], [0, 1], [1, 0], [1, 1]])
    if m.predict([[50, 50]]) not in (1, 2):
        return False
    m.add_arm(3)
    try:
        m.predict([[50, 50]])
    except ValueError:
        return True
    return False

SIGNATURES["D24-C08"] = sig_d24
WITNESSES["D24-C08"] = wit_d24
