(* FacadeAll.v — C08 for every policy combination: one invariant per implementation class, preserved by every
   facade call (hence true in every state any history reaches), and the range of every answer. *)
From Coq Require Import ZArith List Bool Lia.
From MW Require Import Num Assoc AssocFacts Rng Par CF CFInv Matrix Lin LinInv Warm WarmInv Nbr Clu Tree Mab
     FacadeArms LpInv FacadeCF NbrInv CluTreeInv.
Import ListNotations.

Section FacadeAll.
Context {R A G : Type} (N : Num R) (aeqb : A -> A -> bool) (RG : RngOps R G).
Hypothesis aeqb_spec : forall x y, aeqb x y = true <-> x = y.

Notation mab := (@mab R A G).
Notation op := (@op R A).
Notation out := (@out R A).
Notation imp := (@imp R A G).

Definition imp_inv (i : imp) : Prop :=
  match i with
  | ICf s => keys_ok s
  | ILin s => lin_keys_ok s
  | INbr s => nbr_inv s
  | IClu s => clu_inv s
  | ITree s => tree_inv s
  end.

Lemma imp_inv_nodup i : imp_inv i -> NoDup (imp_arms i).
Proof. destruct i; simpl; intros H; apply H. Qed.

Lemma imp_fit_inv i g ds rs cx orc : imp_inv i -> imp_inv (fst (fst (imp_fit N aeqb RG i g ds rs cx orc))).
Proof.
  destruct i as [s|s|s|s|s]; simpl; intros H.
  - apply (cf_fit_keys_ok N aeqb aeqb_spec); exact H.
  - pose proof (lin_fit_keys_ok N aeqb aeqb_spec s g ds rs (octx cx) H) as H1.
    destruct (lin_fit N aeqb s g ds rs (octx cx)); exact H1.
  - pose proof (nbr_fit_inv N RG s g ds rs (octx cx) H) as [H1 _].
    destruct (nbr_fit N RG s g ds rs (octx cx)); exact H1.
  - pose proof (clu_fit_inv N aeqb aeqb_spec s g ds rs (octx cx) (o_labels orc) H) as [H1 _].
    destruct (clu_fit N aeqb s g ds rs (octx cx) (o_labels orc)); exact H1.
  - apply (tree_fit_inv aeqb aeqb_spec); exact H.
Qed.

Lemma imp_partial_fit_inv i g ds rs cx orc : imp_inv i -> imp_inv (fst (fst (imp_partial_fit N aeqb i g ds rs cx orc))).
Proof.
  destruct i as [s|s|s|s|s]; simpl; intros H.
  - apply (cf_partial_fit_keys_ok N aeqb aeqb_spec); exact H.
  - pose proof (lin_partial_fit_keys_ok N aeqb aeqb_spec s g ds rs (octx cx) H) as H1.
    destruct (lin_partial_fit N aeqb s g ds rs (octx cx)); exact H1.
  - apply (nbr_partial_fit_inv N); exact H.
  - pose proof (clu_partial_fit_inv N aeqb aeqb_spec s g ds rs (octx cx) (o_labels orc) H) as [H1 _].
    destruct (clu_partial_fit N aeqb s g ds rs (octx cx) (o_labels orc)); exact H1.
  - apply (tree_partial_fit_inv aeqb aeqb_spec); exact H.
Qed.

Lemma imp_add_arm_inv i a bz : imp_inv i -> ~ In a (imp_arms i) -> imp_inv (imp_add_arm N aeqb i a bz).
Proof.
  destruct i as [s|s|s|s|s]; simpl; intros H Hn.
  - apply (cf_add_arm_keys_ok N aeqb aeqb_spec); assumption.
  - apply (lin_add_arm_keys_ok N aeqb aeqb_spec); assumption.
  - apply (nbr_add_arm_inv N aeqb aeqb_spec); assumption.
  - apply (clu_add_arm_inv N aeqb aeqb_spec); assumption.
  - apply (tree_add_arm_inv N aeqb aeqb_spec); assumption.
Qed.

Lemma imp_remove_arm_inv i a : imp_inv i -> imp_inv (imp_remove_arm N aeqb i a).
Proof.
  destruct i as [s|s|s|s|s]; simpl; intros H.
  - apply (cf_remove_arm_keys_ok N aeqb); assumption.
  - apply (lin_remove_arm_keys_ok aeqb); assumption.
  - apply (nbr_remove_arm_inv N aeqb); assumption.
  - apply (clu_remove_arm_inv N aeqb); assumption.
  - apply (tree_remove_arm_inv N aeqb); assumption.
Qed.

Lemma imp_query_inv i g cx orc p :
  rng_lengths_ok RG -> imp_inv i -> imp_inv (snd (fst (imp_query N aeqb RG i g cx orc p))).
Proof.
  intros Hrng. destruct i as [s|s|s|s|s]; simpl; intros H.
  - destruct p.
    + unfold cf_predict. pose proof (cf_predict_exp_ok N aeqb RG s g (ctx_len cx) Hrng H) as H1.
      destruct (cf_predict_exp N aeqb RG s g (ctx_len cx)) as [[e s'] g']. simpl. apply H1.
    + pose proof (cf_predict_exp_ok N aeqb RG s g (ctx_len cx) Hrng H) as H1.
      destruct (cf_predict_exp N aeqb RG s g (ctx_len cx)) as [[e s'] g']. simpl. apply H1.
  - pose proof (lin_expectations_ok N aeqb RG aeqb_spec s g (octx cx) Hrng H) as H1.
    destruct (lin_expectations N aeqb RG s g (octx cx)) as [[e s'] g']. simpl. apply H1.
  - destruct (nbr_predict N aeqb RG s g (octx cx) (o_knn orc) (o_sizes orc) p). exact H.
  - destruct (clu_predict N aeqb RG s g (octx cx) (o_assign orc) (o_sizes orc) p). exact H.
  - destruct (tree_predict N aeqb RG s g (o_leaf orc) (octx cx) p). exact H.
Qed.

(* every facade call preserves the invariant of whatever implementation the bandit has *)
Theorem step_preserves_imp_inv (m : mab) (o : op) :
  rng_lengths_ok RG -> imp_inv (m_imp m) -> imp_inv (m_imp (fst (step N aeqb RG m o))).
Proof.
  intros Hrng Hinv.
  destruct o as [ds rs cx orc | ds rs cx orc | a bz | a | keys raw q | cx orc | cx orc]; unfold step.
  - destruct (fit_args_ok N m ds rs cx); [|exact Hinv]. destruct (negb _); [exact Hinv|].
    pose proof (imp_fit_inv (m_imp m) (m_rng m) ds rs cx orc Hinv) as H.
    destruct (imp_fit N aeqb RG (m_imp m) (m_rng m) ds rs cx orc) as [[i' g'] ok]. destruct ok; exact H.
  - destruct (fit_args_ok N m ds rs cx); [|exact Hinv]. destruct (negb _); [exact Hinv|].
    destruct (m_fitted m).
    + pose proof (imp_partial_fit_inv (m_imp m) (m_rng m) ds rs cx orc Hinv) as H.
      destruct (imp_partial_fit N aeqb (m_imp m) (m_rng m) ds rs cx orc) as [[i' g'] ok]. exact H.
    + pose proof (imp_fit_inv (m_imp m) (m_rng m) ds rs cx orc Hinv) as H.
      destruct (imp_fit N aeqb RG (m_imp m) (m_rng m) ds rs cx orc) as [[i' g'] ok]. destruct ok; exact H.
  - destruct (match bz with Some _ => negb (binz_allowed (m_imp m)) | None => false end); [exact Hinv|].
    destruct (amem aeqb a (m_arms m)) eqn:Em; [exact Hinv|]. simpl.
    apply imp_add_arm_inv; [exact Hinv|]. apply (amem_false aeqb aeqb_spec) in Em. exact Em.
  - destruct (amem aeqb a (m_arms m)); [|exact Hinv]. simpl. apply imp_remove_arm_inv; exact Hinv.
  - destruct (negb _); [exact Hinv|]. destruct (negb _); [exact Hinv|].
    destruct (m_imp m) as [s|s|s|s|s] eqn:Ei; try exact Hinv.
    + destruct (cf_warm_start N aeqb s keys raw q) as [s'|] eqn:Ew; simpl; [|rewrite Ei; exact Hinv].
      apply (cf_warm_start_keys_ok N aeqb aeqb_spec s s' keys raw q Hinv Ew).
    + destruct (lin_warm_start N aeqb s (m_rng m) keys raw q) as [s'|] eqn:Ew; simpl; [|rewrite Ei; exact Hinv].
      apply (lin_warm_start_keys_ok N aeqb aeqb_spec s s' (m_rng m) keys raw q Hinv Ew).
    + simpl. rewrite Ei. exact Hinv.
    + simpl. rewrite Ei. exact Hinv.
    + simpl. rewrite Ei. exact Hinv.
  - destruct (negb (m_fitted m)); [exact Hinv|]. destruct (negb (predict_args_ok m cx)); [exact Hinv|].
    pose proof (imp_query_inv (m_imp m) (m_rng m) cx orc true Hrng Hinv) as H.
    destruct (imp_query N aeqb RG (m_imp m) (m_rng m) cx orc true) as [[r i'] g']. destruct r; exact H.
  - destruct (negb (m_fitted m)); [exact Hinv|]. destruct (negb (predict_args_ok m cx)); [exact Hinv|].
    pose proof (imp_query_inv (m_imp m) (m_rng m) cx orc false Hrng Hinv) as H.
    destruct (imp_query N aeqb RG (m_imp m) (m_rng m) cx orc false) as [[r i'] g']. destruct r; exact H.
Qed.

Theorem run_preserves_imp_inv (ops : list op) (m : mab) :
  rng_lengths_ok RG -> imp_inv (m_imp m) -> imp_inv (m_imp (state_after N aeqb RG m ops)).
Proof.
  intros Hrng. revert m. induction ops as [|o t IH]; intros m Hi; unfold state_after; simpl; [auto|].
  pose proof (step_preserves_imp_inv m o Hrng Hi) as Hi1.
  destruct (step N aeqb RG m o) as [m1 r] eqn:Es. simpl in *.
  specialize (IH m1 Hi1). unfold state_after in IH.
  destruct (run N aeqb RG m1 t) as [m2 rs]. simpl in *. exact IH.
Qed.

(* the arm list is duplicate free in every reachable state *)
Corollary arms_nodup_on_every_history (ops : list op) (m : mab) :
  rng_lengths_ok RG -> imp_inv (m_imp m) -> NoDup (m_arms (state_after N aeqb RG m ops)).
Proof. intros H1 H2. apply imp_inv_nodup. apply run_preserves_imp_inv; assumption. Qed.

(* ---- the range of every answer ------------------------------------------------------------------- *)
Definition out_range (arms : list A) (o : out) : Prop :=
  match o with
  | ODone | ORejected => True
  | OArm a => arms <> [] -> exists x, a = Some x /\ In x arms
  | OArms l => arms <> [] -> Forall (fun a => exists x, a = Some x /\ In x arms) l
  | OExp d => map fst d = arms
  | OExps l => Forall (fun d => map fst d = arms) l
  end.

Lemma shape_arms_range arms (l : list (option A + list (A * option R))) :
  Forall (res_wf arms true) l -> out_range arms (shape_arms (lefts l)).
Proof.
  intros Hf.
  assert (H : arms <> [] -> Forall (fun a => exists x, a = Some x /\ In x arms) (lefts l)).
  { intros Hne. unfold lefts. apply Forall_forall. intros a Ha. apply in_map_iff in Ha. destruct Ha as [r [Er Hr]].
    rewrite Forall_forall in Hf. specialize (Hf r Hr). destruct r as [a0|d]; simpl in Hf.
    - subst a. apply Hf. exact Hne.
    - destruct Hf as [Hf _]. discriminate. }
  unfold shape_arms. revert H. destruct (lefts l) as [|a [|a2 t]]; intros H; simpl; auto.
  intros Hne. specialize (H Hne). inversion H; subst; assumption.
Qed.

Lemma shape_exps_range arms (l : list (option A + list (A * option R))) :
  Forall (res_wf arms false) l -> out_range arms (shape_exps (rights l)).
Proof.
  intros Hf.
  assert (H : Forall (fun d => map fst d = arms) (rights l)).
  { unfold rights. apply Forall_forall. intros d Hd. apply in_map_iff in Hd. destruct Hd as [r [Er Hr]].
    rewrite Forall_forall in Hf. specialize (Hf r Hr). destruct r as [a0|d0]; simpl in Hf.
    - destruct Hf as [Hf _]. discriminate.
    - subst d. apply Hf. }
  unfold shape_exps. revert H. destruct (rights l) as [|d [|d2 t]]; intros H; simpl; auto.
  inversion H; subst; auto.
Qed.

Lemma imp_query_range (i : imp) g cx orc p l :
  rng_lengths_ok RG -> rng_index_ok RG -> imp_inv i ->
  fst (fst (imp_query N aeqb RG i g cx orc p)) = Some l -> Forall (res_wf (imp_arms i) p) l.
Proof.
  intros Hrng Hidx. destruct i as [s|s|s|s|s]; simpl; intros H.
  - pose proof (cf_predict_exp_ok N aeqb RG s g (ctx_len cx) Hrng H) as H1. destruct p.
    + unfold cf_predict. destruct (cf_predict_exp N aeqb RG s g (ctx_len cx)) as [[e s'] g']. simpl.
      destruct H1 as (Hk & _). intros E; injection E as <-. apply Forall_forall. intros r Hr.
      apply in_map_iff in Hr. destruct Hr as [a [<- Ha]]. apply in_map_iff in Ha. destruct Ha as [d [<- Hd]].
      simpl. split; [reflexivity|]. intros Hne. rewrite Forall_forall in Hk. specialize (Hk d Hd).
      assert (Hd' : d <> []) by (intros E; subst d; simpl in Hk; apply Hne; symmetry; exact Hk).
      destruct (argmax_first_in N d Hd') as [x [Hx1 Hx2]]. exists x. rewrite Hk in Hx2. auto.
    + destruct (cf_predict_exp N aeqb RG s g (ctx_len cx)) as [[e s'] g']. simpl.
      destruct H1 as (Hk & _). intros E; injection E as <-. apply Forall_forall. intros r Hr.
      apply in_map_iff in Hr. destruct Hr as [d [<- Hd]]. simpl. split; [reflexivity|].
      unfold some_exp. rewrite map_map. simpl. rewrite Forall_forall in Hk. apply (Hk d Hd).
  - pose proof (lin_expectations_ok N aeqb RG aeqb_spec s g (octx cx) Hrng H) as H1.
    destruct (lin_expectations N aeqb RG s g (octx cx)) as [[e s'] g']. simpl.
    destruct H1 as (Hk & _). intros E; injection E as <-. apply Forall_forall. intros r Hr.
    apply in_map_iff in Hr. destruct Hr as [d [<- Hd]]. rewrite Forall_forall in Hk. specialize (Hk d Hd).
    destruct p; simpl; (split; [reflexivity|]).
    + intros Hne. assert (Hd' : d <> []) by (intros E; subst d; simpl in Hk; apply Hne; symmetry; exact Hk).
      destruct (argmax_first_in N d Hd') as [x [Hx1 Hx2]]. exists x. rewrite Hk in Hx2. auto.
    + unfold some_exp. rewrite map_map. simpl. exact Hk.
  - pose proof (nbr_predict_wf N aeqb RG aeqb_spec s g (octx cx) (o_knn orc) (o_sizes orc) p l Hrng Hidx H) as H1.
    destruct (nbr_predict N aeqb RG s g (octx cx) (o_knn orc) (o_sizes orc) p) as [r g']. simpl in *.
    intros E. apply H1. exact E.
  - pose proof (clu_predict_wf N aeqb RG aeqb_spec s g (octx cx) (o_assign orc) (o_sizes orc) p Hrng H) as H1.
    destruct (clu_predict N aeqb RG s g (octx cx) (o_assign orc) (o_sizes orc) p) as [r g']. simpl in *.
    intros E; injection E as <-. exact H1.
  - pose proof (tree_predict_wf N aeqb RG aeqb_spec s g (o_leaf orc) (octx cx) p Hidx H) as [H1 _].
    destruct (tree_predict N aeqb RG s g (o_leaf orc) (octx cx) p) as [r g']. simpl in *.
    intros E; injection E as <-. exact H1.
Qed.

(* C08, all policy combinations: whatever predict / predict_expectations return in a state satisfying the
   invariant ranges over exactly the current arms (keys in arm-list order), and the arm list is unchanged *)
Theorem all_query_outputs_range (m : mab) cx orc :
  rng_lengths_ok RG -> rng_index_ok RG -> imp_inv (m_imp m) ->
  out_range (m_arms m) (snd (step N aeqb RG m (Predict cx orc))) /\
  out_range (m_arms m) (snd (step N aeqb RG m (PredictExp cx orc))).
Proof.
  intros Hrng Hidx Hinv. unfold step, m_arms.
  destruct (negb (m_fitted m)); [simpl; auto|]. destruct (negb (predict_args_ok m cx)); [simpl; auto|].
  split.
  - pose proof (fun l => imp_query_range (m_imp m) (m_rng m) cx orc true l Hrng Hidx Hinv) as H.
    destruct (imp_query N aeqb RG (m_imp m) (m_rng m) cx orc true) as [[r i'] g']. simpl in H.
    destruct r as [l|]; simpl; [|exact I]. apply shape_arms_range. apply H. reflexivity.
  - pose proof (fun l => imp_query_range (m_imp m) (m_rng m) cx orc false l Hrng Hidx Hinv) as H.
    destruct (imp_query N aeqb RG (m_imp m) (m_rng m) cx orc false) as [[r i'] g']. simpl in H.
    destruct r as [l|]; simpl; [|exact I]. apply shape_exps_range. apply H. reflexivity.
Qed.

End FacadeAll.
