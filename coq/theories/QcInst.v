(* QcInst.v — a concrete instance used only for non-vacuity Examples and in-Coq evaluation:
   arms are Z, numbers are exact rationals, the generator is a counter that answers every
   request with the right number of values (1/2, 1/3, ... ; integers 0,1,2,...). *)
From Coq Require Import ZArith List Bool QArith Qcanon Lia.
From MW Require Import Num Assoc Rng CF CFInv.
Import ListNotations.

Definition zeqb_spec : forall x y : Z, Z.eqb x y = true <-> x = y := Z.eqb_eq.

Definition qc_frac (k : nat) : Qc := Q2Qc (1 # Pos.of_nat (S (S k))).

Definition toy_vals (g : nat) (n : nat) : list Qc := map (fun i => qc_frac (g + i)) (seq 0 n).

Definition toy_size (r : req Qc) : nat :=
  match r with
  | RqRand shape => fold_left Nat.mul shape 1%nat
  | RqRandint _ size => size
  | RqRandint2 _ _ => 1%nat
  | RqBeta _ _ size => size
  | RqDirichlet alpha size => (size * length alpha)%nat
  | RqChoice _ _ => 1%nat
  | RqStdNormal r c => (r * c)%nat
  | RqMvn mean _ size => (size * length mean)%nat
  end.

(* integer answers stay inside the requested range *)
Definition toy_int (r : req Qc) (v : Z) : Z :=
  match r with
  | RqChoice n _ => (v mod Z.of_nat n)%Z
  | RqRandint2 lo hi => (lo + v mod (hi - lo))%Z
  | RqRandint high _ => (v mod high)%Z
  | _ => v
  end.

Definition ToyRng : RngOps Qc nat := {|
  draw_r := fun g r => (toy_vals g (toy_size r), S g);
  draw_z := fun g r => (map (fun i => toy_int r (Z.of_nat (g + i))) (seq 0 (toy_size r)), S g);
  create := fun z => Z.to_nat z
|}.

Lemma toy_rng_lengths_ok : rng_lengths_ok ToyRng.
Proof.
  intros g. repeat split; intros; simpl; unfold toy_vals; rewrite map_length, seq_length; reflexivity.
Qed.
