(* Num.v — the number structure the whole model is parametric in.
   Two instances are used: exact rationals (QcNum, here) for theorems that need
   algebra and for in-Coq evaluation, and native binary64 (built only in the OCaml
   driver) for the bit-exact correspondence with the Python implementation. *)
From Coq Require Import ZArith List QArith Qcanon Qround Bool.
Import ListNotations.

Record Num (R : Type) : Type := mkNum {
  zero : R; one : R;
  add : R -> R -> R; sub : R -> R -> R; mul : R -> R -> R; div : R -> R -> R;
  of_Z : Z -> R;
  sqrt : R -> R; ln : R -> R; exp : R -> R;
  leb : R -> R -> bool; ltb : R -> R -> bool; eqb : R -> R -> bool;
  nsum : list R -> R;       (* numpy's float64 add-reduce (ndarray.sum) *)
  psum : list R -> R;       (* Python >= 3.12 builtin sum() over exact floats (Neumaier compensated) *)
  eps_mach : R;             (* np.finfo(float).eps *)
  floor_nat : R -> nat      (* int(floor x)) for x >= 0; used by the quantile index only *)
}.

Arguments zero {R}. Arguments one {R}. Arguments add {R}. Arguments sub {R}.
Arguments mul {R}. Arguments div {R}. Arguments of_Z {R}. Arguments sqrt {R}.
Arguments ln {R}. Arguments exp {R}. Arguments leb {R}. Arguments ltb {R}.
Arguments eqb {R}. Arguments nsum {R}. Arguments psum {R}. Arguments eps_mach {R}. Arguments floor_nat {R}.

(* Python's builtin sum() over values that are not exact Python floats (numpy scalars,
   ints): a plain left fold that starts from 0 *)
Definition pysum {R} (N : Num R) (l : list R) : R := fold_left (add N) l (zero N).

(* ---- exact rational instance ------------------------------------------------ *)
Definition Qc_leb (a b : Qc) : bool := Qle_bool a b.
Definition Qc_ltb (a b : Qc) : bool := negb (Qle_bool b a).
Definition Qc_eqb (a b : Qc) : bool := Qeq_bool a b.
Definition Qc_of_Z (z : Z) : Qc := Q2Qc (inject_Z z).
Definition Qc_floor_nat (a : Qc) : nat := Z.to_nat (Qfloor a).

(* sqrt/ln/exp are uninterpreted in every theorem; for evaluation inside Coq they are
   given harmless total stand-ins (identity).  No theorem depends on these choices. *)
Definition QcNum : Num Qc := {|
  zero := 0%Qc; one := 1%Qc;
  add := Qcplus; sub := Qcminus; mul := Qcmult; div := Qcdiv;
  of_Z := Qc_of_Z;
  sqrt := fun x => x; ln := fun x => x; exp := fun x => x;
  leb := Qc_leb; ltb := Qc_ltb; eqb := Qc_eqb;
  nsum := fun l => fold_right Qcplus 0%Qc l;
  psum := fun l => fold_left Qcplus l 0%Qc;
  eps_mach := 0%Qc;
  floor_nat := Qc_floor_nat |}.
