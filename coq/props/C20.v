(*  C20 — Results are invariant to arm names and to the order of training rows.
   
    PROVED:
     * RENAMING, every policy combination, every history (run_respects_renaming / renamed_run_returns_renamed_results): the
       model is parametric in the label type and touches labels only through the equality test, so the relational-parametricity
       translation of [run] (Paramcoq; the generated term is checked by the kernel) relates the runs of any two bandits whose
       states and calls are related by a renaming f with beqb (f x) (f y) = aeqb x y: each call is accepted or rejected alike,
       every prediction is f of the original prediction, every expectation dictionary has the keys renamed by f in the same
       order with EQUAL values (bit-for-bit: the number structure is related by equality), and the final states are related;
     * renaming (specification level): for every renaming f of the arms under which label equality is preserved (every injection), the
       renamed arm sees, in the renamed history, exactly the reward batches the original arm sees - so by the
       closed forms of C01 every statistic is unchanged (structural: holds bit-for-bit);
     * row order (exact arithmetic): permuting the rows of a batch leaves the sum and the number of rewards of
       every arm unchanged;
     * shift law (exact arithmetic): adding c to every reward of a non-empty list shifts its mean by exactly c
       (EpsilonGreedy exploit value; UCB1 adds a bonus that does not depend on the rewards; Softmax subtracts the
       maximal mean, so the shift cancels).
    ..._partial: LinGreedy's scale law and Radius/LSH row-order invariance are checked by the transformed-twin
    relation on the implementation. *)
From Coq Require Import List ZArith Bool Arith QArith Qcanon Permutation.
From MW Require Import Num Assoc AssocFacts Rng Par CF CFInv CFClean CFForget CFSpec Matrix Lin Warm WarmInv Nbr NbrFacts NbrIndep LshFacts Clu Tree CellFacts Mab FacadeCF FacadeArms MoreFacts NumLaws CFAlg Sim Extra QcInst OrderFacts ExpIrrel LinInv FacadeLin LpInv NbrInv CluTreeInv FacadeAll ToyFacts C09All C10All LinForget LinSim MatrixFacts GaussJordan LinSpec NbrIndepGen CluIndep C17Lin WarmIdem C14More LshScale TreeLeaf Rename.
Import ListNotations.

Theorem C20_renamed_arm_sees_the_same_reward_batches :
  forall (R A B : Type) (aeqb : A -> A -> bool) (beqb : B -> B -> bool) (f : A -> B),
  (forall x y : A, beqb (f x) (f y) = aeqb x y) ->
  forall (rops : list (@cfop R A)) (a : A),
  batches_rev beqb (map (relabel_op f) rops) (f a) = batches_rev aeqb rops a.
Proof. exact @batches_relabel. Qed.
Print Assumptions C20_renamed_arm_sees_the_same_reward_batches.

Theorem C20_row_order_irrelevant_partial :
  forall (R A : Type) (N : Num R),
  NumLaws N ->
  forall (aeqb : A -> A -> bool) (a : A) (rows rows' : list (A * R)),
  Permutation rows rows' ->
  nsum N (arm_rewards aeqb a (map fst rows) (map snd rows)) =
  nsum N (arm_rewards aeqb a (map fst rows') (map snd rows')) /\
  length (arm_rewards aeqb a (map fst rows) (map snd rows)) =
  length (arm_rewards aeqb a (map fst rows') (map snd rows')).
Proof. exact @row_order_irrelevant. Qed.
Print Assumptions C20_row_order_irrelevant_partial.

Theorem C20_mean_shift_law :
  forall (R : Type) (N : Num R),
  NumLaws N ->
  forall (l : list R) (c : R),
  l <> [] ->
  div N (nsum N (map (fun r : R => add N r c) l)) (of_Z N (Z.of_nat (length l))) =
  add N (div N (nsum N l) (of_Z N (Z.of_nat (length l)))) c.
Proof. exact @mean_shift. Qed.
Print Assumptions C20_mean_shift_law.


Theorem C20_renamed_runs_are_related_every_policy_combination :
  forall (R A B G : Type) (N : Num R) (aeqb : A -> A -> bool) (beqb : B -> B -> bool) (RG : RngOps R G) (f : A -> B),
  (forall x y : A, beqb (f x) (f y) = aeqb x y) ->
  forall (m1 : @mab R A G) (m2 : @mab R B G) (ops1 : list (@op R A)) (ops2 : list (@op R B)),
  mab_R R R eq A B (renamed f) G G eq m1 m2 ->
  list_R _ _ (op_R R R eq A B (renamed f)) ops1 ops2 ->
  prod_R _ _ (mab_R R R eq A B (renamed f) G G eq) _ _ (list_R _ _ (out_R R R eq A B (renamed f)))
         (run N aeqb RG m1 ops1) (run N beqb RG m2 ops2).
Proof. exact @run_respects_renaming. Qed.
Print Assumptions C20_renamed_runs_are_related_every_policy_combination.

Theorem C20_renamed_run_returns_renamed_results :
  forall (R A B G : Type) (N : Num R) (aeqb : A -> A -> bool) (beqb : B -> B -> bool) (RG : RngOps R G) (f : A -> B),
  (forall x y : A, beqb (f x) (f y) = aeqb x y) ->
  forall (m1 : @mab R A G) (m2 : @mab R B G) (ops1 : list (@op R A)) (ops2 : list (@op R B)),
  mab_R R R eq A B (renamed f) G G eq m1 m2 ->
  list_R _ _ (op_R R R eq A B (renamed f)) ops1 ops2 ->
  snd (run N beqb RG m2 ops2) = map (out_rename f) (snd (run N aeqb RG m1 ops1)).
Proof. exact @renamed_run_returns_renamed_results. Qed.
Print Assumptions C20_renamed_run_returns_renamed_results.

Theorem C20_related_outputs_are_renamed_outputs :
  forall (R A B : Type) (f : A -> B) (o1 : @out R A) (o2 : @out R B),
  out_R R R eq A B (renamed f) o1 o2 -> o2 = out_rename f o1.
Proof. exact @related_outputs_are_renamed_outputs. Qed.
Print Assumptions C20_related_outputs_are_renamed_outputs.

(* non-vacuity of the renaming theorem: related inputs exist (a UCB1 bandit, arms renamed by z -> z + 100) and the renamed
   run returns the renamed results *)
Definition rn (z : Z) : Z := (z + 100)%Z.
Lemma rn_eqb x y : Z.eqb (rn x) (rn y) = Z.eqb x y.
Proof. unfold rn. destruct (Z.eqb_spec x y) as [E|E]; destruct (Z.eqb_spec (x + 100) (y + 100)) as [E2|E2]; try reflexivity.
  - subst; contradiction.
  - exfalso; apply E. apply (proj1 (Z.add_cancel_r x y 100%Z) E2). Qed.
Definition rx_orc : @oracle Qc Z := mkOracle [] [] [] (fun _ _ => 0%nat) [].
Definition rx_m1 : @mab Qc Z nat := {| m_imp := ICf (cf_init QcNum KUcb 1%Qc None [3; 1; 2]%Z); m_fitted := false; m_rng := 0%nat |}.
Definition rx_m2 : @mab Qc Z nat := {| m_imp := ICf (cf_init QcNum KUcb 1%Qc None [103; 101; 102]%Z); m_fitted := false; m_rng := 0%nat |}.
Definition rx_ops1 : list (@op Qc Z) := [Fit [3; 1; 1]%Z [1%Qc; 0%Qc; 1%Qc] None rx_orc; AddArm 7%Z None; Predict None rx_orc; PredictExp None rx_orc].
Definition rx_ops2 : list (@op Qc Z) := [Fit [103; 101; 101]%Z [1%Qc; 0%Qc; 1%Qc] None rx_orc; AddArm 107%Z None; Predict None rx_orc; PredictExp None rx_orc].
Ltac rel := repeat (first [reflexivity | (unfold renamed, rn; reflexivity) | apply nat_R_refl | apply Z_R_refl | apply bool_R_refl | constructor | (intros; apply nat_R_refl)]).
Example C20_related_inputs_exist :
  (mab_R Qc Qc eq Z Z (renamed rn) nat nat eq rx_m1 rx_m2 * list_R _ _ (op_R Qc Qc eq Z Z (renamed rn)) rx_ops1 rx_ops2)%type.
Proof. split; unfold rx_m1, rx_m2, rx_ops1, rx_ops2, rx_orc, cf_init; simpl; rel. Qed.
Example C20_renamed_run :
  snd (run QcNum Z.eqb ToyRng rx_m2 rx_ops2) = map (out_rename rn) (snd (run QcNum Z.eqb ToyRng rx_m1 rx_ops1)) /\
  nth 2 (snd (run QcNum Z.eqb ToyRng rx_m2 rx_ops2)) ODone = OArm (Some 103%Z).
Proof. split; [apply (renamed_run_returns_renamed_results QcNum Z.eqb Z.eqb ToyRng rn rn_eqb); apply C20_related_inputs_exist | vm_compute; reflexivity]. Qed.

