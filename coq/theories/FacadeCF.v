(* FacadeCF.v — invariants and output well-formedness of the public facade for bandits with a
   context-free learning policy and no neighbourhood policy, for every history. *)
From Coq Require Import ZArith List Bool Lia.
From MW Require Import Num Assoc AssocFacts Rng CF CFInv CFClean CFForget Matrix Lin Warm WarmInv Nbr Clu Tree Mab.
Import ListNotations.

Section FacadeCF.
Context {R A G : Type} (N : Num R) (aeqb : A -> A -> bool) (RG : RngOps R G).
Hypothesis aeqb_spec : forall x y, aeqb x y = true <-> x = y.

Notation cf := (@cf R A).
Notation mab := (@mab R A G).
Notation op := (@op R A).
Notation out := (@out R A).

Definition cf_inv (s : cf) : Prop := keys_ok s /\ clean N s.

Definition is_cf (m : mab) : Prop := exists s, m_imp m = ICf s.

Definition mab_inv (m : mab) : Prop :=
  match m_imp m with ICf s => cf_inv s | _ => True end.

Lemma cf_predict_exp_clean (s : cf) g m :
  clean N s -> let '(_, s', _) := cf_predict_exp N aeqb RG s g m in clean N s'.
Proof.
  intros Hc. unfold cf_predict_exp.
  destruct (c_kind s) eqn:Ek;
    repeat match goal with
           | |- context [draw_r RG ?g ?r] => destruct (draw_r RG g r)
           | |- context [draw_scalars N RG ?g ?n] => destruct (draw_scalars N RG g n)
           | |- context [draw_betas N aeqb RG ?g ?a ?b ?c] => destruct (draw_betas N aeqb RG g a b c)
           | |- context [if ?b then _ else _] => destruct b
           end; try exact Hc.
  apply clean_set_exp; [rewrite Ek; discriminate | exact Hc].
Qed.

Theorem step_preserves_inv (m : mab) (o : op) :
  rng_lengths_ok RG -> is_cf m -> mab_inv m -> is_cf (fst (step N aeqb RG m o)) /\ mab_inv (fst (step N aeqb RG m o)).
Proof.
  intros Hrng [s Es] Hinv. unfold mab_inv in Hinv. rewrite Es in Hinv. destruct Hinv as [Hk Hc].
  assert (Hsame : is_cf m /\ mab_inv m) by (split; [exists s; exact Es | unfold mab_inv; rewrite Es; split; assumption]).
  destruct o as [ds rs cx orc | ds rs cx orc | a bz | a | keys raw q | cx orc | cx orc]; unfold step.
  - (* fit *)
    destruct (fit_args_ok N m ds rs cx); [|exact Hsame].
    unfold imp_fit; rewrite Es; simpl.
    split; [eexists; reflexivity|]. unfold mab_inv; simpl. split; [apply cf_fit_keys_ok | apply cf_fit_clean]; assumption.
  - (* partial_fit *)
    destruct (fit_args_ok N m ds rs cx); [|exact Hsame].
    destruct (m_fitted m); unfold imp_fit, imp_partial_fit; rewrite Es; simpl;
      (split; [eexists; reflexivity|]); unfold mab_inv; simpl.
    + split; [apply cf_partial_fit_keys_ok | apply cf_partial_fit_clean]; assumption.
    + split; [apply cf_fit_keys_ok | apply cf_fit_clean]; assumption.
  - (* add_arm *)
    destruct (match bz with Some _ => negb (binz_allowed (m_imp m)) | None => false end); [exact Hsame|].
    destruct (amem aeqb a (m_arms m)) eqn:Em; [exact Hsame|].
    unfold imp_add_arm; rewrite Es; simpl.
    split; [eexists; reflexivity|]. unfold mab_inv; simpl.
    apply (amem_false aeqb aeqb_spec) in Em. unfold m_arms in Em. rewrite Es in Em. simpl in Em.
    split; [apply (cf_add_arm_keys_ok N aeqb aeqb_spec s a bz Hk Em) | apply cf_add_arm_clean; exact Hc].
  - (* remove_arm *)
    destruct (amem aeqb a (m_arms m)); [|exact Hsame].
    unfold imp_remove_arm; rewrite Es; simpl.
    split; [eexists; reflexivity|]. unfold mab_inv; simpl.
    split; [apply (cf_remove_arm_keys_ok N aeqb s a Hk) | apply cf_remove_arm_clean; exact Hc].
  - (* warm_start *)
    destruct (negb _); [exact Hsame|]. destruct (negb _); [exact Hsame|].
    rewrite Es. destruct (cf_warm_start N aeqb s keys raw q) as [s'|] eqn:Ew; [|exact Hsame].
    simpl. split; [eexists; reflexivity|]. unfold mab_inv; simpl.
    split; [apply (cf_warm_start_keys_ok N aeqb aeqb_spec s s' keys raw q Hk Ew) | apply (cf_warm_start_clean N aeqb s s' keys raw q Hc Ew)].
  - (* predict *)
    destruct (negb (m_fitted m)); [exact Hsame|]. destruct (negb (predict_args_ok m cx)); [exact Hsame|].
    unfold imp_query; rewrite Es. unfold cf_predict.
    pose proof (cf_predict_exp_ok N aeqb RG s (m_rng m) (ctx_len cx) Hrng Hk) as H1.
    pose proof (cf_predict_exp_clean s (m_rng m) (ctx_len cx) Hc) as H2.
    destruct (cf_predict_exp N aeqb RG s (m_rng m) (ctx_len cx)) as [[e s'] g']. simpl.
    split; [eexists; reflexivity|]. unfold mab_inv; simpl. split; [apply H1 | exact H2].
  - (* predict_expectations *)
    destruct (negb (m_fitted m)); [exact Hsame|]. destruct (negb (predict_args_ok m cx)); [exact Hsame|].
    unfold imp_query; rewrite Es.
    pose proof (cf_predict_exp_ok N aeqb RG s (m_rng m) (ctx_len cx) Hrng Hk) as H1.
    pose proof (cf_predict_exp_clean s (m_rng m) (ctx_len cx) Hc) as H2.
    destruct (cf_predict_exp N aeqb RG s (m_rng m) (ctx_len cx)) as [[e s'] g']. simpl.
    split; [eexists; reflexivity|]. unfold mab_inv; simpl. split; [apply H1 | exact H2].
Qed.

(* every state reached by any history satisfies the invariant *)
Theorem run_preserves_inv (ops : list op) (m : mab) :
  rng_lengths_ok RG -> is_cf m -> mab_inv m ->
  is_cf (state_after N aeqb RG m ops) /\ mab_inv (state_after N aeqb RG m ops).
Proof.
  intros Hrng. revert m. induction ops as [|o t IH]; intros m Hc Hi; unfold state_after; simpl; [auto|].
  destruct (step_preserves_inv m o Hrng Hc Hi) as [Hc1 Hi1].
  destruct (step N aeqb RG m o) as [m1 r] eqn:Es. simpl in *.
  specialize (IH m1 Hc1 Hi1). unfold state_after in IH.
  destruct (run N aeqb RG m1 t) as [m2 rs]. simpl in *. exact IH.
Qed.

(* the constructor establishes the invariant *)
Lemma init_inv k hp bz arms g : NoDup arms -> mab_inv (mkMab (ICf (cf_init N k hp bz arms)) false g).
Proof. intros Hn. unfold mab_inv; simpl. split; [apply keys_ok_init; exact Hn | apply clean_init]. Qed.

(* ---- outputs ------------------------------------------------------------------------- *)
Lemma argmax_first_in (d : list (A * R)) : d <> [] -> exists a, argmax_first N d = Some a /\ In a (akeys d).
Proof.
  destruct d as [|h t]; [congruence|]. intros _. unfold argmax_first. eexists; split; [reflexivity|].
  assert (H : forall (l : list (A * R)) b, In (fst (fold_left (fun b kv => if ltb N (snd b) (snd kv) then kv else b) l b)) (akeys (b :: l))).
  { induction l as [|x l IH]; intros b; simpl; [left; reflexivity|].
    destruct (ltb N (snd b) (snd x)).
    - destruct (IH x) as [H1|H1]; simpl in *; [right; left; exact H1 | right; right; exact H1].
    - destruct (IH b) as [H1|H1]; simpl in *; [left; exact H1 | right; right; exact H1]. }
  apply H.
Qed.

Definition out_wf (arms : list A) (m : option nat) (o : out) : Prop :=
  match o with
  | ODone | ORejected => True
  | OArm a => out_len m = 1%nat /\ (arms <> [] -> exists x, a = Some x /\ In x arms)
  | OArms l => length l = out_len m /\ out_len m <> 1%nat /\ (arms <> [] -> Forall (fun a => exists x, a = Some x /\ In x arms) l)
  | OExp d => out_len m = 1%nat /\ map fst d = arms
  | OExps l => length l = out_len m /\ out_len m <> 1%nat /\ Forall (fun d => map fst d = arms) l
  end.

Lemma shape_exps_wf arms m (e : list (list (A * option R))) :
  length e = out_len m -> Forall (fun d => map fst d = arms) e -> out_wf arms m (shape_exps e).
Proof.
  intros Hl Hf. unfold shape_exps. destruct e as [|d [|d2 t]]; simpl in *.
  - repeat split; auto; lia.
  - inversion Hf; subst. split; auto.
  - repeat split; auto; lia.
Qed.

Lemma shape_arms_wf arms m (p : list (option A)) :
  length p = out_len m -> (arms <> [] -> Forall (fun a => exists x, a = Some x /\ In x arms) p) -> out_wf arms m (shape_arms p).
Proof.
  intros Hl Hf. unfold shape_arms. destruct p as [|a [|a2 t]]; simpl in *.
  - repeat split; auto; lia.
  - split; auto. intros Hne. specialize (Hf Hne). inversion Hf; subst; assumption.
  - repeat split; auto; lia.
Qed.

(* C08 for context-free bandits: what predict / predict_expectations return in any reachable state *)
Theorem query_outputs_wf (m : mab) (cx : option (list (list R))) orc :
  rng_lengths_ok RG -> is_cf m -> mab_inv m ->
  out_wf (m_arms m) (ctx_len cx) (snd (step N aeqb RG m (Predict cx orc))) /\
  out_wf (m_arms m) (ctx_len cx) (snd (step N aeqb RG m (PredictExp cx orc))) /\
  m_arms (fst (step N aeqb RG m (Predict cx orc))) = m_arms m /\
  m_arms (fst (step N aeqb RG m (PredictExp cx orc))) = m_arms m.
Proof.
  intros Hrng [s Es] Hinv. unfold mab_inv in Hinv. rewrite Es in Hinv. destruct Hinv as [Hk Hc].
  unfold step.
  destruct (negb (m_fitted m)); [simpl; auto|]. destruct (negb (predict_args_ok m cx)); [simpl; auto|].
  unfold imp_query; rewrite Es. unfold cf_predict.
  pose proof (cf_predict_exp_ok N aeqb RG s (m_rng m) (ctx_len cx) Hrng Hk) as H1.
  destruct (cf_predict_exp N aeqb RG s (m_rng m) (ctx_len cx)) as [[e s'] g']. simpl.
  destruct H1 as (Hkeys & Hlen & Hk' & Harms).
  unfold m_arms; rewrite Es; simpl.
  repeat split; try exact Harms.
  - apply shape_arms_wf.
    + unfold lefts. rewrite !map_length. exact Hlen.
    + intros Hne. unfold lefts. rewrite !map_map. simpl. apply Forall_forall. intros a Ha.
      apply in_map_iff in Ha. destruct Ha as [d [Ea Hd]]. subst a.
      rewrite Forall_forall in Hkeys. specialize (Hkeys d Hd).
      assert (Hd' : d <> []) by (intros E; subst d; simpl in Hkeys; apply Hne; symmetry; exact Hkeys).
      destruct (argmax_first_in d Hd') as [x [Hx1 Hx2]]. exists x. rewrite Hkeys in Hx2. auto.
  - apply shape_exps_wf.
    + unfold rights. rewrite !map_length. exact Hlen.
    + unfold rights. rewrite map_map. simpl. apply Forall_forall. intros d Hd.
      apply in_map_iff in Hd. destruct Hd as [d0 [Ed Hd0]]. subst d.
      unfold some_exp. rewrite map_map. simpl. rewrite Forall_forall in Hkeys. apply (Hkeys d0 Hd0).
Qed.


(* ---- C07 at the facade: fit on a used bandit = fit on a freshly constructed one ------------ *)
Definition mab_fresh (m : mab) : mab :=
  match m_imp m with
  | ICf s => mkMab (ICf (cf_fresh N s)) false (m_rng m)
  | _ => m
  end.

Definition imp_rel (i i' : @imp R A G) : Prop :=
  match i, i' with
  | ICf s, ICf s' => match c_kind s with KThompson => eq_mod_exp s' s | _ => s = s' end
  | _, _ => i = i'
  end.

Theorem fit_forgets_facade (m : mab) ds rs cx orc :
  is_cf m -> mab_inv m ->
  let r := step N aeqb RG m (Fit ds rs cx orc) in
  let r' := step N aeqb RG (mab_fresh m) (Fit ds rs cx orc) in
  snd r = snd r' /\
  (snd r = ODone -> imp_rel (m_imp (fst r)) (m_imp (fst r')) /\ m_fitted (fst r) = m_fitted (fst r') /\ m_rng (fst r) = m_rng (fst r')
                    /\ mab_cold_arms aeqb (fst r) = mab_cold_arms aeqb (fst r')).
Proof.
  intros [s Es] Hinv. unfold mab_inv in Hinv. rewrite Es in Hinv. destruct Hinv as [Hk Hc].
  unfold mab_fresh. rewrite Es. unfold step.
  assert (Ha : fit_args_ok N m ds rs cx = fit_args_ok N (mkMab (ICf (cf_fresh N s)) false (m_rng m)) ds rs cx).
  { unfold fit_args_ok, ts_needs_binary, is_contextual. rewrite Es. simpl. reflexivity. }
  rewrite <- Ha. destruct (fit_args_ok N m ds rs cx); [|simpl; split; [reflexivity | discriminate]].
  unfold train_shape_ok, imp_fit. rewrite Es. simpl.
  split; [reflexivity|]. intros _.
  pose proof (cf_fit_forgets N aeqb s ds rs Hk Hc) as Hf.
  assert (Ekf : c_kind (cf_fit N aeqb s ds rs) = c_kind s) by apply (cf_fit_cfg N aeqb s ds rs).
  repeat split.
  - unfold imp_rel. rewrite Ekf. destruct (c_kind s) eqn:Ek; try exact Hf.
    unfold eq_mod_exp. split.
    + rewrite Hf. reflexivity.
    + pose proof (cf_fit_keys_ok N aeqb aeqb_spec (cf_fresh N s) ds rs (fresh_keys_ok N s Hk)) as (_ & He' & _).
      pose proof (cf_fit_keys_ok N aeqb aeqb_spec s ds rs Hk) as (_ & He2 & _).
      rewrite He', He2.
      rewrite (proj2 (proj2 (proj2 (proj2 (cf_fit_cfg N aeqb (cf_fresh N s) ds rs))))).
      rewrite (proj2 (proj2 (proj2 (proj2 (cf_fit_cfg N aeqb s ds rs))))). reflexivity.
  - unfold mab_cold_arms; simpl. unfold cold_arms.
    destruct (c_kind s) eqn:Ek; rewrite Hf; try reflexivity.
Qed.

(* ---- C09 for context-free bandits: predict is the arg-max of what predict_expectations returns ---- *)
Definition out_argmax (o : out) : out :=
  match o with
  | OExp d => OArm (argmax_first N (flat_map (fun kv => match snd kv with Some v => [(fst kv, v)] | None => [] end) d))
  | OExps l => OArms (map (fun d => argmax_first N (flat_map (fun kv => match snd kv with Some v => [(fst kv, v)] | None => [] end) d)) l)
  | o' => o'
  end.

Lemma unsome_some_exp (d : list (A * R)) :
  flat_map (fun kv => match snd kv with Some v => [(fst kv, v)] | None => [] end) (some_exp d) = d.
Proof. unfold some_exp. induction d as [|[k v] t IH]; simpl; [reflexivity | rewrite IH; reflexivity]. Qed.

Theorem predict_is_argmax_of_expectations (m : mab) cx orc :
  is_cf m ->
  snd (step N aeqb RG m (Predict cx orc)) = out_argmax (snd (step N aeqb RG m (PredictExp cx orc))) /\
  fst (step N aeqb RG m (Predict cx orc)) = fst (step N aeqb RG m (PredictExp cx orc)).
Proof.
  intros [s Es]. unfold step.
  destruct (negb (m_fitted m)); [simpl; auto|]. destruct (negb (predict_args_ok m cx)); [simpl; auto|].
  unfold imp_query. rewrite Es. unfold cf_predict.
  destruct (cf_predict_exp N aeqb RG s (m_rng m) (ctx_len cx)) as [[e s'] g']. simpl.
  split; [|reflexivity].
  unfold lefts, rights, shape_arms, shape_exps. rewrite !map_map. simpl.
  destruct e as [|d [|d2 t]]; simpl; rewrite ?unsome_some_exp; try reflexivity.
  do 3 f_equal. rewrite map_map. apply map_ext. intros x. rewrite unsome_some_exp. reflexivity.
Qed.

(* ---- C10 for context-free bandits: a query changes nothing but the generator (and, for Thompson
        Sampling, the stored copy of the last sample, which no operation reads) -------------------- *)
Theorem query_keeps_model (m : mab) (s : cf) cx orc (is_p : bool) :
  rng_lengths_ok RG -> m_imp m = ICf s -> mab_inv m ->
  let o := if is_p then Predict cx orc else PredictExp cx orc in
  exists s', m_imp (fst (step N aeqb RG m o)) = ICf s' /\
             (c_kind s <> KThompson -> s' = s) /\ s' = set_exp s (c_exp s') /\ akeys (c_exp s') = c_arms s /\
             m_fitted (fst (step N aeqb RG m o)) = m_fitted m.
Proof.
  intros Hrng Es Hinv o. unfold mab_inv in Hinv. rewrite Es in Hinv. destruct Hinv as [Hk Hc].
  assert (Hid : s = set_exp s (c_exp s)) by (destruct s; reflexivity).
  pose proof Hk as (_ & He & _).
  assert (Hsame : exists s', @ICf R A G s = ICf s' /\ (c_kind s <> KThompson -> s' = s) /\ s' = set_exp s (c_exp s') /\ akeys (c_exp s') = c_arms s /\ m_fitted m = m_fitted m)
    by (exists s; repeat split; auto).
  assert (Hmain : forall g mm, let '(_, s', _) := cf_predict_exp N aeqb RG s g mm in
            (c_kind s <> KThompson -> s' = s) /\ s' = set_exp s (c_exp s') /\ akeys (c_exp s') = c_arms s).
  { intros g mm. pose proof (cf_predict_exp_ok N aeqb RG s g mm Hrng Hk) as Hok.
    unfold cf_predict_exp in *. destruct (c_kind s) eqn:Ek;
      repeat match goal with
             | |- context [draw_r RG ?g ?r] => destruct (draw_r RG g r)
             | |- context [draw_scalars N RG ?g ?n] => destruct (draw_scalars N RG g n)
             | |- context [draw_betas N aeqb RG ?g ?a ?b ?c] => destruct (draw_betas N aeqb RG g a b c)
             | |- context [if ?b then _ else _] => destruct b
             end; try (repeat split; auto; fail).
    destruct Hok as (_ & _ & (_ & He' & _) & _). simpl in *.
    split; [intros H; congruence|]. split; [reflexivity | exact He']. }
  subst o. destruct is_p; unfold step;
    (destruct (negb (m_fitted m)); [simpl; rewrite Es; exact Hsame|]);
    (destruct (negb (predict_args_ok m cx)); [simpl; rewrite Es; exact Hsame|]);
    unfold imp_query; rewrite Es; unfold cf_predict;
    specialize (Hmain (m_rng m) (ctx_len cx));
    destruct (cf_predict_exp N aeqb RG s (m_rng m) (ctx_len cx)) as [[e s'] g']; simpl;
    exists s'; destruct Hmain as (H1 & H2 & H3); repeat split; auto.
Qed.

End FacadeCF.
