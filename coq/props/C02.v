(*  C02 — Linear policies are exact per-arm ridge regressions with the stated bonus.
   
    PROVED (for every number structure, feature count d, batch, query size m):
     * init: A = lambda*I, X'y = 0, beta = A_inv.0;
     * fit / partial_fit of an arm: A accumulates X'X, X'y accumulates X'y, A_inv is the inverse the model
       computes for the new A (Gauss-Jordan with pivoting; None = LinAlgError) and beta = A_inv.X'y;
     * predict_expectations: x.beta (LinGreedy exploit value), x.beta + alpha*sqrt(sum((x.A_inv)*x)) (LinUCB),
       and for LinTS exactly one multivariate-normal request with mean beta and covariance alpha^2*A_inv and
       one sample per context row, read out as sum(x * sample) row by row - for every d and m.
     * REFUTED (finding D2): with the initialisation of the code, A_inv of an arm never observed is lambda*I,
       not I/lambda - witness lambda = 4 over the rationals.
    ..._partial: that the Gauss-Jordan result is the two-sided inverse, and the limit alpha -> 0 of the LinTS
    draw, are not proved (the first is validated by the ridge oracle numpy.linalg.solve on every run). *)
From Coq Require Import List ZArith Bool Arith QArith Qcanon Permutation.
From MW Require Import Num Assoc AssocFacts Rng Par CF CFInv CFClean CFForget CFSpec Matrix Lin Warm WarmInv Nbr NbrFacts NbrIndep LshFacts Clu Tree CellFacts Mab FacadeCF FacadeArms MoreFacts NumLaws CFAlg Sim Extra QcInst.
Import ListNotations.

Theorem C02_init_state :
  forall (R A G : Type) (N : Num R) (s : (@lin R A G)) (d : nat) (m : (@ridge R G)),
  let m' := ridge_init N s d m in
  r_A m' = mscale N (l_l2 s) (identity N d) /\
  r_Xty m' = zeros N d /\
  r_Ainv m' =
  (if l_kf_ainv s
   then mscale N (l_l2 s) (identity N d)
   else mscale N (div N (one N) (l_l2 s)) (identity N d)) /\
  r_beta m' = mat_vec N (r_Ainv m') (zeros N d).
Proof. exact @ridge_init_state. Qed.
Print Assumptions C02_init_state.

Theorem C02_fit_accumulates_normal_equations_partial :
  forall (R G : Type) (N : Num R) (d : nat) (m m' : (@ridge R G)) (x : (@mat R)) (y : (@vec R)),
  r_scaler m = None ->
  ridge_fit N d m x y = Some m' ->
  r_A m' = madd N (r_A m) (xtx N d x) /\
  r_Xty m' = vadd N (r_Xty m) (xty N d x y) /\
  inverse N d (r_A m') = Some (r_Ainv m') /\ r_beta m' = mat_vec N (r_Ainv m') (r_Xty m').
Proof. exact @ridge_fit_normal_equations. Qed.
Print Assumptions C02_fit_accumulates_normal_equations_partial.

Theorem C02_lingreedy_expectation :
  forall (R A G : Type) (N : Num R) (RG : RngOps R G) (s : (@lin R A G)) (m : (@ridge R G)) (g : G) (x : (@mat R)),
  l_kind s = RRidge ->
  r_scaler m = None ->
  ridge_predict N RG s m g x = (map (fun row : (@vec R) => dot N row (r_beta m)) x, m, g).
Proof. exact @lingreedy_expectation. Qed.
Print Assumptions C02_lingreedy_expectation.

Theorem C02_linucb_expectation :
  forall (R A G : Type) (N : Num R) (RG : RngOps R G) (s : (@lin R A G)) (m : (@ridge R G)) (g : G) (x : (@mat R)),
  l_kind s = RUcb ->
  r_scaler m = None ->
  ridge_predict N RG s m g x =
  (map
     (fun row : (@vec R) =>
      add N (dot N row (r_beta m))
        (mul N (l_alpha s)
           (sqrt N
              (nsum N
                 (map2 (mul N) (map (fun c : (@vec R) => dot N row c) (transpose N (length row) (r_Ainv m)))
                    row))))) x, m, g).
Proof. exact @linucb_expectation. Qed.
Print Assumptions C02_linucb_expectation.

Theorem C02_lints_request_and_linear_readout_partial :
  forall (R A G : Type) (N : Num R) (RG : RngOps R G) (s : (@lin R A G)) (m : (@ridge R G)) (g gm : G) (x : (@mat R)),
  l_kind s = RTs ->
  r_scaler m = None ->
  r_rng m = Some gm ->
  let cov := mscale N (mul N (l_alpha s) (l_alpha s)) (r_Ainv m) in
  let
  '(smp, _) := draw_r RG gm (RqMvn (r_beta m) cov (length x)) in
   fst (fst (ridge_predict N RG s m g x)) =
   map2 (fun row b : list R => nsum N (map2 (mul N) row b)) x
     (chunk_rows (length x) (length (r_beta m)) smp).
Proof. exact @lints_request_and_readout. Qed.
Print Assumptions C02_lints_request_and_linear_readout_partial.

(* finding D2, stated about the model that is faithful to the code: the covariance of a never-observed arm *)
Definition q (z : Z) : Qc := Q2Qc (inject_Z z).
Definition ex_lin (kf : bool) : @lin Qc Z nat := lin_init QcNum RUcb (q 1) (q 0) (q 4) false kf [1]%Z.
Theorem C02_unobserved_arm_covariance_refuted :
  r_Ainv (ridge_init QcNum (ex_lin true) 1 ridge_new) <> r_Ainv (ridge_init QcNum (ex_lin false) 1 ridge_new) /\
  r_Ainv (ridge_init QcNum (ex_lin true) 1 ridge_new) = [[q 4]].
Proof. split; [vm_compute; discriminate | vm_compute; reflexivity]. Qed.
Print Assumptions C02_unobserved_arm_covariance_refuted.

