(* LinInv.v — C08 for the linear policies: the per-arm dictionaries of _Linear always have exactly the current
   arms as keys (in arm-list order), whatever the history, and predict_expectations returns one dictionary per
   context row whose keys are the arms. *)
From Coq Require Import ZArith List Bool Arith Lia.
From MW Require Import Num Assoc AssocFacts Rng Par CF CFInv Matrix Lin Warm WarmInv.
Import ListNotations.

Section LinInv.
Context {R A G : Type} (N : Num R) (aeqb : A -> A -> bool) (RG : RngOps R G).
Hypothesis aeqb_spec : forall x y, aeqb x y = true <-> x = y.
Notation lin := (@lin R A G).

Definition lin_keys_ok (s : lin) : Prop :=
  NoDup (l_arms s) /\ akeys (l_exp s) = l_arms s /\ akeys (l_status s) = l_arms s /\ akeys (l_models s) = l_arms s.

Lemma lin_keys_ok_init k alpha eps l2 sc kf arms : NoDup arms -> lin_keys_ok (lin_init N k alpha eps l2 sc kf arms).
Proof. intros H. unfold lin_keys_ok, lin_init; simpl. repeat split; auto; apply akeys_afromkeys. Qed.

Definition lin_same_shape (s s' : lin) : Prop :=
  l_arms s' = l_arms s /\ akeys (l_exp s') = akeys (l_exp s) /\ akeys (l_status s') = akeys (l_status s) /\
  akeys (l_models s') = akeys (l_models s).

Lemma lin_shape_refl s : lin_same_shape s s. Proof. unfold lin_same_shape; auto. Qed.
Lemma lin_shape_trans s1 s2 s3 : lin_same_shape s1 s2 -> lin_same_shape s2 s3 -> lin_same_shape s1 s3.
Proof. unfold lin_same_shape; intros (a&b&c&d) (e&f&g&h); repeat split; congruence. Qed.
Lemma lin_keys_ok_shape s s' : lin_same_shape s s' -> lin_keys_ok s -> lin_keys_ok s'.
Proof. unfold lin_same_shape, lin_keys_ok; intros (a&b&c&d) (e&f&g&h); repeat split; congruence. Qed.

Lemma lin_fit_arm_shape (s s' : lin) g a ds rs cx :
  In a (akeys (l_models s)) -> lin_fit_arm N aeqb s g a ds rs cx = Some s' -> lin_same_shape s s'.
Proof.
  intros Hin. unfold lin_fit_arm. destruct (arm_rows aeqb a ds rs cx) as [x y].
  destruct x as [|r0 x']; [intros E; injection E as <-; apply lin_shape_refl|].
  destruct (negb _); [discriminate|].
  destruct (ridge_fit N _ _ _ _) as [m2|]; [|discriminate]. intros E; injection E as <-.
  unfold lin_same_shape; simpl. rewrite (akeys_aset_in aeqb aeqb_spec) by exact Hin. auto.
Qed.

Lemma lin_parallel_fit_shape (arms : list A) (s : lin) g ds rs cx :
  (forall a, In a arms -> In a (akeys (l_models s))) ->
  lin_same_shape s (fst (lin_parallel_fit N aeqb s g arms ds rs cx)).
Proof.
  revert s. induction arms as [|a t IH]; intros s H; simpl; [apply lin_shape_refl|].
  destruct (lin_fit_arm N aeqb s g a ds rs cx) as [s'|] eqn:E; [|simpl; apply lin_shape_refl].
  pose proof (lin_fit_arm_shape s s' g a ds rs cx (H a (or_introl eq_refl)) E) as Hs.
  eapply lin_shape_trans; [exact Hs|]. apply IH. intros b Hb. destruct Hs as (_ & _ & _ & Hm). rewrite Hm. apply H. right; exact Hb.
Qed.

Lemma lset_trained_shape (s : lin) ds p : lin_same_shape s (lset_trained aeqb s ds p).
Proof.
  unfold lset_trained, lin_same_shape; simpl. repeat split; auto.
  generalize (l_status s) as st. generalize (l_arms s) as arms.
  induction arms as [|a t IH]; intros st; simpl; [reflexivity|].
  rewrite IH. destruct (amem aeqb a ds); [|reflexivity].
  destruct (aget aeqb st a) eqn:E; [|reflexivity].
  apply (akeys_aset_in aeqb aeqb_spec). eapply aget_some_in; eauto.
Qed.

Theorem lin_fit_keys_ok (s : lin) g ds rs cx : lin_keys_ok s -> lin_keys_ok (fst (lin_fit N aeqb s g ds rs cx)).
Proof.
  intros (Hn & He & Hst & Hm). unfold lin_fit.
  set (s3 := set_lstatus _ _).
  assert (H3 : lin_keys_ok s3).
  { unfold s3, lin_keys_ok; simpl. repeat split; auto; [apply akeys_afromkeys | rewrite akeys_map_snd; exact Hm]. }
  pose proof (lin_parallel_fit_shape (l_arms s3) s3 g ds rs cx) as Hp.
  destruct (lin_parallel_fit N aeqb s3 g (l_arms s3) ds rs cx) as [s4 ok]. simpl in Hp.
  assert (H4 : lin_keys_ok s4).
  { eapply lin_keys_ok_shape; [apply Hp | exact H3]. intros a Ha. rewrite akeys_map_snd, Hm. exact Ha. }
  destruct ok; simpl; [eapply lin_keys_ok_shape; [apply lset_trained_shape | exact H4] | exact H4].
Qed.

Theorem lin_partial_fit_keys_ok (s : lin) g ds rs cx : lin_keys_ok s -> lin_keys_ok (fst (lin_partial_fit N aeqb s g ds rs cx)).
Proof.
  intros Hk. unfold lin_partial_fit.
  pose proof (lin_parallel_fit_shape (l_arms s) s g ds rs cx) as Hp.
  destruct (lin_parallel_fit N aeqb s g (l_arms s) ds rs cx) as [s4 ok]. simpl in Hp.
  assert (H4 : lin_keys_ok s4).
  { eapply lin_keys_ok_shape; [apply Hp | exact Hk]. intros a Ha. destruct Hk as (_ & _ & _ & Hm). rewrite Hm. exact Ha. }
  destruct ok; simpl; [eapply lin_keys_ok_shape; [apply lset_trained_shape | exact H4] | exact H4].
Qed.

Theorem lin_add_arm_keys_ok (s : lin) a : lin_keys_ok s -> ~ In a (l_arms s) -> lin_keys_ok (lin_add_arm N aeqb s a).
Proof.
  intros (Hn & He & Hst & Hm) Hnot. unfold lin_keys_ok, lin_add_arm; simpl.
  rewrite !(akeys_aset_notin aeqb aeqb_spec) by (rewrite ?He, ?Hst, ?Hm; exact Hnot).
  rewrite He, Hst, Hm. repeat split; auto. apply nodup_app_single; assumption.
Qed.

Theorem lin_remove_arm_keys_ok (s : lin) a : lin_keys_ok s -> lin_keys_ok (lin_remove_arm aeqb s a).
Proof.
  intros (Hn & He & Hst & Hm). unfold lin_keys_ok, lin_remove_arm; simpl.
  rewrite !akeys_apop, He, Hst, Hm. repeat split; auto. apply lremove_nodup; exact Hn.
Qed.

(* ---- predict_expectations --------------------------------------------------------------------------- *)
Lemma predict_arms_keys (s : lin) (arms : list A) ms g x :
  (forall a, In a arms -> In a (akeys ms)) ->
  let '(cols, ms', _) := predict_arms N aeqb RG s ms arms g x in
  akeys ms' = akeys ms /\ length cols = length arms.
Proof.
  revert ms g. induction arms as [|a t IH]; intros ms g H; simpl; [auto|].
  destruct (ridge_predict N RG s (aget_d aeqb ridge_new ms a) g x) as [[v m'] g1].
  assert (Hk : akeys (aset aeqb ms a m') = akeys ms) by (apply (akeys_aset_in aeqb aeqb_spec); apply H; left; reflexivity).
  specialize (IH (aset aeqb ms a m') g1). 
  destruct (predict_arms N aeqb RG s (aset aeqb ms a m') t g1 x) as [[rest ms'] g2].
  destruct IH as [I1 I2]; [intros b Hb; rewrite Hk; apply H; right; exact Hb|].
  simpl. split; [congruence | lia].
Qed.

Lemma merge_rows_length {T} (mask : list bool) (rnd det : list T) :
  length rnd = length (filter (fun b => b) mask) -> length det = length (filter (fun b => negb b) mask) ->
  length (merge_rows mask rnd det) = length mask.
Proof.
  revert rnd det. induction mask as [|b t IH]; intros rnd det H1 H2; simpl in *; [reflexivity|].
  destruct b; simpl in *.
  - destruct rnd as [|x r']; [discriminate|]. simpl. f_equal. apply IH; [simpl in H1; lia | exact H2].
  - destruct det as [|x d']; [discriminate|]. simpl. f_equal. apply IH; [exact H1 | simpl in H2; lia].
Qed.

Lemma merge_rows_forall {T} (P : T -> Prop) (mask : list bool) (rnd det : list T) :
  Forall P rnd -> Forall P det -> Forall P (merge_rows mask rnd det).
Proof.
  revert rnd det. induction mask as [|b t IH]; intros rnd det H1 H2; simpl; [constructor|].
  destruct b.
  - destruct rnd; [constructor|]. inversion H1; subst. constructor; [assumption | apply IH; assumption].
  - destruct det; [constructor|]. inversion H2; subst. constructor; [assumption | apply IH; assumption].
Qed.

Theorem lin_expectations_ok (s : lin) g (cx : mat (R:=R)) :
  rng_lengths_ok RG -> lin_keys_ok s ->
  let '(e, s', _) := lin_expectations N aeqb RG s g cx in
  Forall (fun d => akeys d = l_arms s) e /\ length e = length cx /\ lin_keys_ok s' /\ l_arms s' = l_arms s.
Proof.
  intros Hrng Hk. pose proof Hk as (Hn & He & Hst & Hm). unfold lin_expectations.
  destruct (Hrng g) as (Hr & _ & _). pose proof (Hr [length cx]) as Hl.
  destruct (draw_r RG g (RqRand [length cx])) as [rv g1]. simpl in Hl. unfold shape_size in Hl; simpl in Hl.
  set (mask := map (fun v => ltb N v (l_eps s)) rv).
  set (k := length (filter (fun b => b) mask)).
  destruct (Hrng g1) as (Hr1 & _ & _). pose proof (Hr1 [k; length (l_arms s)]) as Hl2.
  destruct (draw_r RG g1 (RqRand [k; length (l_arms s)])) as [rnd g2]. simpl in Hl2. unfold shape_size in Hl2; simpl in Hl2.
  set (det_cx := map snd (filter (fun bc => negb (fst bc)) (combine mask cx))).
  pose proof (predict_arms_keys s (l_arms s) (l_models s) g2 det_cx) as Hp.
  destruct (predict_arms N aeqb RG s (l_models s) (l_arms s) g2 det_cx) as [[percol ms'] g3].
  destruct Hp as [Hk' Hlen]; [intros a Ha; rewrite Hm; exact Ha|].
  assert (Hmask : length mask = length cx) by (unfold mask; rewrite map_length; lia).
  assert (Hdet : length det_cx = length (filter (fun b => negb b) mask)).
  { unfold det_cx. rewrite map_length. clear -Hmask. revert cx Hmask.
    induction mask as [|b t IH]; intros [|c cx] H; simpl in *; try discriminate; [reflexivity|].
    destruct b; simpl; [apply IH; lia | f_equal; apply IH; lia]. }
  split; [|split; [|split]].
  - apply Forall_forall. intros d Hd. apply in_map_iff in Hd. destruct Hd as [row [<- Hin]].
    apply akeys_combine.
    assert (Hall : Forall (fun r => length r = length (l_arms s))
              (merge_rows mask (chunk_rows k (length (l_arms s)) rnd)
                 (map (fun i => map (fun c => nth i c (zero N)) percol) (seq 0 (length det_cx))))).
    { apply merge_rows_forall.
      - apply chunk_rows_widths. lia.
      - apply Forall_forall. intros r Hr0. apply in_map_iff in Hr0. destruct Hr0 as [i [<- _]]. rewrite map_length. exact Hlen. }
    rewrite Forall_forall in Hall. apply Hall. exact Hin.
  - rewrite map_length. rewrite merge_rows_length; [exact Hmask | rewrite chunk_rows_length; reflexivity | rewrite map_length, seq_length; exact Hdet].
  - unfold lin_keys_ok; simpl. repeat split; auto. rewrite Hk'. exact Hm.
  - reflexivity.
Qed.

(* ---- warm_start ------------------------------------------------------------------------------------- *)
Lemma lin_fold_shape (f : lin -> A * A -> lin) (m : list (A * A)) (s : lin) :
  (forall t cw, In cw m -> l_arms t = l_arms s -> lin_keys_ok t -> lin_same_shape t (f t cw)) ->
  lin_keys_ok s -> lin_same_shape s (fold_left f m s).
Proof.
  revert s. induction m as [|cw t IH]; intros s Hf Hk; simpl; [apply lin_shape_refl|].
  pose proof (Hf s cw (or_introl eq_refl) eq_refl Hk) as H1.
  eapply lin_shape_trans; [exact H1|]. apply IH.
  - intros t' cw' Hin Ha Hk'. apply Hf; [right; exact Hin | rewrite Ha; apply H1 | exact Hk'].
  - eapply lin_keys_ok_shape; eauto.
Qed.

Lemma lin_copy_arm_shape g (s : lin) cw : In (fst cw) (l_arms s) -> lin_keys_ok s -> lin_same_shape s (lin_copy_arm aeqb g s cw).
Proof.
  intros Hin (Hn & He & Hst & Hm). destruct cw as [c w]; simpl in Hin.
  unfold lin_copy_arm, lin_same_shape; simpl.
  rewrite (akeys_aset_in aeqb aeqb_spec) by (rewrite Hm; exact Hin). auto.
Qed.

Lemma lin_mark_warm_shape (s : lin) cw : In (fst cw) (l_arms s) -> lin_keys_ok s -> lin_same_shape s (lin_mark_warm aeqb s cw).
Proof.
  intros Hin (Hn & He & Hst & Hm). destruct cw as [c w]; simpl in Hin.
  unfold lin_mark_warm, lin_same_shape; simpl.
  rewrite (akeys_aset_in aeqb aeqb_spec) by (rewrite Hst; exact Hin). auto.
Qed.

Theorem lin_warm_start_keys_ok (s s' : lin) g keys raw q :
  lin_keys_ok s -> lin_warm_start N aeqb s g keys raw q = Some s' -> lin_keys_ok s'.
Proof.
  intros Hk. unfold lin_warm_start.
  destruct (distance_threshold N _ q) as [thr|]; [|discriminate]. intros E; injection E as <-.
  set (m := cold_to_warm_gen N aeqb (lin_trained_arms aeqb s) (lin_cold_arms aeqb s) (distance_table N aeqb keys raw) thr).
  assert (Hm : forall cw, In cw m -> In (fst cw) (l_arms s)).
  { intros [c w] Hin; simpl. destruct (cold_to_warm_gen_fst N aeqb _ _ _ _ _ _ Hin) as [Hc _].
    unfold lin_cold_arms in Hc. apply filter_In in Hc. tauto. }
  assert (H1 : lin_same_shape s (fold_left (lin_copy_arm aeqb g) m s)).
  { apply lin_fold_shape; [|exact Hk]. intros t cw Hin Ha Hkt. apply lin_copy_arm_shape; [rewrite Ha; apply Hm; exact Hin | exact Hkt]. }
  eapply lin_keys_ok_shape; [|exact Hk]. eapply lin_shape_trans; [exact H1|].
  apply lin_fold_shape; [|eapply lin_keys_ok_shape; eauto].
  intros t cw Hin Ha Hkt. apply lin_mark_warm_shape; [rewrite Ha; rewrite (proj1 H1); apply Hm; exact Hin | exact Hkt].
Qed.

(* the arm list is only changed by add_arm / remove_arm *)
Lemma lin_fit_arms (s : lin) g ds rs cx : lin_keys_ok s -> l_arms (fst (lin_fit N aeqb s g ds rs cx)) = l_arms s.
Proof.
  intros (Hn & He & Hst & Hm). unfold lin_fit. set (s3 := set_lstatus _ _).
  pose proof (lin_parallel_fit_shape (l_arms s3) s3 g ds rs cx) as Hp.
  destruct (lin_parallel_fit N aeqb s3 g (l_arms s3) ds rs cx) as [s4 ok]. simpl in Hp.
  assert (H4 : l_arms s4 = l_arms s).
  { destruct Hp as [Hp _]; [|exact Hp]. intros a Ha. rewrite akeys_map_snd, Hm. exact Ha. }
  destruct ok; simpl; [|exact H4]. exact H4.
Qed.

Lemma lin_partial_fit_arms (s : lin) g ds rs cx : lin_keys_ok s -> l_arms (fst (lin_partial_fit N aeqb s g ds rs cx)) = l_arms s.
Proof.
  intros (Hn & He & Hst & Hm). unfold lin_partial_fit.
  pose proof (lin_parallel_fit_shape (l_arms s) s g ds rs cx) as Hp.
  destruct (lin_parallel_fit N aeqb s g (l_arms s) ds rs cx) as [s4 ok]. simpl in Hp.
  assert (H4 : l_arms s4 = l_arms s).
  { destruct Hp as [Hp _]; [|exact Hp]. intros a Ha. rewrite Hm. exact Ha. }
  destruct ok; simpl; [|exact H4]. exact H4.
Qed.

End LinInv.
