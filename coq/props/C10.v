(*  C10 — Prediction is read-only.
   
    PROVED for context-free bandits, every reachable state: predict / predict_expectations return a state that
    differs from the one before at most in the generator and, for Thompson Sampling, in arm_to_expectation
    (the stored copy of the last sample, whose keys stay the arm list); every other field - statistics, status,
    arms, configuration, fitted flag - is identical (Leibniz equality).  For neighbourhood policies the model's
    imp_query returns the implementation state unchanged by construction (the worker copies are discarded).
    Thompson's stored sample is never read: two context-free bandits that differ only in it (and agree on the
    generator) return equal results and stay so related under EVERY continuation of facade calls (run_sim) -
    together with the first theorem this is the property's "indistinguishable under every later sequence of calls"
    for context-free bandits, modulo the generator position.
    Radius / KNearest / LSHNearest / Clusters / TreeBandit: predict and predict_expectations return the implementation
    state ITSELF (Leibniz equal; the worker copies are discarded) and the fitted flag; only the bandit's generator moves.
    LinGreedy / LinUCB: the state is returned unchanged; LinTS: only the private generators of the per-arm regressions
    advance - every matrix, vector, scaler, status and the arm list are the same.
    ..._partial: that the model's "discarded worker copies" is what the code does (deepcopy per worker) is the
    queried-versus-unqueried twin relation on the implementation. *)
From Coq Require Import List ZArith Bool Arith QArith Qcanon Permutation.
From MW Require Import Num Assoc AssocFacts Rng Par CF CFInv CFClean CFForget CFSpec Matrix Lin Warm WarmInv Nbr NbrFacts NbrIndep LshFacts Clu Tree CellFacts Mab FacadeCF FacadeArms MoreFacts NumLaws CFAlg Sim Extra QcInst OrderFacts ExpIrrel LinInv FacadeLin LpInv NbrInv CluTreeInv FacadeAll ToyFacts C09All C10All LinForget LinSim MatrixFacts GaussJordan LinSpec NbrIndepGen CluIndep C17Lin WarmIdem C14More LshScale TreeLeaf Rename PopSpec CopyFacts StatFacts CluBatch LinWarm C10Twin.
Import ListNotations.

Theorem C10_queried_bandit_is_indistinguishable_under_every_continuation :
  forall (R A G : Type) (N : Num R) (aeqb : A -> A -> bool) (RG : RngOps R G),
  (forall x y : A, aeqb x y = true <-> x = y) ->
  forall (m : (@mab R A G)) (qs ops : list (@op R A)),
  rng_lengths_ok RG ->
  imp_inv (m_imp m) ->
  Forall is_query qs ->
  snd (run N aeqb RG (copy_streams m (fst (run N aeqb RG m qs))) ops) = snd (run N aeqb RG m ops).
Proof. exact @queried_bandit_is_indistinguishable. Qed.
Print Assumptions C10_queried_bandit_is_indistinguishable_under_every_continuation.

Theorem C10_any_number_of_queries_leads_to_a_twin :
  forall (R A G : Type) (N : Num R) (aeqb : A -> A -> bool) (RG : RngOps R G),
  (forall x y : A, aeqb x y = true <-> x = y) ->
  forall (qs : list (@op R A)) (m : (@mab R A G)),
  rng_lengths_ok RG -> imp_inv (m_imp m) -> Forall is_query qs -> twin m (fst (run N aeqb RG m qs)).
Proof. exact @queries_twin. Qed.
Print Assumptions C10_any_number_of_queries_leads_to_a_twin.

Theorem C10_a_twin_with_copied_streams_answers_every_continuation_alike :
  forall (R A G : Type) (N : Num R) (aeqb : A -> A -> bool) (RG : RngOps R G) 
    (m m' : (@mab R A G)) (ops : list (@op R A)),
  twin m m' -> snd (run N aeqb RG (copy_streams m m') ops) = snd (run N aeqb RG m ops).
Proof. exact @twin_run. Qed.
Print Assumptions C10_a_twin_with_copied_streams_answers_every_continuation_alike.

Theorem C10_query_changes_only_generator_and_last_sample_partial :
  forall (R A G : Type) (N : Num R) (aeqb : A -> A -> bool) (RG : RngOps R G) 
    (m : (@mab R A G)) (s : (@cf R A)) (cx : option (@ctxs R)) (orc : (@oracle R A)) (is_p : bool),
  rng_lengths_ok RG ->
  m_imp m = ICf s ->
  mab_inv N m ->
  let o := if is_p then Predict cx orc else PredictExp cx orc in
  exists s' : (@cf R A),
    m_imp (fst (step N aeqb RG m o)) = ICf s' /\
    (c_kind s <> KThompson -> s' = s) /\
    s' = set_exp s (c_exp s') /\
    akeys (c_exp s') = c_arms s /\ m_fitted (fst (step N aeqb RG m o)) = m_fitted m.
Proof. exact @query_keeps_model. Qed.
Print Assumptions C10_query_changes_only_generator_and_last_sample_partial.

Theorem C10_last_sample_is_never_read_one_call :
  forall (R A G : Type) (N : Num R) (aeqb : A -> A -> bool) (RG : RngOps R G) (m m' : (@mab R A G)) (o : (@op R A)),
  msim m m' ->
  snd (step N aeqb RG m o) = snd (step N aeqb RG m' o) /\
  msim (fst (step N aeqb RG m o)) (fst (step N aeqb RG m' o)).
Proof. exact @step_sim. Qed.
Print Assumptions C10_last_sample_is_never_read_one_call.

Theorem C10_last_sample_is_never_read_any_continuation :
  forall (R A G : Type) (N : Num R) (aeqb : A -> A -> bool) (RG : RngOps R G) 
    (ops : list (@op R A)) (m m' : (@mab R A G)), msim m m' -> snd (run N aeqb RG m ops) = snd (run N aeqb RG m' ops).
Proof. exact @run_sim. Qed.
Print Assumptions C10_last_sample_is_never_read_any_continuation.

Theorem C10_queries_keep_the_invariant_all_policies :
  forall (R A G : Type) (N : Num R) (aeqb : A -> A -> bool) (RG : RngOps R G),
  (forall x y : A, aeqb x y = true <-> x = y) ->
  forall (m : (@mab R A G)) (o : (@op R A)),
  rng_lengths_ok RG -> imp_inv (m_imp m) -> imp_inv (m_imp (fst (step N aeqb RG m o))).
Proof. exact @step_preserves_imp_inv. Qed.
Print Assumptions C10_queries_keep_the_invariant_all_policies.

Theorem C10_neighbourhood_cluster_tree_state_untouched :
  forall (R A G : Type) (N : Num R) (aeqb : A -> A -> bool) (RG : RngOps R G) 
    (m : (@mab R A G)) (cx : option (@ctxs R)) (orc : (@oracle R A)) (is_p : bool),
  is_nbhd (m_imp m) ->
  let o := if is_p then Predict cx orc else PredictExp cx orc in
  m_imp (fst (step N aeqb RG m o)) = m_imp m /\ m_fitted (fst (step N aeqb RG m o)) = m_fitted m.
Proof. exact @query_keeps_neighbourhood_state. Qed.
Print Assumptions C10_neighbourhood_cluster_tree_state_untouched.

Theorem C10_linear_query_moves_only_private_generators :
  forall (R A G : Type) (N : Num R) (aeqb : A -> A -> bool) (RG : RngOps R G),
  (forall x y : A, aeqb x y = true <-> x = y) ->
  forall (m : (@mab R A G)) (s : (@lin R A G)) (cx : option (@ctxs R)) (orc : (@oracle R A)) (is_p : bool),
  m_imp m = ILin s ->
  lin_keys_ok s ->
  let o := if is_p then Predict cx orc else PredictExp cx orc in
  exists s' : (@lin R A G),
    m_imp (fst (step N aeqb RG m o)) = ILin s' /\
    l_kind s' = l_kind s /\
    l_alpha s' = l_alpha s /\
    l_eps s' = l_eps s /\
    l_l2 s' = l_l2 s /\
    l_scale s' = l_scale s /\
    l_nf s' = l_nf s /\
    l_arms s' = l_arms s /\
    l_exp s' = l_exp s /\
    l_status s' = l_status s /\
    models_eq_mod_rng (l_models s) (l_models s') /\
    (l_kind s <> RTs -> s' = s) /\ m_fitted (fst (step N aeqb RG m o)) = m_fitted m.
Proof. exact @query_keeps_linear_model. Qed.
Print Assumptions C10_linear_query_moves_only_private_generators.

(* non-vacuity of the twin theorem, on two bandits whose queries DO change the state: a Thompson Sampling bandit (the stored copy of
   the last sample) and a LinTS bandit (the private generators of the per-arm regressions).  After fit and two queries the state differs
   from the unqueried one, the hypotheses of the theorem hold, and with the stream positions copied across a continuation of
   partial_fit / add_arm / predict_expectations / predict gives the same outputs. *)
Definition tq (z : Z) : Qc := Q2Qc (inject_Z z).
Definition tw_orc : @oracle Qc Z := mkOracle [] [] [] (fun _ _ => 0%nat) [1%nat].
Definition tw_ts0 : @mab Qc Z nat := mkMab (ICf (cf_init QcNum KThompson (tq 0) None [1; 2]%Z)) false 3%nat.
Definition tw_lin0 : @mab Qc Z nat := mkMab (ILin (lin_init QcNum RTs (tq 1) (tq 0) (tq 1) false false [1; 2]%Z)) false 3%nat.
Definition tw_fit_cf := Fit [1; 2; 1]%Z [tq 1; tq 0; tq 1] None tw_orc.
Definition tw_fit_cx := Fit [1; 2; 1]%Z [tq 1; tq 0; tq 1] (Some [[tq 1; tq 0]; [tq 0; tq 1]; [tq 1; tq 1]]) tw_orc.
Definition tw_qs_cf : list (@op Qc Z) := [Predict None tw_orc; PredictExp None tw_orc].
Definition tw_qs_cx : list (@op Qc Z) := [Predict (Some [[tq 1; tq 2]]) tw_orc; PredictExp (Some [[tq 2; tq 1]; [tq 0; tq 3]]) tw_orc].
Definition tw_cont_cf : list (@op Qc Z) := [PartialFit [2]%Z [tq 1] None tw_orc; AddArm 5%Z None; PredictExp None tw_orc; Predict None tw_orc].
Definition tw_cont_cx : list (@op Qc Z) :=
  [PartialFit [2]%Z [tq 1] (Some [[tq 3; tq 1]]) tw_orc; AddArm 5%Z None; PredictExp (Some [[tq 1; tq 1]]) tw_orc; Predict (Some [[tq 1; tq 1]]) tw_orc].
Example C10_twin_hypotheses_satisfiable_and_queries_change_the_state :
  let m_ts := state_after QcNum Z.eqb ToyRng tw_ts0 [tw_fit_cf] in
  let m_lin := state_after QcNum Z.eqb ToyRng tw_lin0 [tw_fit_cx] in
  rng_lengths_ok ToyRng /\ imp_inv (m_imp m_ts) /\ imp_inv (m_imp m_lin) /\ Forall is_query tw_qs_cf /\ Forall is_query tw_qs_cx /\
  m_imp (state_after QcNum Z.eqb ToyRng m_ts tw_qs_cf) <> m_imp m_ts /\
  m_imp (state_after QcNum Z.eqb ToyRng m_lin tw_qs_cx) <> m_imp m_lin /\
  snd (run QcNum Z.eqb ToyRng (copy_streams m_ts (state_after QcNum Z.eqb ToyRng m_ts tw_qs_cf)) tw_cont_cf)
  = snd (run QcNum Z.eqb ToyRng m_ts tw_cont_cf) /\
  snd (run QcNum Z.eqb ToyRng (copy_streams m_lin (state_after QcNum Z.eqb ToyRng m_lin tw_qs_cx)) tw_cont_cx)
  = snd (run QcNum Z.eqb ToyRng m_lin tw_cont_cx).
Proof.
  cbv zeta. split; [exact toy_rng_lengths_ok|].
  split; [apply (run_preserves_imp_inv QcNum Z.eqb ToyRng Z.eqb_eq); [exact toy_rng_lengths_ok|]; simpl; apply keys_ok_init; repeat constructor; simpl; intuition discriminate|].
  split; [apply (run_preserves_imp_inv QcNum Z.eqb ToyRng Z.eqb_eq); [exact toy_rng_lengths_ok|]; simpl; apply lin_keys_ok_init; repeat constructor; simpl; intuition discriminate|].
  split; [repeat constructor|]. split; [repeat constructor|].
  split; [vm_compute; discriminate|]. split; [vm_compute; discriminate|].
  split; vm_compute; reflexivity.
Qed.

