#!/usr/bin/env python3
# genprops.py <Cxx> : (re)generate props/Cxx.v from props_src/Cxx.txt
#   line format:  header lines starting with '#' are copied into the leading comment;
#                 IMPORT <modules>              -- extra `From MW Require Import`
#                 THEOREM <name> <lemma>        -- statement := type of @lemma (printed by Coq, so the full statement is visible)
#                 RAW                            -- the rest of the file is appended verbatim (Examples)
import sys, subprocess, re, os
prop = sys.argv[1]
root = os.path.dirname(os.path.dirname(os.path.abspath(__file__)))
src = open(os.path.join(root, "props_src", prop + ".txt")).read().split("\n")
header, imports, theorems, raw = [], [], [], []
mode = "head"
for line in src:
    if mode == "raw":
        raw.append(line); continue
    if line.startswith("#"):
        header.append(line[1:].rstrip())
    elif line.startswith("IMPORT "):
        imports += line.split()[1:]
    elif line.startswith("THEOREM "):
        _, name, lemma = line.split()
        theorems.append((name, lemma))
    elif line.strip() == "RAW":
        mode = "raw"
base = "Num Assoc AssocFacts Rng Par CF CFInv CFClean CFForget CFSpec Matrix Lin Warm WarmInv Nbr NbrFacts NbrIndep LshFacts Clu Tree CellFacts Mab FacadeCF FacadeArms MoreFacts NumLaws CFAlg Sim Extra QcInst OrderFacts ExpIrrel LinInv FacadeLin LpInv NbrInv CluTreeInv FacadeAll ToyFacts C09All C10All LinForget LinSim MatrixFacts GaussJordan LinSpec NbrIndepGen CluIndep C17Lin WarmIdem C14More LshScale TreeLeaf Rename PopSpec CopyFacts StatFacts CluBatch LinWarm".split()
mods = base + [m for m in imports if m not in base]
pre = "From Coq Require Import List ZArith Bool Arith QArith Qcanon Permutation.\nFrom MW Require Import %s.\nImport ListNotations.\n" % " ".join(mods)
chk = pre + "Set Printing Width 110.\nSet Printing Depth 200.\n" + "".join("Check @%s.\n" % l for _, l in theorems)
open("/tmp/genprops_%s.v" % prop, "w").write(chk)
out = subprocess.run("cd %s && coqc -Q theories MW /tmp/genprops_%s.v" % (root, prop), shell=True, stdout=subprocess.PIPE, stderr=subprocess.STDOUT, text=True).stdout
blocks = re.split(r"^@?[\w']+\n     : ", out, flags=re.M)[1:]
if len(blocks) != len(theorems):
    print(out[-3000:]); sys.exit("could not read the types of all lemmas (%d of %d)" % (len(blocks), len(theorems)))
TYPES = {"nbr": "@nbr R A G", "cf": "@cf R A", "lp": "@lp R A G", "mab": "@mab R A G", "mat": "@mat R", "op": "@op R A",
         "out": "@out R A", "oracle": "@oracle R A", "ctxs": "@ctxs R", "cfop": "@cfop R A", "lin": "@lin R A G",
         "clu": "@clu R A G", "tree": "@tree R A", "ridge": "@ridge R G", "vec": "@vec R", "imp": "@imp R A G", "armst": "@armst R", "status": "@status A",
         "batch": "@batch R A", "borc": "@borc R A", "report": "@report R A", "sbandit": "@sbandit R A G", "srow": "@srow R A", "dcache": "@dcache R", "sop": "@sop R A", "scaler": "@scaler R"}
def fix_implicits(ty):
    # give the record types their parameters where Coq printed them bare
    def rep(m):
        pre, name, post = m.group(1), m.group(2), m.group(3)
        return pre + "(" + TYPES[name] + ")" + post
    names = "|".join(TYPES)
    ty = re.sub(r"(: |list |option |\* )(%s)([\s\),])" % names, rep, ty)
    return ty
body = "(* " + "\n   ".join(header) + " *)\n" + pre + "\n"
for (name, lemma), ty in zip(theorems, blocks):
    ty = fix_implicits(ty.rstrip())
    body += "Theorem %s :\n  %s.\nProof. exact @%s. Qed.\nPrint Assumptions %s.\n\n" % (name, ty.replace("\n     ", "\n"), lemma, name)
body += "\n".join(raw) + "\n"
open(os.path.join(root, "props", prop + ".v"), "w").write(body)
r = subprocess.run("cd %s && timeout 900 coqc -Q theories MW -Q props MWP props/%s.v" % (root, prop), shell=True, stdout=subprocess.PIPE, stderr=subprocess.STDOUT, text=True)
print(prop, "rc", r.returncode, r.stdout.count("Closed under the global context"), "closed;", "Axioms" in r.stdout and "AXIOMS!" or "")
if r.returncode: print(r.stdout[-2500:])
