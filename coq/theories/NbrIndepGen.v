(* NbrIndepGen.v — C05 for neighbourhood policies over LINEAR learning policies (LinGreedy, LinUCB): the result of a
   query row does not depend on the state in which the rows processed before it left the worker's private copy of
   the policy, hence not on how the rows are partitioned among workers.  The development is generic in the notion
   of a "good copy"; NbrIndep instantiates the same argument for context-free policies. *)
From Coq Require Import ZArith List Bool Arith Lia.
From MW Require Import Num Assoc AssocFacts Rng Par CF CFInv Matrix Lin LinInv LinForget LinSim Nbr NbrFacts NbrIndep.
Import ListNotations.

Section Generic.
Context {R A G : Type} (N : Num R) (aeqb : A -> A -> bool) (RG : RngOps R G).
Notation nbr := (@nbr R A G).
Notation lp := (@lp R A G).
Notation res := (option A + list (A * option R))%type.

Variable good : lp -> Prop.          (* "as good as the template" *)

Definition grow_rel (r1 r2 : option (res * lp)) : Prop :=
  match r1, r2 with
  | Some (o1, l1), Some (o2, l2) => o1 = o2 /\ good l1 /\ good l2
  | None, None => True
  | _, _ => False
  end.

Variable s : nbr.
Variable p : bool.
Hypothesis row_indep : forall l1 l2 seed row orc, good l1 -> good l2 ->
  grow_rel (nbr_row N aeqb RG s l1 seed row orc p) (nbr_row N aeqb RG s l2 seed row orc p).

Lemma g_rows_indep : forall rows seeds orcs l1 l2, good l1 -> good l2 ->
  nbr_rows N aeqb RG s l1 seeds rows orcs p = nbr_rows N aeqb RG s l2 seeds rows orcs p.
Proof.
  induction rows as [|row rows IH]; intros seeds orcs l1 l2 G1 G2.
  - destruct seeds; reflexivity.
  - destruct seeds as [|sd seeds]; [reflexivity|]. simpl.
    pose proof (row_indep l1 l2 sd row (hd [] orcs) G1 G2) as Hr. unfold grow_rel in Hr.
    destruct (nbr_row N aeqb RG s l1 sd row (hd [] orcs) p) as [[o1 l1']|];
      destruct (nbr_row N aeqb RG s l2 sd row (hd [] orcs) p) as [[o2 l2']|]; try contradiction; try reflexivity.
    destruct Hr as (-> & K1 & K2). rewrite (IH seeds (tl orcs) l1' l2' K1 K2). reflexivity.
Qed.

Lemma g_rows_app (t : lp) : good t ->
  forall r1 sd1 r2 sd2 orcs l, good l -> length sd1 = length r1 ->
  nbr_rows N aeqb RG s l (sd1 ++ sd2) (r1 ++ r2) orcs p =
  opt_app (nbr_rows N aeqb RG s t sd1 r1 (firstn (length r1) orcs) p)
          (nbr_rows N aeqb RG s t sd2 r2 (skipn (length r1) orcs) p).
Proof.
  intros Gt. induction r1 as [|row r1 IH]; intros sd1 r2 sd2 orcs l Gl Hl.
  - destruct sd1; [|discriminate]. simpl. rewrite (g_rows_indep r2 sd2 orcs l t Gl Gt).
    destruct (nbr_rows N aeqb RG s t sd2 r2 orcs p); reflexivity.
  - destruct sd1 as [|sd sd1]; [discriminate|]. simpl in Hl. injection Hl as Hl.
    assert (Hgen : hd [] (firstn (S (length r1)) orcs) = hd [] orcs /\ tl (firstn (S (length r1)) orcs) = firstn (length r1) (tl orcs) /\
                   skipn (S (length r1)) orcs = skipn (length r1) (tl orcs)).
    { destruct orcs as [|x xs]; simpl; [rewrite firstn_nil, skipn_nil; auto | auto]. }
    destruct Hgen as (Hhd & Htl & Hsk).
    cbn [app length nbr_rows]. rewrite Hhd, Htl, Hsk.
    pose proof (row_indep l t sd row (hd [] orcs) Gl Gt) as Hr. unfold grow_rel in Hr.
    destruct (nbr_row N aeqb RG s l sd row (hd [] orcs) p) as [[o1 l1']|];
      destruct (nbr_row N aeqb RG s t sd row (hd [] orcs) p) as [[o2 l2']|]; try contradiction; try reflexivity.
    destruct Hr as (-> & K1 & K2).
    rewrite (IH sd1 r2 sd2 (tl orcs) l1' K1 Hl).
    rewrite (g_rows_indep r1 sd1 (firstn (length r1) (tl orcs)) l2' t K2 Gt).
    destruct (nbr_rows N aeqb RG s t sd1 r1 (firstn (length r1) (tl orcs)) p);
      destruct (nbr_rows N aeqb RG s t sd2 r2 (skipn (length r1) (tl orcs)) p); reflexivity.
Qed.

Lemma g_chunked_rows_eq (t : lp) : good t ->
  forall sizes seeds (cx : mat (R:=R)) orcs, length seeds = length cx -> sum_list sizes = length cx ->
  fold_right opt_app (Some [])
    (map (fun q => let '(sd, rows, orc) := (q : list Z * mat (R:=R) * list (list nat)) in nbr_rows N aeqb RG s t sd rows orc p)
         (combine (combine (chunks sizes seeds) (chunks sizes cx)) (chunks sizes orcs)))
  = nbr_rows N aeqb RG s t seeds cx orcs p.
Proof.
  intros Gt. induction sizes as [|n sizes IH]; intros seeds cx orcs Hl Hs; simpl in *.
  - destruct cx; [|discriminate]. destruct seeds; [|discriminate]. reflexivity.
  - rewrite IH; [| rewrite !skipn_length; lia | rewrite skipn_length; lia].
    rewrite <- (firstn_skipn n seeds) at 3. rewrite <- (firstn_skipn n cx) at 3.
    rewrite (g_rows_app t Gt (firstn n cx) (firstn n seeds) (skipn n cx) (skipn n seeds) orcs t Gt) by (rewrite !firstn_length; lia).
    rewrite firstn_length. replace (Nat.min n (length cx)) with n by lia. reflexivity.
Qed.

Theorem g_predict_partition_independent g cx orcs sizes :
  good (n_lp s) -> (forall g high size, length (fst (draw_z RG g (RqRandint high size))) = size) ->
  sum_list sizes = length cx ->
  nbr_predict N aeqb RG s g cx orcs sizes p = nbr_predict N aeqb RG s g cx orcs [length cx] p.
Proof.
  intros Gt Hz Hs. unfold nbr_predict.
  pose proof (Hz g 2147483647%Z (length cx)) as Hl.
  destruct (draw_z RG g (RqRandint 2147483647 (length cx))) as [seeds g1]. simpl in Hl.
  f_equal.
  change (fun r acc => match r with Some x => match acc with Some y => Some (x ++ y) | None => None end | None => None end)
    with (@opt_app res).
  rewrite (g_chunked_rows_eq (n_lp s) Gt sizes seeds cx orcs Hl Hs).
  rewrite (g_chunked_rows_eq (n_lp s) Gt [length cx] seeds cx orcs Hl); [reflexivity | simpl; lia].
Qed.

End Generic.

(* ---- linear learning policies (LinGreedy / LinUCB) --------------------------------------------------------- *)
Section Linear.
Context {R A G : Type} (N : Num R) (aeqb : A -> A -> bool) (RG : RngOps R G).
Hypothesis aeqb_spec : forall x y, aeqb x y = true <-> x = y.
Hypothesis Hrng : rng_lengths_ok RG.
Notation lin := (@lin R A G).
Notation nbr := (@nbr R A G).
Notation lp := (@lp R A G).

Definition lin_cfg_eq (s s' : lin) : Prop :=
  l_kind s' = l_kind s /\ l_alpha s' = l_alpha s /\ l_eps s' = l_eps s /\ l_l2 s' = l_l2 s /\ l_scale s' = l_scale s /\
  l_kf_ainv s' = l_kf_ainv s /\ l_arms s' = l_arms s /\ l_exp s' = l_exp s.

Lemma lin_cfg_refl s : lin_cfg_eq s s. Proof. unfold lin_cfg_eq; repeat split; reflexivity. Qed.
Lemma lin_cfg_trans a b c : lin_cfg_eq a b -> lin_cfg_eq b c -> lin_cfg_eq a c.
Proof. unfold lin_cfg_eq; intros (a1&a2&a3&a4&a5&a6&a7&a8) (b1&b2&b3&b4&b5&b6&b7&b8); repeat split; congruence. Qed.

Lemma lin_fit_arm_cfg (s s' : lin) g a ds rs cx : lin_fit_arm N aeqb s g a ds rs cx = Some s' -> lin_cfg_eq s s'.
Proof.
  unfold lin_fit_arm. destruct (arm_rows aeqb a ds rs cx) as [x y]. destruct x; [intros E; injection E as <-; apply lin_cfg_refl|].
  destruct (negb _); [discriminate|]. destruct (ridge_fit N _ _ _ _); [|discriminate]. intros E; injection E as <-.
  unfold lin_cfg_eq; simpl; repeat split; reflexivity.
Qed.

Lemma lin_parallel_fit_cfg (arms : list A) (s : lin) g ds rs cx : lin_cfg_eq s (fst (lin_parallel_fit N aeqb s g arms ds rs cx)).
Proof.
  revert s. induction arms as [|a t IH]; intros s; simpl; [apply lin_cfg_refl|].
  destruct (lin_fit_arm N aeqb s g a ds rs cx) as [s'|] eqn:E; [|apply lin_cfg_refl].
  eapply lin_cfg_trans; [eapply lin_fit_arm_cfg; exact E | apply IH].
Qed.

Lemma lin_fit_cfg (s : lin) g ds rs cx : lin_cfg_eq s (fst (lin_fit N aeqb s g ds rs cx)).
Proof.
  unfold lin_fit. set (s3 := set_lstatus _ _).
  assert (H3 : lin_cfg_eq s s3) by (unfold lin_cfg_eq, s3; simpl; repeat split; reflexivity).
  pose proof (lin_parallel_fit_cfg (l_arms s3) s3 g ds rs cx) as H.
  destruct (lin_parallel_fit N aeqb s3 g (l_arms s3) ds rs cx) as [s4 ok]. simpl in H.
  destruct ok; simpl.
  - eapply lin_cfg_trans; [exact H3|]. eapply lin_cfg_trans; [exact H|]. unfold lin_cfg_eq; simpl; repeat split; reflexivity.
  - eapply lin_cfg_trans; [exact H3 | exact H].
Qed.

Lemma lin_expectations_cfg (s : lin) g cx : lin_cfg_eq s (snd (fst (lin_expectations N aeqb RG s g cx))).
Proof.
  unfold lin_expectations. destruct (draw_r RG g _) as [rv g1]. destruct (draw_r RG g1 _) as [rnd g2].
  destruct (predict_arms N aeqb RG s (l_models s) (l_arms s) g2 _) as [[pc ms'] g3]. simpl.
  unfold lin_cfg_eq; simpl; repeat split; reflexivity.
Qed.

Definition lin_good (t c : lin) : Prop := lin_keys_ok c /\ lin_cfg_eq t c /\ l_kind t <> RTs.

Lemma erase_strip_by_cfg (t c : lin) : lin_keys_ok t -> lin_keys_ok c -> lin_cfg_eq t c ->
  lin_erase (lin_strip c) = lin_erase (lin_strip t).
Proof.
  intros (_ & _ & _ & Hmt) (_ & _ & _ & Hmc) (a1&a2&a3&a4&a5&a6&a7&a8).
  unfold lin_erase, lin_strip, set_models; simpl. rewrite a1, a2, a3, a4, a5, a6, a7, a8. f_equal.
  unfold mmap. rewrite !map_map. simpl.
  transitivity (map (fun k : A => (k, @erase_rng R G (ridge_strip ridge_new))) (akeys (l_models c))).
  - unfold akeys. rewrite map_map. reflexivity.
  - rewrite Hmc, a7, <- Hmt. unfold akeys. rewrite map_map. reflexivity.
Qed.

Lemma lin_fit_good (t c1 c2 : lin) g ds rs cx :
  lin_keys_ok t -> lin_good t c1 -> lin_good t c2 ->
  snd (lin_fit N aeqb c1 g ds rs cx) = snd (lin_fit N aeqb c2 g ds rs cx) /\
  lin_erase (fst (lin_fit N aeqb c1 g ds rs cx)) = lin_erase (fst (lin_fit N aeqb c2 g ds rs cx)).
Proof.
  intros Hkt (K1 & C1 & _) (K2 & C2 & _).
  pose proof (erase_strip_by_cfg t c1 Hkt K1 C1) as E1. pose proof (erase_strip_by_cfg t c2 Hkt K2 C2) as E2.
  rewrite <- (lin_fit_forgets N aeqb c1), <- (lin_fit_forgets N aeqb c2).
  destruct (lin_fit_erase N aeqb (lin_strip c1) g ds rs cx) as [A1 B1].
  destruct (lin_fit_erase N aeqb (lin_strip c2) g ds rs cx) as [A2 B2].
  rewrite E1 in A1, B1. rewrite E2 in A2, B2. split; congruence.
Qed.

Lemma lin_row_indep (s : nbr) (t : lin) p : lin_keys_ok t ->
  forall l1 l2 seed row orc,
  (exists c, l1 = LLin c /\ lin_good t c) -> (exists c, l2 = LLin c /\ lin_good t c) ->
  grow_rel (fun l => exists c, l = LLin c /\ lin_good t c)
           (nbr_row N aeqb RG s l1 seed row orc p) (nbr_row N aeqb RG s l2 seed row orc p).
Proof.
  intros Hkt l1 l2 seed row orc [c1 [-> G1]] [c2 [-> G2]]. unfold nbr_row, grow_rel.
  destruct (neighborhood N s row orc) as [[|i idx]|]; [| |exact I].
  - destruct p.
    + destruct (negb (nnprob_len_ok s)); [exact I|]. destruct (draw_z RG (create RG seed) (RqChoice (length (n_arms s)) (n_nnprob s))) as [v g']. split; [reflexivity|]. split; eexists; eauto.
    + split; [reflexivity|]. split; eexists; eauto.
  - set (ds := flat_map _ _). set (rs := select (n_rs s) (zero N) (i :: idx)). set (cx := select (n_cx s) [] (i :: idx)).
    unfold lp_fit.
    destruct (lin_fit_good t c1 c2 (create RG seed) ds rs cx Hkt G1 G2) as [Eok Eer].
    pose proof (lin_fit_cfg c1 (create RG seed) ds rs cx) as F1. pose proof (lin_fit_cfg c2 (create RG seed) ds rs cx) as F2.
    pose proof (lin_fit_keys_ok N aeqb aeqb_spec c1 (create RG seed) ds rs cx (proj1 G1)) as Q1.
    pose proof (lin_fit_keys_ok N aeqb aeqb_spec c2 (create RG seed) ds rs cx (proj1 G2)) as Q2.
    destruct (lin_fit N aeqb c1 (create RG seed) ds rs cx) as [c1' ok1]. destruct (lin_fit N aeqb c2 (create RG seed) ds rs cx) as [c2' ok2].
    simpl in Eok, Eer, F1, F2, Q1, Q2. subst ok2. destruct ok1; simpl; [|exact I].
    unfold lp_expectations1.
    destruct G1 as (_ & C1 & Hnt). destruct G2 as (_ & C2 & _).
    assert (Hk1 : l_kind c1' <> RTs) by (rewrite (proj1 F1), (proj1 C1); exact Hnt).
    assert (Hk2 : l_kind c2' <> RTs) by (rewrite (proj1 F2), (proj1 C2); exact Hnt).
    destruct (lin_expectations_erase N aeqb RG c1' (create RG seed) [row] Hk1) as [X1 _].
    destruct (lin_expectations_erase N aeqb RG c2' (create RG seed) [row] Hk2) as [X2 _].
    rewrite Eer in X1. rewrite X2 in X1.
    pose proof (lin_expectations_cfg c1' (create RG seed) [row]) as Y1. pose proof (lin_expectations_cfg c2' (create RG seed) [row]) as Y2.
    pose proof (lin_expectations_ok N aeqb RG aeqb_spec c1' (create RG seed) [row] Hrng Q1) as Z1.
    pose proof (lin_expectations_ok N aeqb RG aeqb_spec c2' (create RG seed) [row] Hrng Q2) as Z2.
    destruct (lin_expectations N aeqb RG c1' (create RG seed) [row]) as [[e1 c1''] g1].
    destruct (lin_expectations N aeqb RG c2' (create RG seed) [row]) as [[e2 c2''] g2].
    simpl in X1, Y1, Y2. subst e2. destruct Z1 as (_ & _ & W1 & _). destruct Z2 as (_ & _ & W2 & _).
    assert (GG1 : exists c, LLin c1'' = LLin c /\ lin_good t c).
    { exists c1''. split; [reflexivity|]. split; [exact W1|]. split; [|exact Hnt]. eapply lin_cfg_trans; [exact C1|]. eapply lin_cfg_trans; [exact F1 | exact Y1]. }
    assert (GG2 : exists c, LLin c2'' = LLin c /\ lin_good t c).
    { exists c2''. split; [reflexivity|]. split; [exact W2|]. split; [|exact Hnt]. eapply lin_cfg_trans; [exact C2|]. eapply lin_cfg_trans; [exact F2 | exact Y2]. }
    destruct p; (split; [reflexivity | split; assumption]).
Qed.

(* C05 for Radius / KNearest / LSHNearest over LinGreedy or LinUCB: any partition of the query rows into consecutive
   chunks (whatever n_jobs makes of them) gives the answers of a single chunk *)
Theorem nbr_predict_partition_independent_linear (s : nbr) (t : lin) g cx orcs sizes p :
  n_lp s = LLin t -> lin_keys_ok t -> l_kind t <> RTs ->
  (forall g high size, length (fst (draw_z RG g (RqRandint high size))) = size) ->
  sum_list sizes = length cx ->
  nbr_predict N aeqb RG s g cx orcs sizes p = nbr_predict N aeqb RG s g cx orcs [length cx] p.
Proof.
  intros El Hkt Hnt Hz Hs.
  apply (g_predict_partition_independent N aeqb RG (fun l => exists c, l = LLin c /\ lin_good t c) s p (lin_row_indep s t p Hkt)); auto.
  rewrite El. exists t. split; [reflexivity|]. split; [exact Hkt|]. split; [apply lin_cfg_refl | exact Hnt].
Qed.

(* C03 for linear learning policies: the answer for a row is the answer of the freshly constructed policy
   (lin_strip: the constructor's state; only the private generator copies, which LinGreedy / LinUCB never read, are kept)
   trained on exactly the selected observations *)
Theorem nn_row_from_scratch_linear (s : nbr) (c : lin) seed row orc p :
  nbr_row N aeqb RG s (LLin c) seed row orc p = nbr_row N aeqb RG s (LLin (lin_strip c)) seed row orc p \/
  (exists idx, neighborhood N s row orc = Some idx /\ idx = []).
Proof.
  unfold nbr_row. destruct (neighborhood N s row orc) as [[|i idx]|]; [right; eexists; eauto | | left; reflexivity].
  left. unfold lp_fit. rewrite (lin_fit_forgets N aeqb c). reflexivity.
Qed.

End Linear.
