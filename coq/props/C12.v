(*  C12 — Clusters and TreeBandit condition on exactly the query's cell.
   
    k-means and the regression trees are oracles: the theorems hold for EVERY labelling and EVERY leaf function.
    PROVED:
     * after every (re)fit of Clusters the policy of cluster c is the stored policy object trained (lp.fit) on
       exactly the stored rows whose k-means label is c, in stored order, and on nothing else;
     * a query row is answered by the policy of the cluster k-means assigns it to;
     * TreeBandit._fit_arm files each reward of the arm, in row order, under the leaf its context falls into,
       appended after what the leaf already held, and leaves every other arm untouched.
     * the value TreeBandit reports for an arm is the C01 statistic of exactly the rewards filed under the query's leaf: for
       UCB1 the leaf policy (a freshly constructed policy over that single arm fitted on the leaf's list) holds sum, count,
       mean of the list and reports mean + alpha*sqrt(2 ln n / n) with n the size of the leaf, without touching the generator.
       ThompsonSampling (documented behaviour, no binarizer in the leaf): exactly one Beta request with parameters 1 + sum and
       1 + size - sum of the leaf's rewards, whose single value is reported.
       EpsilonGreedy: the leaf policy holds the mean of the leaf's rewards (0 for an empty leaf); the reported value is that mean unless
       the exploration draw (one uniform number from the generator the leaf policies use) falls below epsilon, in which case it is one
       more uniform draw - so with epsilon = 0 exactly the mean of the leaf.
     * WHOLE HISTORY (TreeWhole.v): after fit followed by any number of partial_fit calls (the trees are fitted once per arm and only applied
       afterwards: one leaf function), the rewards filed for arm a under leaf lf are EXACTLY the (binarizer-converted) rewards of the observations
       of the whole history since that fit whose decision is a and whose context falls into leaf lf, in arrival order - a filter of the history.
     * WHOLE HISTORY, Clusters (CluWhole.v): after fit and any number of partial_fit calls the stored history is the concatenation of the batches (rewards
       converted once) and the policy of cluster c after the last call is the policy AS CONSTRUCTED (Forget.v) trained on exactly the observations of that
       whole history whose k-means label is c, in stored order.
    Findings D6 / D7 concern the leaf policies' binarizer and generator;
    finding D19: Clusters.remove_arm does not purge the stored history (a re-added arm reports 0 until the next training call). *)
From Coq Require Import List ZArith Bool Arith QArith Qcanon Permutation.
From MW Require Import Num Assoc AssocFacts Rng Par CF CFInv CFClean CFForget CFSpec Matrix Lin Warm WarmInv Nbr NbrFacts NbrIndep LshFacts Clu Tree CellFacts Mab FacadeCF FacadeArms MoreFacts NumLaws CFAlg Sim Extra QcInst OrderFacts ExpIrrel LinInv FacadeLin LpInv NbrInv CluTreeInv FacadeAll ToyFacts C09All C10All LinForget LinSim MatrixFacts GaussJordan LinSpec NbrIndepGen CluIndep C17Lin WarmIdem C14More LshScale TreeLeaf Rename PopSpec CopyFacts StatFacts CluBatch LinWarm TreeWhole RowOrder CluWhole Forget.
Import ListNotations.

Theorem C12_cluster_policy_trained_on_rows_with_its_label :
  forall (R A G : Type) (N : Num R) (aeqb : A -> A -> bool) (s : (@clu R A G)) (g : G) 
    (labels : list nat) (c : nat) (l : (@lp R A G)),
  length (k_lps s) = k_n s ->
  nth_error (k_lps s) c = Some l ->
  nth_error (k_lps (fst (clu_refit N aeqb s g labels))) c =
  Some
    (fst
       (lp_fit N aeqb l g (rows_with_label labels c (k_ds s)) (rows_with_label labels c (k_rs s))
          (rows_with_label labels c (k_cx s)))).
Proof. exact @cluster_policy_trained_on_its_rows. Qed.
Print Assumptions C12_cluster_policy_trained_on_rows_with_its_label.

Theorem C12_rows_with_label_are_exactly_those_labelled :
  forall (T : Type) (labels : list nat) (c : nat) (l : list T) (x : T),
  In x (rows_with_label labels c l) <->
  (exists i : nat, nth_error labels i = Some c /\ nth_error l i = Some x).
Proof. exact @rows_with_label_spec. Qed.
Print Assumptions C12_rows_with_label_are_exactly_those_labelled.

Theorem C12_query_uses_assigned_cluster :
  forall (R A G : Type) (N : Num R) (aeqb : A -> A -> bool) (RG : RngOps R G) 
    (lps : list (@lp R A G)) (sd : Z) (seeds : list Z) (row : list R) (rows : list (list R)) 
    (c : nat) (assign : list nat) (l : (@lp R A G)) (is_predict : bool),
  nth_error lps c = Some l ->
  let
  '(e, l', _) := lp_expectations1 N aeqb RG l (create RG sd) row in
   clu_rows N aeqb RG lps (sd :: seeds) (row :: rows) (c :: assign) is_predict =
   (if is_predict
    then inl (argmax_first N e)
    else inr (map (fun kv : A * R => (fst kv, Some (snd kv))) e))
   :: clu_rows N aeqb RG (set_nth lps c l') seeds rows assign is_predict.
Proof. exact @cluster_query_uses_assigned_cluster. Qed.
Print Assumptions C12_query_uses_assigned_cluster.

Theorem C12_tree_rewards_filed_under_leaf_of_context :
  forall (R A : Type) (aeqb : A -> A -> bool),
  (forall x y : A, aeqb x y = true <-> x = y) ->
  forall (leaf : A -> list R -> nat) (lv : list (A * list (nat * list R))) (a : A) 
    (ds : list A) (rs : list R) (cx : (@mat R)) (lf : nat),
  let rows := filter (fun t : A * R * list R => aeqb (fst (fst t)) a) (combine (combine ds rs) cx) in
  aget_d Nat.eqb [] (aget_d aeqb [] (tree_fit_arm aeqb leaf lv a ds rs cx) a) lf =
  aget_d Nat.eqb [] (aget_d aeqb [] lv a) lf ++
  map (fun row : A * R * list R => snd (fst row))
    (filter (fun row : A * R * list R => leaf a (snd row) =? lf) rows).
Proof. exact @tree_fit_arm_leaf. Qed.
Print Assumptions C12_tree_rewards_filed_under_leaf_of_context.

Theorem C12_tree_other_arms_untouched :
  forall (R A : Type) (aeqb : A -> A -> bool),
  (forall x y : A, aeqb x y = true <-> x = y) ->
  forall (leaf : A -> list R -> nat) (lv : list (A * list (nat * list R))) (a b : A) 
    (ds : list A) (rs : list R) (cx : (@mat R)),
  b <> a -> aget aeqb (tree_fit_arm aeqb leaf lv a ds rs cx) b = aget aeqb lv b.
Proof. exact @tree_fit_arm_other. Qed.
Print Assumptions C12_tree_other_arms_untouched.

Theorem C12_tree_leaf_policy_holds_the_statistics_of_the_leaf :
  forall (R A : Type) (N : Num R) (aeqb : A -> A -> bool),
  (forall x y : A, aeqb x y = true <-> x = y) ->
  forall (hp : R) (bz : option (A -> R -> R)) (a : A) (rewards : list R),
  let l1 := cf_fit N aeqb (cf_init N KUcb hp bz [a]) (repeat a (length rewards)) rewards in
  c_total l1 = Z.of_nat (length rewards) /\ c_hp l1 = hp /\ ucb_arm_ok N aeqb l1 [rewards] a.
Proof. exact @leaf_policy_ucb. Qed.
Print Assumptions C12_tree_leaf_policy_holds_the_statistics_of_the_leaf.

Theorem C12_tree_reports_ucb_of_the_leaf_rewards :
  forall (R A G : Type) (N : Num R) (aeqb : A -> A -> bool) (RG : RngOps R G),
  (forall x y : A, aeqb x y = true <-> x = y) ->
  forall (s : (@tree R A)) (g : G) (a : A) (rewards : list R),
  c_kind (t_lp s) = KUcb ->
  leaf_expectation N aeqb RG s g a rewards =
  (spec_ucb N (c_hp (t_lp s)) (Z.of_nat (length rewards)) [rewards], g).
Proof. exact @leaf_expectation_ucb. Qed.
Print Assumptions C12_tree_reports_ucb_of_the_leaf_rewards.

Theorem C12_tree_thompson_leaf_policy_holds_the_beta_parameters_of_the_leaf :
  forall (R A : Type) (N : Num R) (aeqb : A -> A -> bool),
  (forall x y : A, aeqb x y = true <-> x = y) ->
  forall (a : A) (rewards : list R),
  let l1 := cf_fit N aeqb (cf_init N KThompson (zero N) None [a]) (repeat a (length rewards)) rewards in
  ts_arm_ok N aeqb l1 [rewards] a.
Proof. exact @leaf_policy_thompson. Qed.
Print Assumptions C12_tree_thompson_leaf_policy_holds_the_beta_parameters_of_the_leaf.

Theorem C12_tree_thompson_reports_one_beta_draw_with_the_leaf_parameters :
  forall (R A G : Type) (N : Num R) (aeqb : A -> A -> bool) (RG : RngOps R G),
  (forall x y : A, aeqb x y = true <-> x = y) ->
  forall (s : (@tree R A)) (g : G) (a : A) (rewards : list R),
  c_kind (t_lp s) = KThompson ->
  t_kf_rebin s = false ->
  leaf_expectation N aeqb RG s g a rewards =
  (let
   '(v, g1) := draw_r RG g (RqBeta (spec_succ N [rewards]) (spec_fail N [rewards]) 1) in
    (nth 0 v (zero N), g1)).
Proof. exact @leaf_expectation_thompson. Qed.
Print Assumptions C12_tree_thompson_reports_one_beta_draw_with_the_leaf_parameters.

Theorem C12_tree_greedy_leaf_policy_holds_the_mean_of_the_leaf :
  forall (R A : Type) (N : Num R) (aeqb : A -> A -> bool),
  (forall x y : A, aeqb x y = true <-> x = y) ->
  forall (hp : R) (bz : option (A -> R -> R)) (a : A) (rewards : list R),
  let l1 := cf_fit N aeqb (cf_init N KGreedy hp bz [a]) (repeat a (length rewards)) rewards in
  c_hp l1 = hp /\ c_arms l1 = [a] /\ greedy_arm_ok N aeqb l1 [rewards] a.
Proof. exact @leaf_policy_greedy. Qed.
Print Assumptions C12_tree_greedy_leaf_policy_holds_the_mean_of_the_leaf.

Theorem C12_tree_greedy_reports_the_leaf_mean_or_an_exploration_draw :
  forall (R A G : Type) (N : Num R) (aeqb : A -> A -> bool) (RG : RngOps R G),
  (forall x y : A, aeqb x y = true <-> x = y) ->
  forall (s : (@tree R A)) (g : G) (a : A) (rewards : list R),
  c_kind (t_lp s) = KGreedy ->
  leaf_expectation N aeqb RG s g a rewards =
  (let (u, g1) := draw_r RG g (RqRand []) in
   if ltb N (hd0 N u) (c_hp (t_lp s))
   then let (v, g2) := draw_r RG g1 (RqRand []) in (hd0 N v, g2)
   else (spec_mean N [rewards], g1)).
Proof. exact @leaf_expectation_greedy. Qed.
Print Assumptions C12_tree_greedy_reports_the_leaf_mean_or_an_exploration_draw.

Theorem C12_cluster_policy_is_trained_from_scratch_on_its_cell_of_the_whole_history :
  forall (R A G : Type) (N : Num R) (aeqb : A -> A -> bool) (s : (@clu R A G)) (g : G) 
    (ds : list A) (rs : list R) (cx : (@mat R)) (labels : list nat) (c : nat) (l : (@lp R A G)) 
    (is_fit : bool),
  clu_lps_inv N s ->
  length (k_lps s) = k_n s ->
  nth_error (fst (clu_binarize s ds rs)) c = Some l ->
  let s' :=
    fst
      (if is_fit then clu_fit N aeqb s g ds rs cx labels else clu_partial_fit N aeqb s g ds rs cx labels)
    in
  nth_error (k_lps s') c =
  Some
    (fst
       (lp_fit N aeqb (lp_forget N l) g (rows_with_label labels c (k_ds s'))
          (rows_with_label labels c (k_rs s')) (rows_with_label labels c (k_cx s')))).
Proof. exact @cluster_policy_is_trained_from_scratch_on_its_cell. Qed.
Print Assumptions C12_cluster_policy_is_trained_from_scratch_on_its_cell_of_the_whole_history.

Theorem C12_clusters_history_after_fit :
  forall (R A G : Type) (N : Num R) (aeqb : A -> A -> bool) (s : (@clu R A G)) (g : G) 
    (ds : list A) (rs : list R) (cx : (@mat R)) (labels : list nat),
  let s' := fst (clu_fit N aeqb s g ds rs cx labels) in
  k_ds s' = ds /\ k_rs s' = snd (clu_binarize s ds rs) /\ k_cx s' = cx.
Proof. exact @clu_fit_history. Qed.
Print Assumptions C12_clusters_history_after_fit.

Theorem C12_clusters_history_after_partial_fit :
  forall (R A G : Type) (N : Num R) (aeqb : A -> A -> bool) (s : (@clu R A G)) (g : G) 
    (ds : list A) (rs : list R) (cx : (@mat R)) (labels : list nat),
  let s' := fst (clu_partial_fit N aeqb s g ds rs cx labels) in
  k_ds s' = k_ds s ++ ds /\ k_rs s' = k_rs s ++ snd (clu_binarize s ds rs) /\ k_cx s' = k_cx s ++ cx.
Proof. exact @clu_partial_fit_history. Qed.
Print Assumptions C12_clusters_history_after_partial_fit.

Theorem C12_tree_cells_hold_the_filtered_history :
  forall (R A : Type) (aeqb : A -> A -> bool),
  (forall x y : A, aeqb x y = true <-> x = y) ->
  forall (s : (@tree R A)) (leaf : A -> list R -> nat) (b0 : list (A * R * list R))
    (h : list (list (A * R * list R))) (a : A) (lf : nat),
  NoDup (t_arms s) ->
  In a (t_arms s) ->
  leaves_at aeqb (tree_partials aeqb (tree_fit aeqb s leaf (ds_of b0) (rs_of b0) (cx_of b0)) leaf h) a
    lf = cell aeqb leaf a lf (map (conv s) (b0 ++ concat h)).
Proof. exact @tree_cells_hold_the_filtered_history. Qed.
Print Assumptions C12_tree_cells_hold_the_filtered_history.


