(*  C17 — A rejected call changes nothing.
   
    The model returns, for a rejected call, the state after whatever the code had already assigned when it
    raised; the theorems say that state is the one before the call (Leibniz equality):
     * add_arm, remove_arm, warm_start: for EVERY policy combination, every argument;
     * fit / partial_fit: for context-free bandits, TreeBandit, Radius/KNearest/LSHNearest and Clusters over a context-free policy - including the
       shape errors from inside training (context width, fewer rows than clusters are rejected before anything
       is assigned in the repaired code: fixes D9, Clusters history, TreeBandit width);
     * predict / predict_expectations before the first fit.
     * linear policies: a partial_fit with another context width is rejected from inside training by the first arm that has
       rows and leaves the policy and the bandit Leibniz-equal (C17Lin);
    ..._partial: linear policies and Clusters over linear policies can raise from np.linalg.inv inside a per-arm
    task after earlier arms were updated - for l2_lambda = 0 only: for l2_lambda > 0 the matrix is never singular (C02,
    ridge_fits_never_singular); the branch is modelled, and for l2_lambda = 0 the property is REFUTED on the model with a concrete witness
    (finding D22, reproduced on the code: LinAlgError after the first arm was refitted). Ill-typed arguments are outside the model and covered by the 19-class relation. *)
From Coq Require Import List ZArith Bool Arith QArith Qcanon Permutation.
From MW Require Import Num Assoc AssocFacts Rng Par CF CFInv CFClean CFForget CFSpec Matrix Lin Warm WarmInv Nbr NbrFacts NbrIndep LshFacts Clu Tree CellFacts Mab FacadeCF FacadeArms MoreFacts NumLaws CFAlg Sim Extra QcInst OrderFacts ExpIrrel LinInv FacadeLin LpInv NbrInv CluTreeInv FacadeAll ToyFacts C09All C10All LinForget LinSim MatrixFacts GaussJordan LinSpec NbrIndepGen CluIndep C17Lin WarmIdem C14More LshScale TreeLeaf Rename PopSpec CopyFacts StatFacts CluBatch LinWarm C17Singular.
Import ListNotations.

Theorem C17_rejected_arm_or_warm_start_call_changes_nothing :
  forall (R A G : Type) (N : Num R) (aeqb : A -> A -> bool) (RG : RngOps R G) (m : (@mab R A G)) (o : (@op R A)),
  match o with
  | AddArm _ _ | RemoveArm _ | WarmStart _ _ _ => True
  | _ => False
  end -> snd (step N aeqb RG m o) = ORejected -> fst (step N aeqb RG m o) = m.
Proof. exact @rejected_nontraining_call_changes_nothing. Qed.
Print Assumptions C17_rejected_arm_or_warm_start_call_changes_nothing.

Theorem C17_rejected_training_call_changes_nothing_partial :
  forall (R A G : Type) (N : Num R) (aeqb : A -> A -> bool) (RG : RngOps R G) 
    (m : (@mab R A G)) (ds : list A) (rs : list R) (cx : option (@ctxs R)) (orc : (@oracle R A)) 
    (partial : bool),
  never_raises (m_imp m) ->
  let o := if partial then PartialFit ds rs cx orc else Fit ds rs cx orc in
  snd (step N aeqb RG m o) = ORejected -> fst (step N aeqb RG m o) = m.
Proof. exact @rejected_training_call_changes_nothing. Qed.
Print Assumptions C17_rejected_training_call_changes_nothing_partial.

Theorem C17_query_before_fit_rejected_without_change :
  forall (R A G : Type) (N : Num R) (aeqb : A -> A -> bool) (RG : RngOps R G) 
    (m : (@mab R A G)) (cx : option (@ctxs R)) (orc : (@oracle R A)),
  m_fitted m = false ->
  step N aeqb RG m (Predict cx orc) = (m, ORejected) /\
  step N aeqb RG m (PredictExp cx orc) = (m, ORejected).
Proof. exact @rejected_query_before_fit. Qed.
Print Assumptions C17_query_before_fit_rejected_without_change.

Theorem C17_rejected_linear_partial_fit_changes_nothing :
  forall (R A G : Type) (N : Num R) (aeqb : A -> A -> bool) (RG : RngOps R G) 
    (m : (@mab R A G)) (s : (@lin R A G)) (ds : list A) (rs : list R) (cx : (@mat R)) (orc : (@oracle R A)) 
    (w d : nat),
  m_imp m = ILin s ->
  m_fitted m = true ->
  l_nf s = Some d ->
  uniform_width w cx ->
  w <> d ->
  snd (step N aeqb RG m (PartialFit ds rs (Some cx) orc)) = ORejected ->
  fst (step N aeqb RG m (PartialFit ds rs (Some cx) orc)) = m.
Proof. exact @rejected_linear_partial_fit_changes_nothing. Qed.
Print Assumptions C17_rejected_linear_partial_fit_changes_nothing.

Theorem C17_linear_policy_unchanged_by_width_rejected_partial_fit :
  forall (R A G : Type) (N : Num R) (aeqb : A -> A -> bool) (s : (@lin R A G)) (g : G) 
    (ds : list A) (rs : list R) (cx : (@mat R)) (w d : nat),
  uniform_width w cx ->
  l_nf s = Some d ->
  w <> d ->
  snd (lin_partial_fit N aeqb s g ds rs cx) = false -> fst (lin_partial_fit N aeqb s g ds rs cx) = s.
Proof. exact @lin_partial_fit_width_rejected. Qed.
Print Assumptions C17_linear_policy_unchanged_by_width_rejected_partial_fit.

Theorem C17_rejected_add_arm_unchanged :
  forall (R A G : Type) (N : Num R) (aeqb : A -> A -> bool) (RG : RngOps R G) 
    (m : (@mab R A G)) (a : A) (bz : option (A -> R -> R)),
  snd (step N aeqb RG m (AddArm a bz)) = ORejected -> fst (step N aeqb RG m (AddArm a bz)) = m.
Proof. exact @add_arm_rejected_unchanged. Qed.
Print Assumptions C17_rejected_add_arm_unchanged.

Theorem C17_rejected_singular_partial_fit_at_l2_zero_refuted :
  snd (step QcNum Z.eqb ToyRng d22_fitted d22_call) = ORejected /\
  beta_of d22_fitted 1 = [qz 1; qz 2] /\
  beta_of (fst (step QcNum Z.eqb ToyRng d22_fitted d22_call)) 1 <> [qz 1; qz 2].
Proof. exact @rejected_singular_partial_fit_refuted. Qed.
Print Assumptions C17_rejected_singular_partial_fit_at_l2_zero_refuted.


