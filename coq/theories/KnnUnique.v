(* KnnUnique.v — C03 / C20: how much freedom the KNearest oracle has.  The model takes the k selected positions from the run
   (numpy's argpartition) and accepts ANY valid certificate; the property accepts any valid tie-break when the k-th and (k+1)-th
   smallest distances coincide.  Here: when the distances to the query are pairwise distinct, two valid certificates select the SAME
   set of positions (as duplicate-free lists: permutations of each other) - the selection is a function of the distances, the oracle
   decides nothing but the order in which the neighbours are listed.  (Ordered-field laws: only antisymmetry of <= is used.) *)
From Coq Require Import ZArith List Bool Arith Lia Permutation.
From MW Require Import Num NumLaws Assoc AssocFacts Rng Par CF Matrix Lin Nbr NbrFacts.
Import ListNotations.

Section KnnUnique.
Context {R A G : Type} (N : Num R) (L : NumLaws N) (aeqb : A -> A -> bool) (RG : RngOps R G).
Notation nbr := (@nbr R A G).

(* what a valid certificate is, as propositions (knearest_valid, for a bare distance list) *)
Lemma knn_valid_spec (dists : list R) k sel :
  knn_valid N dists k sel = true ->
  length sel = k /\ NoDup sel /\ (forall i, In i sel -> i < length dists) /\
  (forall i j, In i sel -> j < length dists -> ~ In j sel -> leb N (nth i dists (zero N)) (nth j dists (zero N)) = true).
Proof.
  intros Ev. unfold knn_valid in Ev. repeat (apply andb_prop in Ev; destruct Ev as [Ev ?]).
  repeat split.
  - apply Nat.eqb_eq; exact Ev.
  - apply (nodup_nat_spec sel); assumption.
  - intros i Hi. rewrite forallb_forall in H0. specialize (H0 i Hi). apply Nat.ltb_lt in H0. exact H0.
  - intros i j Hi Hj Hnj. rewrite forallb_forall in H. specialize (H i Hi).
    rewrite forallb_forall in H. specialize (H j).
    assert (Hjs : In j (seq 0 (length dists))) by (apply in_seq; lia).
    specialize (H Hjs). apply orb_prop in H. destruct H as [H|H]; [|exact H].
    exfalso. apply Hnj. apply existsb_exists in H. destruct H as [x [Hx Ex]]. apply Nat.eqb_eq in Ex. subst. exact Hx.
Qed.

Definition distinct_distances (dists : list R) : Prop :=
  forall i j, i < length dists -> j < length dists -> i <> j -> nth i dists (zero N) <> nth j dists (zero N).

Lemma incl_or_witness (l2 l1 : list nat) : incl l2 l1 \/ exists j, In j l2 /\ ~ In j l1.
Proof.
  induction l2 as [|x t IH]; [left; intros y []|].
  destruct (in_dec Nat.eq_dec x l1) as [Hx|Hx].
  - destruct IH as [IH|[j [H1 H2]]]; [left; intros y [<-|Hy]; [exact Hx | apply IH; exact Hy] | right; exists j; split; [right; exact H1 | exact H2]].
  - right. exists x. split; [left; reflexivity | exact Hx].
Qed.

Theorem distinct_distances_make_the_selection_unique (dists : list R) k sel1 sel2 :
  distinct_distances dists ->
  knn_valid N dists k sel1 = true -> knn_valid N dists k sel2 = true ->
  Permutation sel1 sel2.
Proof.
  intros Hd V1 V2.
  destruct (knn_valid_spec dists k sel1 V1) as (L1 & N1 & R1 & M1).
  destruct (knn_valid_spec dists k sel2 V2) as (L2 & N2 & R2 & M2).
  assert (Hincl : forall a b, length a = k -> NoDup a -> (forall i, In i a -> i < length dists) ->
            (forall i j, In i a -> j < length dists -> ~ In j a -> leb N (nth i dists (zero N)) (nth j dists (zero N)) = true) ->
            length b = k -> NoDup b -> (forall i, In i b -> i < length dists) ->
            (forall i j, In i b -> j < length dists -> ~ In j b -> leb N (nth i dists (zero N)) (nth j dists (zero N)) = true) ->
            incl a b).
  { intros a b La Na Ra Ma Lb Nb Rb Mb i Hi.
    destruct (in_dec Nat.eq_dec i b) as [Hib|Hib]; [exact Hib | exfalso].
    destruct (incl_or_witness b a) as [Hba|[j [Hjb Hja]]].
    - (* b inside a, same length, no duplicates: a inside b *)
      assert (Hab : incl a b) by (apply (NoDup_length_incl Nb); [lia | exact Hba]).
      apply Hib, Hab, Hi.
    - pose proof (Ma i j Hi (Rb j Hjb) Hja) as H1.
      pose proof (Mb j i Hjb (Ra i Hi) Hib) as H2.
      apply (Hd i j (Ra i Hi) (Rb j Hjb)); [intros ->; contradiction|].
      apply (L_leb_antisym N L); assumption. }
  apply NoDup_Permutation; [exact N1 | exact N2|].
  intros i. split; [apply (Hincl sel1 sel2) | apply (Hincl sel2 sel1)]; assumption.
Qed.

(* for the bandit: two runs whose oracles both pass validation hand the learning policy the same neighbours *)
Theorem knearest_neighbourhood_is_a_function_of_the_distances (s : nbr) k row orc1 orc2 sel1 sel2 :
  n_kind s = NKNearest k ->
  distinct_distances (map (fun c => distance N (n_metric s) c row) (n_cx s)) ->
  neighborhood N s row orc1 = Some sel1 -> neighborhood N s row orc2 = Some sel2 ->
  Permutation sel1 sel2.
Proof.
  intros Ek Hd E1 E2. unfold neighborhood in E1, E2. rewrite Ek in E1, E2.
  destruct (knn_valid N _ k orc1) eqn:V1; [|discriminate]. destruct (knn_valid N _ k orc2) eqn:V2; [|discriminate].
  injection E1 as <-. injection E2 as <-.
  eapply distinct_distances_make_the_selection_unique; eassumption.
Qed.

End KnnUnique.
