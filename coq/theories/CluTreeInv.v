(* CluTreeInv.v — C08 for Clusters and TreeBandit: invariants on every reachable state and well-formed answers. *)
From Coq Require Import ZArith List Bool Lia.
From MW Require Import Num Assoc AssocFacts Rng Par CF CFInv Matrix Lin LinInv Nbr Clu Tree FacadeArms LpInv FacadeCF NbrInv.
Import ListNotations.

Section CluInv.
Context {R A G : Type} (N : Num R) (aeqb : A -> A -> bool) (RG : RngOps R G).
Hypothesis aeqb_spec : forall x y, aeqb x y = true <-> x = y.
Notation lp := (@lp R A G).
Notation clu := (@clu R A G).

Definition lps_ok (arms : list A) (lps : list lp) : Prop := Forall (fun l => lp_ok l /\ lp_arms l = arms) lps.

Definition clu_inv (s : clu) : Prop :=
  NoDup (k_arms s) /\ akeys (k_exp s) = k_arms s /\ lps_ok (k_arms s) (k_lps s).

Lemma clu_init_inv n arms l : NoDup arms -> lp_ok l -> lp_arms l = arms -> clu_inv (clu_init n arms l).
Proof.
  intros H1 H2 H3. unfold clu_inv, clu_init; simpl. repeat split; auto; [apply akeys_afromkeys|].
  unfold lps_ok. apply Forall_forall. intros x Hx. apply repeat_spec in Hx. subst x. auto.
Qed.

Lemma clu_refit_inv (s : clu) g labels :
  clu_inv s -> clu_inv (fst (clu_refit N aeqb s g labels)) /\ k_arms (fst (clu_refit N aeqb s g labels)) = k_arms s.
Proof.
  intros (Hn & He & Hl). unfold clu_refit, clu_inv; simpl. repeat split; auto.
  unfold lps_ok in *. rewrite Forall_forall in *. intros l Hin.
  apply in_map_iff in Hin. destruct Hin as [[l1 ok] [E Hin]]. simpl in E. subst l1.
  apply in_map_iff in Hin. destruct Hin as [[c l0] [E Hin]].
  apply in_combine_r in Hin. destruct (Hl l0 Hin) as [O1 O2].
  pose proof (lp_fit_ok N aeqb aeqb_spec l0 g (rows_with_label labels c (k_ds s)) (rows_with_label labels c (k_rs s)) (rows_with_label labels c (k_cx s)) O1) as [F1 F2].
  rewrite E in F1, F2. simpl in F1, F2. split; [exact F1 | rewrite F2; exact O2].
Qed.

Lemma clu_binarize_ok (s : clu) ds rs : lps_ok (k_arms s) (k_lps s) -> lps_ok (k_arms s) (fst (clu_binarize s ds rs)).
Proof.
  intros Hl. unfold clu_binarize. destruct (k_lps s) as [|l0 t] eqn:E; [simpl; constructor|].
  destruct (lp_is_ts_binz l0); cbn [fst]; [|exact Hl].
  unfold lps_ok in *. rewrite Forall_forall in *. intros l Hin. apply in_map_iff in Hin. destruct Hin as [l1 [E1 Hin]]. subst l.
  destruct (Hl l1 Hin) as [O1 O2]. destruct (lp_binarize_ok l1 ds rs O1) as [B1 B2]. split; [exact B1 | rewrite B2; exact O2].
Qed.

Lemma clu_fit_inv (s : clu) g ds rs cx labels :
  clu_inv s -> clu_inv (fst (clu_fit N aeqb s g ds rs cx labels)) /\ k_arms (fst (clu_fit N aeqb s g ds rs cx labels)) = k_arms s.
Proof.
  intros (Hn & He & Hl). unfold clu_fit. pose proof (clu_binarize_ok s ds rs Hl) as Hb.
  destruct (clu_binarize s ds rs) as [lps rs']. simpl in Hb.
  apply (clu_refit_inv (mkClu (k_n s) (k_arms s) lps (k_exp s) ds rs' cx) g labels). unfold clu_inv; simpl. auto.
Qed.

Lemma clu_partial_fit_inv (s : clu) g ds rs cx labels :
  clu_inv s -> clu_inv (fst (clu_partial_fit N aeqb s g ds rs cx labels)) /\ k_arms (fst (clu_partial_fit N aeqb s g ds rs cx labels)) = k_arms s.
Proof.
  intros (Hn & He & Hl). unfold clu_partial_fit. pose proof (clu_binarize_ok s ds rs Hl) as Hb.
  destruct (clu_binarize s ds rs) as [lps rs']. simpl in Hb.
  apply (clu_refit_inv (mkClu (k_n s) (k_arms s) lps (k_exp s) (k_ds s ++ ds) (k_rs s ++ rs') (k_cx s ++ cx)) g labels). unfold clu_inv; simpl. auto.
Qed.

Lemma clu_add_arm_inv (s : clu) a bz : clu_inv s -> ~ In a (k_arms s) -> clu_inv (clu_add_arm N aeqb s a bz).
Proof.
  intros (Hn & He & Hl) Hnot. unfold clu_inv, clu_add_arm; simpl. repeat split.
  - apply nodup_app_single; assumption.
  - rewrite (akeys_aset_notin aeqb aeqb_spec) by (rewrite He; exact Hnot). rewrite He. reflexivity.
  - unfold lps_ok in *. rewrite Forall_forall in *. intros l Hin. apply in_map_iff in Hin. destruct Hin as [l1 [E1 Hin]]. subst l.
    destruct (Hl l1 Hin) as [O1 O2].
    assert (Hnot' : ~ In a (lp_arms l1)) by (rewrite O2; exact Hnot).
    destruct (lp_add_arm_ok N aeqb aeqb_spec l1 a bz O1 Hnot') as [P1 P2]. split; [exact P1 | rewrite P2, O2; reflexivity].
Qed.

Lemma clu_remove_arm_inv (s : clu) a : clu_inv s -> clu_inv (clu_remove_arm N aeqb s a).
Proof.
  intros (Hn & He & Hl). unfold clu_inv, clu_remove_arm; simpl. repeat split.
  - apply lremove_nodup; exact Hn.
  - rewrite akeys_apop, He. reflexivity.
  - unfold lps_ok in *. rewrite Forall_forall in *. intros l Hin. apply in_map_iff in Hin. destruct Hin as [l1 [E1 Hin]]. subst l.
    destruct (Hl l1 Hin) as [O1 O2]. destruct (lp_remove_arm_ok N aeqb l1 a O1) as [P1 P2]. split; [exact P1 | rewrite P2, O2; reflexivity].
Qed.

Lemma in_firstn {T} n (l : list T) x : In x (firstn n l) -> In x l.
Proof. intros H. rewrite <- (firstn_skipn n l). apply in_or_app. left; exact H. Qed.
Lemma in_skipn {T} n (l : list T) x : In x (skipn n l) -> In x l.
Proof. intros H. rewrite <- (firstn_skipn n l). apply in_or_app. right; exact H. Qed.

Lemma set_nth_forall {T} (P : T -> Prop) (l : list T) i x : Forall P l -> P x -> Forall P (set_nth l i x).
Proof.
  revert i. induction l as [|h t IH]; intros [|i] Hf Hx; simpl; auto; inversion Hf; subst; constructor; auto.
Qed.
Lemma set_nth_length {T} (l : list T) i x : length (set_nth l i x) = length l.
Proof. revert i. induction l as [|h t IH]; intros [|i]; simpl; auto. Qed.

Lemma clu_rows_wf (arms : list A) p :
  rng_lengths_ok RG ->
  forall seeds rows assign (lps : list lp), lps_ok arms lps ->
  Forall (res_wf arms p) (clu_rows N aeqb RG lps seeds rows assign p) /\
  (Forall (fun c => c < length lps) assign ->
   length (clu_rows N aeqb RG lps seeds rows assign p) = Nat.min (length seeds) (Nat.min (length rows) (length assign))).
Proof.
  intros Hrng. induction seeds as [|sd seeds IH]; intros rows assign lps Hl; simpl; [auto|].
  destruct rows as [|row rows]; [simpl; auto|]. destruct assign as [|c assign]; [simpl; split; [constructor | intros; lia]|].
  destruct (nth_error lps c) as [l|] eqn:En.
  - assert (Hin : In l lps) by (eapply nth_error_In; eauto).
    unfold lps_ok in Hl. pose proof Hl as Hl0. rewrite Forall_forall in Hl0. destruct (Hl0 l Hin) as [O1 O2].
    pose proof (lp_expectations1_ok N aeqb RG aeqb_spec l (create RG sd) row Hrng O1) as X.
    destruct (lp_expectations1 N aeqb RG l (create RG sd) row) as [[e l'] g']. destruct X as (X1 & X2 & X3).
    assert (Hl' : lps_ok arms (set_nth lps c l')) by (apply set_nth_forall; [exact Hl | split; [exact X2 | rewrite X3; exact O2]]).
    destruct (IH rows assign (set_nth lps c l') Hl') as [I1 I2].
    split.
    + constructor; [|exact I1]. destruct p; simpl.
      * split; [reflexivity|]. intros Hne. assert (He' : e <> []) by (intros E0; subst e; simpl in X1; apply Hne; rewrite <- O2; auto).
        destruct (argmax_first_in N e He') as [x [Hx1 Hx2]]. exists x. split; [exact Hx1 | rewrite X1, O2 in Hx2; exact Hx2].
      * split; [reflexivity|]. rewrite map_map. simpl. change (map (fun x : A * R => fst x) e) with (akeys e). rewrite X1. exact O2.
    + intros Hf. inversion Hf; subst. simpl. rewrite I2; [lia|]. rewrite set_nth_length. assumption.
  - split; [constructor|]. intros Hf. inversion Hf; subst. apply nth_error_None in En. lia.
Qed.

Theorem clu_predict_wf (s : clu) g cx assign sizes p :
  rng_lengths_ok RG -> clu_inv s ->
  Forall (res_wf (k_arms s) p) (fst (clu_predict N aeqb RG s g cx assign sizes p)).
Proof.
  intros Hrng (Hn & He & Hl). unfold clu_predict.
  destruct (draw_z RG g (RqRandint 2147483647 (length cx))) as [seeds g1]. simpl.
  apply Forall_forall. intros r Hr. apply in_flat_map in Hr. destruct Hr as [[[sd rows] asg] [_ Hr]].
  destruct (clu_rows_wf (k_arms s) p Hrng sd rows asg (k_lps s) Hl) as [W _]. rewrite Forall_forall in W. apply W. exact Hr.
Qed.

(* one answer per context row, when the k-means oracle assigns every row to one of the clusters *)
Lemma clu_chunks_length (lps : list lp) (arms : list A) p :
  rng_lengths_ok RG -> lps_ok arms lps ->
  forall sizes seeds (cx : mat (R:=R)) assign,
  length seeds = length cx -> length assign = length cx -> Forall (fun c => c < length lps) assign -> sum_list sizes = length cx ->
  length (flat_map (fun q => let '(sd, rows, asg) := (q : list Z * mat (R:=R) * list nat) in clu_rows N aeqb RG lps sd rows asg p)
            (combine (combine (chunks sizes seeds) (chunks sizes cx)) (chunks sizes assign))) = length cx.
Proof.
  intros Hrng Hl. induction sizes as [|n sizes IH]; intros seeds cx assign H1 H2 Hf Hs; simpl in *; [lia|].
  rewrite app_length. rewrite IH; rewrite ?skipn_length; try lia.
  - destruct (clu_rows_wf arms p Hrng (firstn n seeds) (firstn n cx) (firstn n assign) lps Hl) as [_ L].
    rewrite L; [rewrite !firstn_length; lia|]. rewrite Forall_forall in *. intros c Hc. apply Hf. eapply in_firstn; eauto.
  - rewrite Forall_forall in *. intros c Hc. apply Hf. eapply in_skipn; eauto.
Qed.

End CluInv.

Section TreeInv.
Context {R A G : Type} (N : Num R) (aeqb : A -> A -> bool) (RG : RngOps R G).
Hypothesis aeqb_spec : forall x y, aeqb x y = true <-> x = y.
Notation tree := (@tree R A).

Definition tree_inv (s : tree) : Prop :=
  NoDup (t_arms s) /\ akeys (t_exp s) = t_arms s /\ akeys (t_leaves s) = t_arms s /\
  keys_ok (t_lp s) /\ c_arms (t_lp s) = t_arms s.

Lemma tree_init_inv kf1 kf2 arms (l : @cf R A) : NoDup arms -> keys_ok l -> c_arms l = arms -> tree_inv (tree_init N kf1 kf2 arms l).
Proof. intros H1 H2 H3. unfold tree_inv, tree_init; simpl. split; [|split; [|split; [|split]]]; auto; apply akeys_afromkeys. Qed.

Lemma tree_fit_arm_keys leaf (lv : list (A * list (nat * list R))) a ds rs cx :
  In a (akeys lv) -> akeys (tree_fit_arm aeqb leaf lv a ds rs cx) = akeys lv.
Proof.
  intros Hin. unfold tree_fit_arm. destruct (filter _ _); [reflexivity|]. apply (akeys_aset_in aeqb aeqb_spec). exact Hin.
Qed.

Lemma tree_fit_fold_keys leaf ds rs cx (arms : list A) (lv : list (A * list (nat * list R))) :
  (forall a, In a arms -> In a (akeys lv)) ->
  akeys (fold_left (fun lv a => tree_fit_arm aeqb leaf lv a ds rs cx) arms lv) = akeys lv.
Proof.
  revert lv. induction arms as [|a t IH]; intros lv H; simpl; [reflexivity|].
  rewrite IH; [apply tree_fit_arm_keys; apply H; left; reflexivity|].
  intros b Hb. rewrite tree_fit_arm_keys by (apply H; left; reflexivity). apply H. right; exact Hb.
Qed.

Lemma tree_binarize_ok (s : tree) ds rs :
  keys_ok (t_lp s) -> keys_ok (fst (tree_binarize s ds rs)) /\ c_arms (fst (tree_binarize s ds rs)) = c_arms (t_lp s).
Proof.
  intros H. unfold tree_binarize. destruct (c_kind (t_lp s)); simpl; auto. destruct (c_binz (t_lp s)); simpl; auto.
Qed.

Lemma tree_fit_inv (s : tree) leaf ds rs cx : tree_inv s -> tree_inv (tree_fit aeqb s leaf ds rs cx) /\ t_arms (tree_fit aeqb s leaf ds rs cx) = t_arms s.
Proof.
  intros (Hn & He & Hlv & Hk & Ha). unfold tree_fit. destruct (tree_binarize_ok s ds rs Hk) as [B1 B2].
  destruct (tree_binarize s ds rs) as [l rs']. simpl in B1, B2.
  unfold tree_inv, tree_parallel_fit; simpl. split; [|reflexivity]. split; [|split; [|split; [|split]]]; auto; try congruence.
  rewrite tree_fit_fold_keys; rewrite akeys_afromkeys; auto.
Qed.

Lemma tree_partial_fit_inv (s : tree) leaf ds rs cx : tree_inv s -> tree_inv (tree_partial_fit aeqb s leaf ds rs cx) /\ t_arms (tree_partial_fit aeqb s leaf ds rs cx) = t_arms s.
Proof.
  intros (Hn & He & Hlv & Hk & Ha). unfold tree_partial_fit. destruct (tree_binarize_ok s ds rs Hk) as [B1 B2].
  destruct (tree_binarize s ds rs) as [l rs']. simpl in B1, B2.
  unfold tree_inv, tree_parallel_fit; simpl. split; [|reflexivity]. split; [|split; [|split; [|split]]]; auto; try congruence.
  rewrite tree_fit_fold_keys; [exact Hlv | rewrite Hlv; auto].
Qed.

Lemma tree_add_arm_inv (s : tree) a bz : tree_inv s -> ~ In a (t_arms s) -> tree_inv (tree_add_arm N aeqb s a bz).
Proof.
  intros (Hn & He & Hlv & Hk & Ha) Hnot. unfold tree_inv, tree_add_arm; simpl. split; [|split; [|split; [|split]]].
  - apply nodup_app_single; assumption.
  - rewrite (akeys_aset_notin aeqb aeqb_spec) by (rewrite He; exact Hnot). rewrite He. reflexivity.
  - rewrite (akeys_aset_notin aeqb aeqb_spec) by (rewrite Hlv; exact Hnot). rewrite Hlv. reflexivity.
  - apply (cf_add_arm_keys_ok N aeqb aeqb_spec); [exact Hk | rewrite Ha; exact Hnot].
  - rewrite <- Ha. apply cf_add_arm_arms.
Qed.

Lemma tree_remove_arm_inv (s : tree) a : tree_inv s -> tree_inv (tree_remove_arm N aeqb s a).
Proof.
  intros (Hn & He & Hlv & Hk & Ha). unfold tree_inv, tree_remove_arm; simpl. split; [|split; [|split; [|split]]].
  - apply lremove_nodup; exact Hn.
  - rewrite akeys_apop, He. reflexivity.
  - rewrite akeys_apop, Hlv. reflexivity.
  - apply (cf_remove_arm_keys_ok N aeqb); exact Hk.
  - rewrite <- Ha. apply cf_remove_arm_arms.
Qed.

Lemma tree_row_arms_keys (s : tree) leaf row (arms : list A) (e : list (A * R)) g :
  (forall a, In a arms -> In a (akeys e)) ->
  akeys (fst (tree_row_arms N aeqb RG s leaf row arms e g)) = akeys e.
Proof.
  revert e g. induction arms as [|a t IH]; intros e g H; simpl; [reflexivity|].
  destruct (aget_d aeqb [] (t_leaves s) a) as [|x tbl].
  - apply IH. intros b Hb. apply H. right; exact Hb.
  - destruct (leaf_expectation N aeqb RG s g a _) as [v g1].
    assert (Hk : akeys (aset aeqb e a v) = akeys e) by (apply (akeys_aset_in aeqb aeqb_spec); apply H; left; reflexivity).
    rewrite IH; [exact Hk|]. intros b Hb. rewrite Hk. apply H. right; exact Hb.
Qed.

Lemma tree_rows_wf (s : tree) leaf p :
  rng_index_ok RG -> 
  forall seeds rows (e : list (A * R)) gb, akeys e = t_arms s ->
  Forall (res_wf (t_arms s) p) (fst (tree_rows N aeqb RG s leaf seeds rows e gb p)) /\
  length (fst (tree_rows N aeqb RG s leaf seeds rows e gb p)) = Nat.min (length seeds) (length rows).
Proof.
  intros Hidx. induction seeds as [|sd seeds IH]; intros rows e gb He; simpl; [auto|].
  destruct rows as [|row rows]; [simpl; auto|].
  set (gl := if t_kf_sharedrng s then gb else create RG sd).
  pose proof (tree_row_arms_keys s leaf row (t_arms s) e gl) as Hk.
  destruct (tree_row_arms N aeqb RG s leaf row (t_arms s) e gl) as [e1 g1]. simpl in Hk.
  assert (He1 : akeys e1 = t_arms s) by (rewrite Hk; [exact He | intros a Ha; rewrite He; exact Ha]).
  assert (Hmax : t_arms s <> [] -> exists x, argmax_first N e1 = Some x /\ In x (t_arms s)).
  { intros Hne. assert (He' : e1 <> []) by (intros E0; subst e1; simpl in He1; apply Hne; auto).
    destruct (argmax_first_in N e1 He') as [x [Hx1 Hx2]]. exists x. rewrite He1 in Hx2. auto. }
  match goal with |- context [let '(r, g2) := ?X in _] => destruct X as [r g2] eqn:Er end.
  assert (Hr : res_wf (t_arms s) p r).
  { destruct p.
    - destruct (match c_kind (t_lp s) with KGreedy => true | _ => false end).
      + destruct (draw_r RG g1 (RqRand [])) as [u g2'].
        destruct (ltb N (hd0 N u) (c_hp (t_lp s))).
        * destruct (draw_z RG g2' (RqRandint2 0 (Z.of_nat (length (t_arms s))))) as [z g3] eqn:Ez.
          injection Er as <- <-. simpl. split; [reflexivity|]. intros Hne.
          assert (Hpos : (0 < length (t_arms s))%nat) by (destruct (t_arms s); [congruence | simpl; lia]).
          pose proof (proj2 (Hidx g2' _ Hpos)) as Hv. rewrite Ez in Hv. simpl in Hv.
          destruct (nth_error_index_in (t_arms s) z Hne Hv) as [x [Hx1 Hx2]]. exists x; auto.
        * injection Er as <- <-. split; [reflexivity | exact Hmax].
      + injection Er as <- <-. split; [reflexivity | exact Hmax].
    - injection Er as <- <-. simpl. split; [reflexivity|]. rewrite map_map. simpl. exact He1. }
  destruct (IH rows e1 (if t_kf_sharedrng s then g2 else gb) He1) as [I1 I2].
  destruct (tree_rows N aeqb RG s leaf seeds rows e1 (if t_kf_sharedrng s then g2 else gb) p) as [rest gf].
  simpl in *. split; [constructor; assumption | lia].
Qed.

Theorem tree_predict_wf (s : tree) g leaf cx p :
  rng_index_ok RG -> tree_inv s ->
  Forall (res_wf (t_arms s) p) (fst (tree_predict N aeqb RG s g leaf cx p)) /\
  ((forall g high size, length (fst (draw_z RG g (RqRandint high size))) = size) ->
   length (fst (tree_predict N aeqb RG s g leaf cx p)) = length cx).
Proof.
  intros Hidx (Hn & He & _). unfold tree_predict.
  destruct (draw_z RG g (RqRandint 2147483647 (length cx))) as [seeds g1] eqn:Ed.
  destruct (tree_rows_wf s leaf p Hidx seeds cx (t_exp s) g1 He) as [W1 W2].
  split; [exact W1|]. intros Hz. rewrite W2. specialize (Hz g 2147483647%Z (length cx)). rewrite Ed in Hz. simpl in Hz. lia.
Qed.

End TreeInv.
