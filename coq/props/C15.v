(*  C15 — The Simulator reports what the public API would have produced.
   
    MODEL (SimRun.v, tied to simulator.py by the differential run harness/simcorr.py on every check): the simulator-specific
    neighbourhood classes (neighbours read from a cache of distances shared between the bandits of a chunk, expectations
    taken from the same call and recorded in row_arm_to_expectation), the replacement done by _train_bandits, the
    offline driver and the online driver (per batch: predict all bandits, then partial_fit all bandits), over the
    facade model of MAB.
   
    PROVED, for every data set, split, batch size, number of bandits, metric, hyper-parameter, partition (n_jobs) and generator:
     * one predict call of a simulator class returns the predictions of the library class from the same generator state and
       leaves the generator in the same state, over every context-free policy and over LinGreedy / LinUCB (the simulator
       makes one more query on the worker's private policy copy than the library: irrelevant for the rows after it,
       by the fit-forgets argument of C05/C07);
     * the shared distance dictionary is sound: all replaced bandits of a simulation store the same contexts (after
       training and after every online update), so another bandit's distances for the same metric are the bandit's own;
       bandits of one simulation do not influence each other (offline and online);
     * training and every online update of a replaced bandit produce the library bandit's state;
     * OFFLINE: a replaced neighbourhood bandit reports the predictions of fit + predict through the public API;
     * ONLINE: a contextual bandit the simulator keeps (linear, Clusters, TreeBandit) is driven exactly through
       predict / predict_expectations / partial_fit; a replaced neighbourhood bandit reports the predictions of the library
       bandit driven by predict / partial_fit (..._partial: NOT of the public protocol with the expectations read in
       between - that statement is refuted on the model with a concrete witness, finding D13, and on the code).
     * CHUNKED DRIVERS (sim_offline_chunked / sim_online_chunked: the branch taken when the shared distance list would exceed 1 GB; these
       are the functions the correspondence runs, with the real chunk size or one lowered from outside): when every batch fits into one
       chunk they ARE the plain drivers (so every theorem above speaks about what is executed); in a genuinely chunked run the per-chunk
       distance dictionaries still never couple the bandits.  Chunking changes how many row seeds a randomised bandit draws per call, so no
       equality with the un-chunked public protocol is claimed for randomised policies there.
    NOT MODELLED: confusion matrices, plotting, the scaler option of the Simulator; LinTS under a
    neighbourhood policy is excluded (finding D8); context-free bandits are driven by n successive predict() calls by
    definition of the model (checked against the Simulator by the correspondence, against the API by the replay relation). *)
From Coq Require Import List ZArith Bool Arith QArith Qcanon Permutation.
From MW Require Import Num Assoc AssocFacts Rng Par CF CFInv CFClean CFForget CFSpec Matrix Lin Warm WarmInv Nbr NbrFacts NbrIndep LshFacts Clu Tree CellFacts Mab FacadeCF FacadeArms MoreFacts NumLaws CFAlg Sim Extra QcInst OrderFacts ExpIrrel LinInv FacadeLin LpInv NbrInv CluTreeInv FacadeAll ToyFacts C09All C10All LinForget LinSim MatrixFacts GaussJordan LinSpec NbrIndepGen CluIndep C17Lin WarmIdem C14More LshScale TreeLeaf Rename PopSpec CopyFacts StatFacts CluBatch LinWarm SimRun SimRunFacts SimDrivers SimD13.
Import ListNotations.

Theorem C15_simulator_radius_selection_refines_library :
  forall (R A : Type) (N : Num R) (G : Type) (s : (@nbr R A G)) (r : R) (row : list R) (orc : list nat),
  n_kind s = NRadius r ->
  neighborhood N s row orc =
  Some (sim_radius_select N (map (fun c : list R => distance N (n_metric s) c row) (n_cx s)) r).
Proof. exact @sim_radius_refines_library. Qed.
Print Assumptions C15_simulator_radius_selection_refines_library.

Theorem C15_row_without_neighbours_reports_the_library_expectations :
  forall (R A G : Type) (N : Num R) (aeqb : A -> A -> bool) (RG : RngOps R G) 
    (s : (@nbr R A G)) (l : (@lp R A G)) (quick : bool) (raw : list R) (seed : Z) (row : list R) 
    (orc : list nat),
  neighborhood N s row orc = Some [] ->
  nnprob_len_ok s = true ->
  (exists p : option A,
     simnbr_row N aeqb RG s l quick raw seed row (own_cache N s row) orc =
     Some (p, (n_exp s, []), 0%nat, l)) /\
  (exists r : (@lp R A G), nbr_row N aeqb RG s l seed row orc false = Some (inr (n_exp s), r)).
Proof. exact @sim_empty_neighbourhood_reports_the_library_expectations. Qed.
Print Assumptions C15_row_without_neighbours_reports_the_library_expectations.

Theorem C15_simulator_predict_refines_library_predict :
  forall (R A G : Type) (N : Num R) (aeqb : A -> A -> bool) (RG : RngOps R G),
  (forall x y : A, aeqb x y = true <-> x = y) ->
  rng_lengths_ok RG ->
  forall (s : (@nbr R A G)) (quick : bool) (raw : list R) (g : G) (cx : (@mat R)) (orcs : list (list nat))
    (sizes : list nat),
  lp_sim_ok N (n_lp s) ->
  let (r, g1) := simnbr_predict N aeqb RG s quick raw g cx (sim_distances N s cx) orcs sizes in
  nbr_predict N aeqb RG s g cx orcs sizes true = (option_map preds_of r, g1).
Proof. exact @sim_predict_refines_library. Qed.
Print Assumptions C15_simulator_predict_refines_library_predict.

Theorem C15_shared_distance_cache_is_sound :
  forall (R A G : Type) (N : Num R) (aeqb : A -> A -> bool) (RG : RngOps R G) 
    (H : (@mat R)) (bs : list (@sbandit R A G)) (dc : (@dcache R)) (cx : option (@ctxs R)) (n lo hi : nat) 
    (orcs : list (@borc R A)),
  Forall (shares_history H) bs ->
  dc_valid N H (octx cx) dc ->
  sim_query_all N aeqb RG bs dc cx n lo hi orcs = sim_query_each N aeqb RG bs cx n lo hi orcs.
Proof. exact @shared_cache_sound. Qed.
Print Assumptions C15_shared_distance_cache_is_sound.

Theorem C15_trained_bandits_share_the_history :
  forall (R A G : Type) (N : Num R) (aeqb : A -> A -> bool) (RG : RngOps R G) 
    (quick : bool) (ms : list (@mab R A G)) (train : (@batch R A)) (cx : (@ctxs R)) (orcs : list (@oracle R A)),
  b_cx train = Some cx ->
  Forall (shares_history cx) (map fst (sim_train_all N aeqb RG quick ms train orcs)).
Proof. exact @trained_bandits_share_the_history. Qed.
Print Assumptions C15_trained_bandits_share_the_history.

Theorem C15_offline_bandits_do_not_influence_each_other :
  forall (R A G : Type) (N : Num R) (aeqb : A -> A -> bool) (RG : RngOps R G)
    (bs : list (sbandit * (@report R A))) (test : (@batch R A)) (orcs : list (@borc R A)) (H : (@mat R)),
  Forall (shares_history H) (map fst bs) ->
  sim_offline N aeqb RG bs test orcs =
  report_all bs
    (sim_query_each N aeqb RG (map fst bs) (b_cx test) (length (b_ds test)) 0 (length (b_ds test)) orcs).
Proof. exact @offline_bandits_do_not_influence_each_other. Qed.
Print Assumptions C15_offline_bandits_do_not_influence_each_other.

Theorem C15_online_bandits_do_not_influence_each_other :
  forall (R A G : Type) (N : Num R) (aeqb : A -> A -> bool) (RG : RngOps R G) 
    (batches : list (@batch R A)) (bs : list (sbandit * (@report R A))) (lo : nat) (orcs : list (list (@borc R A))) 
    (H : (@mat R)),
  Forall (shares_history H) (map fst bs) ->
  sim_online N aeqb RG bs lo batches orcs = per_bandit N aeqb RG bs lo batches orcs.
Proof. exact @online_bandits_do_not_influence_each_other. Qed.
Print Assumptions C15_online_bandits_do_not_influence_each_other.

Theorem C15_chunked_offline_driver_is_the_plain_one_when_the_test_set_fits_a_chunk :
  forall (R A G : Type) (N : Num R) (aeqb : A -> A -> bool) (RG : RngOps R G) 
    (c : nat) (bs : list (sbandit * (@report R A))) (test : (@batch R A)) (o : list (@borc R A)),
  (1 <= length (b_ds test))%nat ->
  (length (b_ds test) <= c)%nat ->
  cx_slice 0 (length (b_ds test)) (b_cx test) = b_cx test ->
  sim_offline_chunked N aeqb RG c bs test [o] = sim_offline N aeqb RG bs test o.
Proof. exact @offline_chunked_single_chunk. Qed.
Print Assumptions C15_chunked_offline_driver_is_the_plain_one_when_the_test_set_fits_a_chunk.

Theorem C15_chunked_online_driver_is_the_plain_one_when_batches_fit_a_chunk :
  forall (R A G : Type) (N : Num R) (aeqb : A -> A -> bool) (RG : RngOps R G) 
    (c : nat) (batches : list (@batch R A)) (bs : list (sbandit * (@report R A))) (lo : nat) 
    (orcs : list (list (@borc R A))),
  Forall
    (fun bt : (@batch R A) =>
     (1 <= length (b_ds bt) <= c)%nat /\ cx_slice 0 (length (b_ds bt)) (b_cx bt) = b_cx bt) batches ->
  length orcs = length batches ->
  sim_online_chunked N aeqb RG c bs lo batches (map (fun o : list (@borc R A) => [o]) orcs) =
  sim_online N aeqb RG bs lo batches orcs.
Proof. exact @online_chunked_single_chunks. Qed.
Print Assumptions C15_chunked_online_driver_is_the_plain_one_when_batches_fit_a_chunk.

Theorem C15_chunked_bandits_do_not_influence_each_other :
  forall (R A G : Type) (N : Num R) (aeqb : A -> A -> bool) (RG : RngOps R G)
    (bounds : list (nat * nat)) (bs : list (sbandit * (@report R A))) (cx : option (list (list R))) 
    (lo : nat) (orcs : list (list (@borc R A))) (H : (@mat R)),
  Forall (shares_history H) (map fst bs) ->
  sim_chunk_loop N aeqb RG bs cx lo bounds orcs = sim_chunk_loop_each N aeqb RG bs cx lo bounds orcs.
Proof. exact @chunked_bandits_do_not_influence_each_other. Qed.
Print Assumptions C15_chunked_bandits_do_not_influence_each_other.

Theorem C15_training_a_replaced_bandit_gives_the_library_state :
  forall (R A G : Type) (N : Num R) (aeqb : A -> A -> bool) (RG : RngOps R G) 
    (quick : bool) (m : (@mab R A G)) (s : (@nbr R A G)) (ds : list A) (rs : list R) (cx : option (@ctxs R)) 
    (orc : (@oracle R A)),
  m_imp m = INbr s ->
  fresh_nbr s ->
  fit_args_ok N m ds rs cx = true ->
  let (b, ok) := sim_train N aeqb RG quick m ds rs cx orc in
  let (m1, o) := step N aeqb RG m (Fit ds rs cx orc) in
  ok = true /\
  o = ODone /\
  (exists (s1 : (@nbr R A G)) (g1 : G),
     b = SNbr s1 g1 {| k_rows := []; k_raw := rs; k_quick := quick |} /\
     m1 = lib_of s1 g1 /\ n_lp s1 = fst (lp_binarize (n_lp s) ds rs)).
Proof. exact @sim_train_refines_api. Qed.
Print Assumptions C15_training_a_replaced_bandit_gives_the_library_state.

Theorem C15_updating_a_replaced_bandit_gives_the_library_state :
  forall (R A G : Type) (N : Num R) (aeqb : A -> A -> bool) (RG : RngOps R G) 
    (s : (@nbr R A G)) (g : G) (rae : nbk) (ds : list A) (rs : list R) (cx : (@ctxs R)) (orc : (@oracle R A)),
  fit_args_ok N (lib_of s g) ds rs (Some cx) = true ->
  width_ok (n_cx s) cx = true ->
  let (b, ok) := sim_update N aeqb RG (SNbr s g rae) ds rs (Some cx) orc in
  let (m1, o) := step N aeqb RG (lib_of s g) (PartialFit ds rs (Some cx) orc) in
  ok = true /\
  o = ODone /\
  (exists rae' : nbk, b = SNbr (nbr_partial_fit N s ds rs cx) g rae') /\
  m1 = lib_of (nbr_partial_fit N s ds rs cx) g.
Proof. exact @sim_update_refines_api. Qed.
Print Assumptions C15_updating_a_replaced_bandit_gives_the_library_state.

Theorem C15_offline_neighbourhood_predictions_equal_public_api :
  forall (R A G : Type) (N : Num R) (aeqb : A -> A -> bool) (RG : RngOps R G),
  (forall x y : A, aeqb x y = true <-> x = y) ->
  rng_lengths_ok RG ->
  forall (quick : bool) (m : (@mab R A G)) (s : (@nbr R A G)) (train test : (@batch R A)) (tcx qcx : list (list R))
    (orcT op oe : (@oracle R A)),
  m_imp m = INbr s ->
  fresh_nbr s ->
  lp_sim_ok N (n_lp s) ->
  b_cx train = Some tcx ->
  b_cx test = Some qcx ->
  fit_args_ok N m (b_ds train) (b_rs train) (b_cx train) = true ->
  let (b, _) := sim_train N aeqb RG quick m (b_ds train) (b_rs train) (b_cx train) orcT in
  let
  '(_, r) := sim_query1 N aeqb RG b (b_cx test) (length (b_ds test)) 0 (length (b_ds test)) op oe in
   let (m1, _) := step N aeqb RG m (Fit (b_ds train) (b_rs train) (b_cx train) orcT) in
   let (_, o) := step N aeqb RG m1 (Predict (b_cx test) op) in option_map fst r = out_arms o.
Proof. exact @offline_neighbourhood_predictions_are_the_public_api's. Qed.
Print Assumptions C15_offline_neighbourhood_predictions_equal_public_api.

Theorem C15_online_kept_contextual_bandit_follows_the_public_protocol :
  forall (R A G : Type) (N : Num R) (aeqb : A -> A -> bool) (RG : RngOps R G) 
    (batches : list (@batch R A)) (m : (@mab R A G)) (p0 : list (option A)) (e0 : list (list (A * option R))) 
    (lo : nat) (orcs : list (@borc R A)),
  is_contextual (m_imp m) = true ->
  let (_, rep) := sim_online1 N aeqb RG (SMab m) (Some (p0, e0)) lo batches orcs in
  let (_, r) := api_online N aeqb RG m batches orcs in
  match r with
  | Some (p, e) => rep = Some (p0 ++ p, e0 ++ e)
  | None => rep = None
  end.
Proof. exact @online_kept_contextual_bandit_is_the_public_protocol. Qed.
Print Assumptions C15_online_kept_contextual_bandit_follows_the_public_protocol.

Theorem C15_online_neighbourhood_bandit_equals_predict_update_protocol_partial :
  forall (R A G : Type) (N : Num R) (aeqb : A -> A -> bool) (RG : RngOps R G),
  (forall x y : A, aeqb x y = true <-> x = y) ->
  rng_lengths_ok RG ->
  forall (batches : list (@batch R A)) (s : (@nbr R A G)) (g : G) (rae : nbk) (p0 : list (option A))
    (e0 : list (list (A * option R))) (lo : nat) (orcs : list (@borc R A)),
  lp_sim_ok N (n_lp s) ->
  let (_, rep) := sim_online1 N aeqb RG (SNbr s g rae) (Some (p0, e0)) lo batches orcs in
  let (_, r) := api_online_predict_only N aeqb RG (lib_of s g) batches orcs in
  match r with
  | Some p => rep_preds rep = Some (p0 ++ p)
  | None => True
  end.
Proof. exact @online_neighbourhood_bandit_is_the_predict_update_protocol. Qed.
Print Assumptions C15_online_neighbourhood_bandit_equals_predict_update_protocol_partial.

Theorem C15_online_neighbourhood_public_protocol_refuted :
  rep_preds
    (snd
       (sim_online1 QcNum Z.eqb ToyRng
          (SNbr d13_trained 0%nat {| k_rows := []; k_raw := [1]; k_quick := true |}) 
          (Some ([], [])) 0 [d13_batch; d13_batch2] [d13_borc; d13_borc])) = 
  Some [Some 10%Z; Some 20%Z] /\
  option_map fst
    (snd
       (api_online QcNum Z.eqb ToyRng (lib_of d13_trained 0%nat) [d13_batch; d13_batch2]
          [d13_borc; d13_borc])) = Some [Some 10%Z; Some 30%Z] /\
  snd
    (api_online_predict_only QcNum Z.eqb ToyRng (lib_of d13_trained 0%nat) [
       d13_batch; d13_batch2] [d13_borc; d13_borc]) = Some [Some 10%Z; Some 20%Z].
Proof. exact @online_public_protocol_refuted. Qed.
Print Assumptions C15_online_neighbourhood_public_protocol_refuted.

(* non-vacuity: the hypotheses on the bandit handed to the Simulator hold for a freshly constructed Radius bandit *)
Example C15_hypotheses_are_met :
  fresh_nbr d13_nbr /\ lp_sim_ok QcNum (n_lp d13_nbr) /\ rng_lengths_ok ToyRng.
Proof.
  split; [reflexivity|]. split; [|exact toy_rng_lengths_ok].
  split; [apply keys_ok_init; repeat constructor; simpl; intuition discriminate | apply clean_init].
Qed.

