(*  C04 — Seeded runs are reproducible and bandit instances are isolated.
   
    What a model can carry: the model's step is a FUNCTION of (state, call), the generator and the third-party
    libraries are functions of (state, request) by assumption (DESIGN.md 2.4), so equal constructor arguments and
    equal call sequences give equal results by construction.  The non-trivial content is ISOLATION:
    PROVED for every policy combination, every number of bandit objects in the process, every interleaving of the
    calls addressed to one bandit with calls addressed to the others (any merge of the call lists): the results
    of bandit i, and its final state, are those of bandit i driven alone through its own calls.
    ..._partial: the model (after fix D5) has no state shared between instances; that the CODE has none is what
    the correspondence (randomness trace of every generator request) and the four-interpreter relation check on
    every run.  Hash-seed and process-boundary independence are runtime behaviour no model exhibits. *)
From Coq Require Import List ZArith Bool Arith QArith Qcanon Permutation.
From MW Require Import Num Assoc AssocFacts Rng Par CF CFInv CFClean CFForget CFSpec Matrix Lin Warm WarmInv Nbr NbrFacts NbrIndep LshFacts Clu Tree CellFacts Mab FacadeCF FacadeArms MoreFacts NumLaws CFAlg Sim Extra QcInst OrderFacts ExpIrrel LinInv FacadeLin LpInv NbrInv CluTreeInv FacadeAll ToyFacts C09All C10All LinForget LinSim MatrixFacts GaussJordan LinSpec NbrIndepGen CluIndep C17Lin WarmIdem C14More LshScale TreeLeaf Rename PopSpec CopyFacts StatFacts CluBatch LinWarm.
Import ListNotations.

Theorem C04_isolation_under_every_interleaving_partial :
  forall (R A G : Type) (N : Num R) (aeqb : A -> A -> bool) (RG : RngOps R G) 
    (calls : list (nat * (@op R A))) (w : list (@mab R A G)) (i : nat) (m : (@mab R A G)),
  nth_error w i = Some m ->
  only i (snd (wrun N aeqb RG w calls)) = snd (run N aeqb RG m (only i calls)) /\
  nth_error (fst (wrun N aeqb RG w calls)) i = Some (fst (run N aeqb RG m (only i calls))).
Proof. exact @isolation. Qed.
Print Assumptions C04_isolation_under_every_interleaving_partial.


