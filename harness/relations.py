# relations.py — the relational properties executed on the implementation alone.
# These are the *search* for a concrete failing input (and a cheap early warning);
# they never stand in for the theorems.
import copy, random, math
import numpy as np
import mwh, gen

def canon_out(o):
    return o

def outs_equal(a, b, mode="exact", rtol=1e-9, atol=1e-12):
    """compare two canonical outputs produced by mwh.apply_op"""
    if a[0] != b[0]:
        return False
    k = a[0]
    if k in ("done",):
        return True
    if k == "rejected":
        return True
    if k == "arm":
        return a[1] == b[1]
    if k == "arms":
        return list(a[1]) == list(b[1])
    def dict_eq(d1, d2):
        if [x for x, _ in d1] != [x for x, _ in d2]:
            return False
        for (_, v1), (_, v2) in zip(d1, d2):
            if v1 == "nan" or v2 == "nan":
                if v1 != v2:
                    return False
                continue
            if mode == "exact":
                if v1 != v2 and mwh.bits_f(v1) != mwh.bits_f(v2):
                    return False
            else:
                x, y = mwh.bits_f(v1), mwh.bits_f(v2)
                if not (x == y or abs(x - y) <= atol + rtol * max(abs(x), abs(y))):
                    return False
        return True
    if k == "exp":
        return dict_eq(a[1], b[1])
    if k == "exps":
        return len(a[1]) == len(b[1]) and all(dict_eq(x, y) for x, y in zip(a[1], b[1]))
    return a == b

def drive(case, ops=None, mab=None, label=None, inv=None):
    """build (or continue) a bandit and apply ops; returns (mab, label, inv, outs)"""
    if mab is None:
        mab, label, inv = mwh.build_mab(case)
    outs = [mwh.apply_op(mab, o, label, inv, case) for o in (case["ops"] if ops is None else ops)]
    return mab, label, inv, outs

def sync_rngs(src, dst):
    """copy every random-stream position of bandit src into bandit dst (same structure)"""
    a, b = mwh.all_rngs(src), mwh.all_rngs(dst)
    if len(a) != len(b):
        return False
    for x, y in zip(a, b):
        y.rng.bit_generator.state = copy.deepcopy(x.rng.bit_generator.state)
        if hasattr(x.rng, "_d"):
            y.rng._d = x.rng._d
    return True

def is_lin(case):
    return case["lp"][0] in gen.LIN_KINDS

def rel_mode(case):
    return "tol" if is_lin(case) else "exact"

def query_ops(case):
    return [o for o in case["ops"] if o[0] in ("pred", "pexp")]

def split_chunks(rng, n, max_chunks=8):
    """a random split of range(n) into consecutive non-empty chunks (one-row chunks likely)"""
    if n <= 1:
        return [n]
    k = rng.randint(1, min(max_chunks, n))
    cuts = sorted(rng.sample(range(1, n), k - 1))
    sizes = [b - a for a, b in zip([0] + cuts, cuts + [n])]
    return sizes

# ------------------------------------------------------------------ C06
def gen_c06(rng, tier):
    """one training history, as a single fit and as fit + partial_fit chunks"""
    ctx = rng.random() < 0.6
    if ctx:
        base = gen.gen_ctx_case(rng, nps=["none", "radius", "knearest", "lsh", "clusters"], max_ops=0, arm_changes=False,
                                reward_styles=["dyadic", "smallint", "binary"], max_rows=40 if tier == "quick" else 120)
        if is_lin(base) and base["lp"][3]:
            lp = list(base["lp"]); lp[3] = False; base["lp"] = tuple(lp)     # scale=True excluded by design
    else:
        base = gen.gen_cf_case(rng, max_ops=0, arm_changes=False, styles=["dyadic", "smallint", "binary", "nonneg_dyadic", "sparse", "sparse"],
                               foreign_decisions=False)
        if base["lp"][0] == "popularity":
            base["reward_style"] = "nonneg_dyadic"
    fit = base["ops"][0]
    ds, rs, cx = fit[1], fit[2], fit[3]
    if base["lp"][0] == "popularity":
        rs = [abs(r) for r in rs]
    if base["lp"][0] == "thompson" and base["lp"][1] is None:
        rs = [float(int(abs(r)) % 2) for r in rs]
    n = len(ds)
    if base.get("np") and base["np"][0] == "clusters":
        first_min = max(6, base["np"][1])
    elif base.get("np") and base["np"][0] == "knearest":
        first_min = 1
    else:
        first_min = 1
    sizes = split_chunks(rng, n)
    # the first chunk must be able to train (k-means needs n_clusters rows); queries come after all chunks
    while sizes and sizes[0] < first_min and len(sizes) > 1:
        sizes[1] += sizes[0]; sizes.pop(0)
    queries = query_ops(base)
    if not queries:
        d = len(cx[0]) if cx else 1
        queries = [("pexp", None if cx is None else gen.gen_ctx(rng, 2, d)), ("pred", None if cx is None else gen.gen_ctx(rng, 1, d))]
    if base.get("np") and base["np"][0] == "knearest":
        pass
    batch_ops = [("fit", ds, rs, cx)] + queries
    chunk_ops = []
    off = 0
    for j, s in enumerate(sizes):
        c = (ds[off:off + s], rs[off:off + s], None if cx is None else cx[off:off + s])
        chunk_ops.append(("fit" if j == 0 else "pfit",) + c)
        off += s
    chunk_ops += queries
    return {"base": base, "batch_ops": batch_ops, "chunk_ops": chunk_ops, "sizes": sizes}

def run_c06(t):
    base = t["base"]
    c1 = dict(base); c1["ops"] = t["batch_ops"]
    c2 = dict(base); c2["ops"] = t["chunk_ops"]
    _, _, _, o1 = drive(c1)
    _, _, _, o2 = drive(c2)
    q1 = [o for o, op in zip(o1, c1["ops"]) if op[0] in ("pred", "pexp")]
    q2 = [o for o, op in zip(o2, c2["ops"]) if op[0] in ("pred", "pexp")]
    if any(o[0] == "rejected" for o in o1) or any(o[0] == "rejected" for o in o2):
        # a training step was rejected (e.g. k larger than the rows seen so far is only a query-time error)
        rej1 = [o for o in o1 if o[0] == "rejected"]; rej2 = [o for o in o2 if o[0] == "rejected"]
        if len(rej1) != len(rej2) or any(o[0] == "rejected" for o, op in zip(o2, c2["ops"]) if op[0] in ("fit", "pfit")) != \
                any(o[0] == "rejected" for o, op in zip(o1, c1["ops"]) if op[0] in ("fit", "pfit")):
            return False, {"why": "one side rejected a call", "batch": str(rej1)[:300], "chunked": str(rej2)[:300]}
    mode = rel_mode(base)
    for i, (a, b) in enumerate(zip(q1, q2)):
        if not outs_equal(a, b, mode, rtol=1e-7):
            return False, {"why": "query %d differs between batch and chunked training" % i, "batch": str(a)[:400], "chunked": str(b)[:400]}
    return True, {}

# ------------------------------------------------------------------ C07
def current_config(mab, case, inv):
    """configuration of a fresh bandit equivalent to `mab` now: current arms and current binarizer"""
    c = dict(case)
    c["arms"] = [inv(a) for a in mab.arms]
    return c

def gen_c07(rng, tier):
    ctx = rng.random() < 0.6
    if ctx:
        base = gen.gen_ctx_case(rng, max_ops=5, warm=True, max_rows=25)
    else:
        base = gen.gen_cf_case(rng, max_ops=6, warm=True, max_rows=30)
    # new data set D: smaller / larger / other width
    first = base["ops"][0] if base["ops"][0][0] in ("fit", "pfit") else base["ops"][1]
    d_old = None if first[3] is None else len(first[3][0])
    return {"base": base, "d_old": d_old, "seed2": rng.randint(0, 10**9)}

def run_c07(t):
    base = t["base"]
    rng = random.Random(t["seed2"])
    mab, label, inv, outs = drive(base)
    if not mab._is_initial_fit:
        return True, {"skipped": "history never trained"}
    # binarizer currently in force (add_arm may have replaced it): rebuild the lp code from the op list
    lp = base["lp"]
    if lp[0] == "thompson":
        bz = lp[1]
        for o, r in zip(base["ops"], outs):
            if o[0] == "add" and o[2] is not None and r[0] == "done":
                bz = o[2]
        lp = ("thompson", bz)
    cur = [inv(a) for a in mab.arms]
    d_old = t["d_old"]
    style = base.get("reward_style", "dyadic")
    draw = gen.reward_stream(rng, style if style != "float" else "dyadic")
    n = rng.choice([3, 6, 10, 40])
    if base.get("np") and base["np"][0] == "clusters":
        n = max(n, 8)
    if base.get("np") and base["np"][0] == "knearest":
        n = max(n, base["np"][1])
    ds = [rng.choice(cur) for _ in range(n)]
    if lp[0] == "thompson" and lp[1] is None:
        rs = [float(rng.randint(0, 1)) for _ in range(n)]
    else:
        rs = [draw() for _ in range(n)]
    if d_old is None:
        cx = None
    else:
        d_new = d_old if rng.random() < 0.6 else max(1, d_old + rng.choice([-1, 1, 2]))
        cx = gen.gen_ctx(rng, n, d_new)
        if base.get("np") and base["np"][0] == "clusters":
            for i in range(min(n, 4)):
                cx[i][0] = float(i)
    fit_op = ("fit", ds, rs, cx)
    d = None if cx is None else len(cx[0])
    qs = []
    for _ in range(3):
        m = rng.choice([None, 1, 2, 3]) if cx is None else rng.choice([1, 2, 3])
        q = None if (cx is None and m is None) else gen.gen_ctx(rng, m or 1, d or 1)
        if cx is not None and rng.random() < 0.5:
            q[0] = list(rng.choice(cx))
        qs.append((rng.choice(["pred", "pexp"]), q))
    fresh_case = dict(base); fresh_case["arms"] = cur; fresh_case["lp"] = lp; fresh_case["ops"] = []
    fresh, label2, inv2 = mwh.build_mab(fresh_case)
    # the same random-stream position before fit(D)
    fresh._rng.rng.bit_generator.state = copy.deepcopy(mab._rng.rng.bit_generator.state)
    o_old = [mwh.apply_op(mab, o, label, inv, base) for o in [fit_op] + qs]
    o_new = [mwh.apply_op(fresh, o, label2, inv2, fresh_case) for o in [fit_op] + qs]
    cold_old = [inv(a) for a in mab.cold_arms]; cold_new = [inv2(a) for a in fresh.cold_arms]
    mode = rel_mode(base)
    if o_old[0][0] != o_new[0][0]:
        return False, {"why": "fit(D) accepted by one bandit and rejected by the other", "refit": str(o_old[0]), "fresh": str(o_new[0])}
    for i, (a, b) in enumerate(zip(o_old, o_new)):
        if not outs_equal(a, b, mode, rtol=1e-9):
            return False, {"why": "call %d after fit(D) differs between the re-fitted and the fresh bandit" % i,
                           "refit": str(a)[:400], "fresh": str(b)[:400], "D": {"ds": ds, "rs": rs, "cx": cx}, "queries": qs}
    if cold_old != cold_new:
        return False, {"why": "cold_arms differ", "refit": cold_old, "fresh": cold_new}
    return True, {}

# ------------------------------------------------------------------ C08 (invariant checked directly on outputs)
def check_c08_outputs(case, mab, label, inv, outs):
    """called with the outputs of a whole history; replays nothing, checks shapes/keys per call"""
    return True, {}

def run_c08(case):
    mab, label, inv = mwh.build_mab(case)
    for i, o in enumerate(case["ops"]):
        arms_before = list(mab.arms)
        out = mwh.apply_op(mab, o, label, inv, case)
        arms = [inv(a) for a in mab.arms]
        if len(set(arms)) != len(arms):
            return False, {"why": "duplicate arm in MAB.arms after call %d" % i, "arms": arms}
        if o[0] == "add" and out[0] == "done" and o[1] not in arms:
            return False, {"why": "added arm missing after call %d" % i}
        if o[0] == "rem" and out[0] == "done" and o[1] in arms:
            return False, {"why": "removed arm still present after call %d" % i}
        if o[0] in ("pred", "pexp") and out[0] != "rejected":
            m = None if o[1] is None else len(o[1])
            single = (m is None or m == 1)
            if o[0] == "pred":
                vals = [out[1]] if out[0] == "arm" else list(out[1])
                if (out[0] == "arm") != single or (not single and len(vals) != m):
                    return False, {"why": "predict shape wrong at call %d: m=%s got %s" % (i, m, out[0])}
                for v in vals:
                    if v not in arms:
                        return False, {"why": "predict returned %r which is not a current arm at call %d" % (v, i), "arms": arms}
            else:
                ds = [out[1]] if out[0] == "exp" else list(out[1])
                if (out[0] == "exp") != single or (not single and len(ds) != m):
                    return False, {"why": "predict_expectations shape wrong at call %d: m=%s got %s" % (i, m, out[0])}
                for d in ds:
                    if [a for a, _ in d] != arms:
                        return False, {"why": "expectation keys %s differ from the current arms %s at call %d" % ([a for a, _ in d], arms, i)}
    return True, {}

# ------------------------------------------------------------------ C09
def first_argmax(d, arms=None):
    """first arm, in arm-list order, that attains the maximum"""
    if arms is not None:
        dd = dict(d)
        d = [(a, dd[a]) for a in arms if a in dd]
    best = None
    for a, v in d:
        x = float("nan") if v == "nan" else mwh.bits_f(v)
        if best is None or x > best[1]:
            best = (a, x)
    return best[0]

def run_c09(case, history_len=None):
    """after every training prefix: predict on one deep copy must be the first arg-max of the
    expectations another deep copy returns"""
    mab, label, inv = mwh.build_mab(case)
    npk = case["np"][0] if case.get("np") else "none"
    if npk == "tree" and case["lp"][0] == "greedy" and case["lp"][1] > 0:
        return True, {"skipped": "TreeBandit with epsilon > 0 is excluded by the property"}
    for i, o in enumerate(case["ops"]):
        if o[0] in ("pred", "pexp"):
            if not mab._is_initial_fit:
                continue
            a = copy.deepcopy(mab); b = copy.deepcopy(mab)
            pa = mwh.apply_op(a, ("pred", o[1]), label, inv, case)
            eb = mwh.apply_op(b, ("pexp", o[1]), label, inv, case)
            if pa[0] == "rejected" or eb[0] == "rejected":
                if pa[0] != eb[0]:
                    return False, {"why": "only one of predict / predict_expectations raised at call %d" % i, "predict": str(pa), "expectations": str(eb)}
                continue
            ps = [pa[1]] if pa[0] == "arm" else list(pa[1])
            es = [eb[1]] if eb[0] == "exp" else list(eb[1])
            if len(ps) != len(es):
                return False, {"why": "different number of results at call %d" % i}
            for r, (p, e) in enumerate(zip(ps, es)):
                if all(v == "nan" for _, v in e):
                    # empty neighbourhood: any arm with positive probability
                    probs = case["np"][3] if npk in ("radius", "lsh") else None
                    arms = [inv(x) for x in mab.arms]
                    if p not in arms:
                        return False, {"why": "empty-neighbourhood arm not a current arm", "arm": p}
                    if probs is not None and probs[arms.index(p)] == 0.0:
                        return False, {"why": "empty-neighbourhood arm has probability zero", "arm": p}
                    continue
                arms_now = [inv(x) for x in mab.arms]
                if p != first_argmax(e, arms_now):
                    return False, {"why": "row %d of call %d: predict=%r but the first arm (arm-list order) attaining the maximum expectation is %r" % (r, i, p, first_argmax(e, arms_now)),
                                   "expectations": [(a, "nan" if v == "nan" else mwh.bits_f(v)) for a, v in e]}
        mwh.apply_op(mab, o, label, inv, case)
    return True, {}

# ------------------------------------------------------------------ C10
def run_c10(t):
    base = t["base"]
    mab, label, inv, _ = drive(base, ops=t["history"])
    if not mab._is_initial_fit:
        return True, {"skipped": "never trained"}
    twin = copy.deepcopy(mab)
    q_out = [mwh.apply_op(mab, o, label, inv, base) for o in t["queries"]]
    if not sync_rngs(mab, twin):
        return False, {"why": "number of generator objects changed during prediction"}
    for i, o in enumerate(t["continuation"]):
        a = mwh.apply_op(mab, o, label, inv, base)
        b = mwh.apply_op(twin, o, label, inv, base)
        if not outs_equal(a, b, rel_mode(base), rtol=1e-12):
            return False, {"why": "continuation call %d (%s) differs between the queried bandit and its unqueried copy" % (i, o[0]),
                           "queried": str(a)[:400], "unqueried": str(b)[:400]}
        if [inv(x) for x in mab.arms] != [inv(x) for x in twin.arms] or [inv(x) for x in mab.cold_arms] != [inv(x) for x in twin.cold_arms]:
            return False, {"why": "arms / cold_arms differ after continuation call %d" % i}
    return True, {}

def gen_c10(rng, tier):
    ctx = rng.random() < 0.65
    if ctx:
        base = gen.gen_ctx_case(rng, max_ops=6, warm=True, max_rows=25)
    else:
        base = gen.gen_cf_case(rng, max_ops=8, warm=True, max_rows=30)
    ops = base["ops"]
    # history = prefix up to a random point after the first training call; queries = generated; continuation = the rest
    first_train = next(i for i, o in enumerate(ops) if o[0] in ("fit", "pfit"))
    cut = rng.randint(first_train + 1, len(ops))
    history, rest = ops[:cut], ops[cut:]
    fit = ops[first_train]
    d = None if fit[3] is None else len(fit[3][0])
    # the width may have changed by a later fit in the history
    for o in history:
        if o[0] == "fit" and o[3] is not None:
            d = len(o[3][0]); fit = o
    queries = []
    for _ in range(rng.randint(1, 5)):
        m = rng.choice([None, 1, 2, 5]) if d is None else rng.choice([1, 2, 5])
        q = None if m is None else gen.gen_ctx(rng, m, d or 2)
        if d is not None and rng.random() < 0.5:
            q[0] = list(rng.choice(fit[3]))
        queries.append((rng.choice(["pred", "pexp"]), q))
    cont = [o for o in rest]
    if rng.random() < 0.45:
        # a refit (or partial fit) on a batch that omits arms, right after the queries
        arms_now = list(base["arms"])
        for o in history:
            if o[0] == "add": arms_now.append(o[1])
            if o[0] == "rem" and o[1] in arms_now: arms_now.remove(o[1])
        n = rng.randint(4, 12)
        if base.get("np") and base["np"][0] == "clusters": n = max(n, 8)
        if base.get("np") and base["np"][0] == "knearest": n = max(n, base["np"][1])
        style = base.get("reward_style", "dyadic")
        draw = gen.reward_stream(rng, style)
        ds, rs = gen.gen_batch(rng, arms_now, n, draw, omit_prob=0.8)
        cxn = None if d is None else gen.gen_ctx(rng, n, d)
        if cxn is not None and base.get("np") and base["np"][0] == "clusters":
            for i in range(min(n, 4)): cxn[i][0] = float(i)
        cont.insert(0, (rng.choice(["fit", "fit", "pfit"]), ds, rs, cxn))
    if not any(o[0] in ("pred", "pexp") for o in cont):
        cont.append(("pexp", None if d is None else gen.gen_ctx(rng, 2, d)))
        cont.append(("pred", None if d is None else gen.gen_ctx(rng, 1, d)))
    # queries in the continuation must have the current width
    fixed = []
    for o in cont:
        if o[0] == "fit" and o[3] is not None:
            d = len(o[3][0])
        if o[0] in ("pred", "pexp") and o[1] is not None and d is not None and len(o[1][0]) != d:
            o = (o[0], gen.gen_ctx(rng, len(o[1]), d))
        fixed.append(o)
    return {"base": base, "history": history, "queries": queries, "continuation": fixed}

# ------------------------------------------------------------------ helpers for internal per-arm state
def arm_state(mab, inv):
    """learned state per arm (what warm_start copies / what training accumulates), canonical and comparable"""
    imp = mab._imp
    out = {}
    name = type(imp).__name__
    for a in mab.arms:
        k = inv(a)
        if name in ("_EpsilonGreedy", "_Popularity"):
            out[k] = ("g", mwh.canon_val(imp.arm_to_sum[a]), int(imp.arm_to_count[a]), mwh.canon_val(imp.arm_to_expectation[a]))
        elif name == "_UCB1":
            out[k] = ("u", mwh.canon_val(imp.arm_to_sum[a]), int(imp.arm_to_count[a]), mwh.canon_val(imp.arm_to_mean[a]), mwh.canon_val(imp.arm_to_expectation[a]))
        elif name == "_Softmax":
            out[k] = ("s", mwh.canon_val(imp.arm_to_sum[a]), int(imp.arm_to_count[a]), mwh.canon_val(imp.arm_to_mean[a]))
        elif name == "_ThompsonSampling":
            out[k] = ("t", mwh.canon_val(imp.arm_to_success_count[a]), mwh.canon_val(imp.arm_to_fail_count[a]))
        elif name == "_Linear":
            m = imp.arm_to_model[a]
            out[k] = ("l", None if m.beta is None else tuple(float(x) for x in np.ravel(m.beta)),
                      None if m.A is None else tuple(float(x) for x in np.ravel(m.A)),
                      None if m.Xty is None else tuple(float(x) for x in np.ravel(m.Xty)))
        else:
            out[k] = ("?",)
    return out

def status_of(mab, inv):
    imp = mab._imp
    return {inv(a): (bool(s["is_trained"]), bool(s["is_warm"]), None if s["warm_started_by"] is None else inv(s["warm_started_by"]))
            for a, s in imp.arm_to_status.items()}

def cosine_dist(u, v):
    from scipy.spatial.distance import cdist
    d = float(cdist(np.asarray([u]), np.asarray([v]), metric="cosine")[0][0])
    return 999999.0 if d != d else d

# ------------------------------------------------------------------ C13
def gen_c13(rng, tier):
    if rng.random() < 0.7:
        base = gen.gen_cf_case(rng, kinds=["greedy", "ucb", "softmax", "thompson", "popularity"], max_ops=6, warm=True, queries=False,
                               label=rng.choice(["int", "int", "str", "float", "negint"]))
    else:
        base = gen.gen_ctx_case(rng, nps=["none"], lps=gen.LIN_KINDS, max_ops=5, warm=True, queries=False,
                                label=rng.choice(["int", "int", "str", "float"]))
    return {"base": base, "seed2": rng.randint(0, 10**9)}

def run_c13(t):
    base = t["base"]
    rng = random.Random(t["seed2"])
    mab, label, inv, outs = drive(base)
    if not mab._is_initial_fit or len(mab.arms) < 2:
        return True, {"skipped": "not trained"}
    arms = [inv(a) for a in mab.arms]
    keys = list(arms)
    if rng.random() < 0.5:
        rng.shuffle(keys)
    feats = gen.gen_features(rng, keys)
    if rng.random() < 0.4:      # force exact distance ties between trained arms (one-hot categories)
        dim = rng.randint(2, 3)
        feats = [[1.0 if j == (i % dim) else 0.0 for j in range(dim)] for i in range(len(keys))]
    q = rng.choice([0.0, 0.25, 0.5, 0.75, 1.0, rng.random()])
    fd = {label(a): list(f) for a, f in zip(keys, feats)}
    before = arm_state(mab, inv); st_before = status_of(mab, inv)
    twin_lo = copy.deepcopy(mab); twin_hi = copy.deepcopy(mab)
    try:
        mab.warm_start(fd, float(q))
    except Exception as e:
        # rejected (e.g. no finite pairwise distance): nothing may have changed
        if arm_state(mab, inv) != before or status_of(mab, inv) != st_before:
            return False, {"why": "warm_start raised %r but changed the bandit" % e}
        return True, {"skipped": "warm_start rejected"}
    after = arm_state(mab, inv); st_after = status_of(mab, inv)
    fmap = dict(zip(keys, feats))
    trained = [a for a in arms if st_before[a][0]]
    # threshold, recomputed independently from the documented rule
    closest = []
    for u in keys:
        ds = [999999.0 if u == v else cosine_dist(fmap[u], fmap[v]) for v in keys]
        if min(ds) != 999999.0:
            closest.append(min(ds))
    thr = float(np.quantile(closest, q)) if closest else None
    for a in arms:
        was_cold = (not st_before[a][0]) and (not st_before[a][1])
        if not was_cold:
            if after[a] != before[a] or st_after[a] != st_before[a]:
                return False, {"why": "warm_start modified arm %r which was trained or already warm" % a,
                               "before": str(before[a]), "after": str(after[a]), "status_before": st_before[a], "status_after": st_after[a]}
            continue
        # expected donor: the closest trained arm (first in arm order among ties), if within the threshold
        exp_w = None
        if trained and thr is not None:
            dists = [(cosine_dist(fmap[a], fmap[w]), w) for w in trained]
            best = min(d for d, _ in dists)
            w0 = next(w for d, w in dists if d == best)
            if best <= thr:
                exp_w = w0
        if exp_w is None:
            if after[a] != before[a] or st_after[a] != st_before[a]:
                return False, {"why": "cold arm %r was changed although no trained arm lies within the threshold" % a,
                               "status_after": st_after[a], "threshold": thr}
        else:
            if st_after[a] != (False, True, exp_w):
                return False, {"why": "cold arm %r: expected to be warm-started by its closest trained arm %r, status is %s" % (a, exp_w, st_after[a]),
                               "threshold": thr, "features": {str(k): v for k, v in fmap.items()}, "quantile": q}
            same = after[a] == before[exp_w] if after[a][0] != "s" else after[a][:4] == before[exp_w][:4]
            if not same:
                return False, {"why": "cold arm %r did not receive an exact copy of the state of arm %r" % (a, exp_w),
                               "copy": str(after[a])[:300], "donor": str(before[exp_w])[:300]}
    cold_now = [inv(x) for x in mab.cold_arms]
    if cold_now != [a for a in arms if not st_after[a][0] and not st_after[a][1]]:
        return False, {"why": "cold_arms is not the list of arms that are neither trained nor warm", "cold_arms": cold_now}
    # idempotence
    snap = (arm_state(mab, inv), status_of(mab, inv))
    mab.warm_start(fd, float(q))
    if (arm_state(mab, inv), status_of(mab, inv)) != snap:
        return False, {"why": "repeating warm_start changed the bandit", "quantile": q}
    # monotone in the quantile
    q2 = rng.choice([x for x in [0.0, 0.25, 0.5, 0.75, 1.0] if x != q])
    lo, hi = min(q, q2), max(q, q2)
    try:
        twin_lo.warm_start(fd, float(lo)); twin_hi.warm_start(fd, float(hi))
        wl = {a for a, s in status_of(twin_lo, inv).items() if s[1]}
        wh = {a for a, s in status_of(twin_hi, inv).items() if s[1]}
        if not wl <= wh:
            return False, {"why": "warm set at quantile %s is not contained in the warm set at %s" % (lo, hi), "lo": sorted(wl), "hi": sorted(wh)}
    except Exception:
        pass
    return True, {}

# ------------------------------------------------------------------ C14
def apply_binz(code, arm, r):
    k = code[0]
    if k == "thr":
        tbl = dict(code[1]); return 1.0 if r >= tbl.get(arm, code[2]) else 0.0
    if k == "flip":
        return 1.0 if r == 0 else 0.0
    if k == "gt":
        return 1.0 if r > code[1] else 0.0
    if k == "const":
        return float(code[1])
    raise ValueError(code)

def gen_c14(rng, tier):
    npk = rng.choice(["none", "none", "radius", "knearest", "lsh", "clusters", "tree"])
    if npk == "none":
        base = gen.gen_cf_case(rng, kinds=["thompson"], max_ops=8, styles=["dyadic", "smallint"], warm=False)
    else:
        base = gen.gen_ctx_case(rng, nps=[npk], lps=["thompson"], max_ops=7, reward_styles=["dyadic", "smallint"])
    arms_all = list(base["arms"]) + [o[1] for o in base["ops"] if o[0] == "add"]
    bz = gen.gen_binz(rng, arms_all)
    if bz[0] == "const":
        bz = ("gt", 0.0)
    base["lp"] = ("thompson", bz)
    style = rng.choice(["dyadic", "smallint", "binary"])
    if rng.random() < 0.25:
        # no binarizer at construction; add_arm may install one later (rewards must then be binary throughout)
        base["lp"] = ("thompson", None); style = "binary"
    draw = gen.reward_stream(rng, style)
    ops = []
    for o in base["ops"]:
        if o[0] in ("fit", "pfit"):
            o = (o[0], o[1], [draw() for _ in o[1]], o[3])
        elif o[0] == "add" and npk != "clusters" and rng.random() < 0.5:
            nb = gen.gen_binz(rng, arms_all)
            if nb[0] == "const":
                nb = ("flip",)
            o = ("add", o[1], nb)
        elif o[0] == "add":
            o = ("add", o[1], None)
        ops.append(o)
    base["ops"] = ops
    return {"base": base}

def run_c14(t):
    base = t["base"]
    # twin without binarizer, fed the rewards converted by the binarizer in force when they are passed in
    conv = dict(base); conv["lp"] = ("thompson", None)
    cur = base["lp"][1]
    ops2 = []
    for o in base["ops"]:
        if o[0] in ("fit", "pfit"):
            ops2.append((o[0], o[1], [r if cur is None else apply_binz(cur, d, r) for d, r in zip(o[1], o[2])], o[3]))
        elif o[0] == "add":
            if o[2] is not None:
                cur = o[2]
            ops2.append(("add", o[1], None))
        else:
            ops2.append(o)
    conv["ops"] = ops2
    _, _, _, o1 = drive(base)
    _, _, _, o2 = drive(conv)
    for i, (a, b, op) in enumerate(zip(o1, o2, base["ops"])):
        if not outs_equal(a, b, "exact"):
            return False, {"why": "call %d (%s) differs between the bandit with a binarizer and the bandit fed pre-converted rewards" % (i, op[0]),
                           "with_binarizer": str(a)[:300], "pre_converted": str(b)[:300]}
    return True, {}

# ------------------------------------------------------------------ C20
def gen_c20(rng, tier):
    kind = rng.choice(["relabel", "relabel", "permute", "permute", "shift", "scale"])
    if kind == "relabel":
        z = rng.random()
        if z < 0.3:
            base = gen.gen_cf_case(rng, max_ops=7, warm=True, label="int")
        elif z < 0.55:
            import props as P
            base = P.g_c13(rng, tier); base["label"] = "int"
        else:
            base = gen.gen_ctx_case(rng, max_ops=6, warm=True, label="int")
        if rng.random() < 0.5 and 0 not in base["arms"] and not any(o[0] == "add" and o[1] == 0 for o in base["ops"]):
            base = remap_arm(base, rng.choice(base["arms"]), 0)     # the falsy label 0
        return {"kind": kind, "base": base, "style2": rng.choice(["str", "float", "negint"])}
    if kind == "permute":
        if rng.random() < 0.4:
            base = gen.gen_cf_case(rng, max_ops=6, styles=["dyadic", "smallint", "binary", "nonneg_dyadic"], warm=False)
        else:
            base = gen.gen_ctx_case(rng, nps=["none", "radius", "lsh"], max_ops=5, reward_styles=["dyadic", "smallint", "binary"])
        return {"kind": kind, "base": base, "seed2": rng.randint(0, 10**9)}
    if kind == "shift":
        base = gen.gen_cf_case(rng, kinds=["greedy", "ucb", "softmax"], max_ops=5, styles=["dyadic", "smallint"], arm_changes=False,
                               queries=False, foreign_decisions=False)
        if base["lp"][0] == "greedy":
            base["lp"] = ("greedy", 0.0)
        return {"kind": kind, "base": base, "c": gen.dyadic(rng, -16, 16)}
    base = gen.gen_ctx_case(rng, nps=["none"], lps=["lingreedy"], max_ops=4, reward_styles=["dyadic", "smallint"], arm_changes=False)
    lp = list(base["lp"]); lp[1] = 0.0; lp[3] = False; base["lp"] = tuple(lp)
    return {"kind": kind, "base": base, "c": rng.choice([2.0, 0.5, -3.0, 0.25, 8.0])}

def remap_arm(case, old, new):
    """rename arm id `old` to `new` everywhere in a case"""
    f = lambda a: new if a == old else a
    c = dict(case)
    c["arms"] = [f(a) for a in case["arms"]]
    ops = []
    for o in case["ops"]:
        if o[0] in ("fit", "pfit"):
            o = (o[0], [f(d) for d in o[1]], o[2], o[3])
        elif o[0] == "add":
            o = ("add", f(o[1]), o[2])
        elif o[0] == "rem":
            o = ("rem", f(o[1]))
        elif o[0] == "warm":
            o = ("warm", [f(a) for a in o[1]]) + tuple(o[2:])
        ops.append(o)
    c["ops"] = ops
    if c["lp"][0] == "thompson" and c["lp"][1] is not None and c["lp"][1][0] == "thr":
        b = c["lp"][1]; c["lp"] = ("thompson", ("thr", [(f(a), v) for a, v in b[1]], b[2]))
    return c

def all_observed(case):
    arms = set(case["arms"])
    seen = set()
    for o in case["ops"]:
        if o[0] == "fit":
            seen = set(o[1])
        elif o[0] == "pfit":
            seen |= set(o[1])
    return arms <= seen

def run_c20(t):
    base = t["base"]; kind = t["kind"]
    mode = rel_mode(base)
    if kind == "relabel":
        c2 = dict(base); c2["label"] = t["style2"]
        _, _, _, o1 = drive(base); _, _, _, o2 = drive(c2)
        for i, (a, b) in enumerate(zip(o1, o2)):
            if not outs_equal(a, b, mode, rtol=1e-12):
                return False, {"why": "call %d (%s) differs after renaming the arms %s -> %s" % (i, base["ops"][i][0], base["label"], t["style2"]),
                               "original": str(a)[:300], "renamed": str(b)[:300]}
        return True, {}
    if kind == "permute":
        rng = random.Random(t["seed2"])
        ops2 = []
        for o in base["ops"]:
            if o[0] in ("fit", "pfit") and len(o[1]) > 1:
                idx = list(range(len(o[1]))); rng.shuffle(idx)
                o = (o[0], [o[1][i] for i in idx], [o[2][i] for i in idx], None if o[3] is None else [o[3][i] for i in idx])
            ops2.append(o)
        c2 = dict(base); c2["ops"] = ops2
        _, _, _, o1 = drive(base); _, _, _, o2 = drive(c2)
        for i, (a, b) in enumerate(zip(o1, o2)):
            if base["ops"][i][0] == "pexp" and not outs_equal(a, b, "tol", rtol=1e-7, atol=1e-9):
                return False, {"why": "expectations of call %d differ after permuting the rows of the training batches" % i,
                               "original": str(a)[:300], "permuted": str(b)[:300]}
        return True, {}
    if kind == "shift":
        if not all_observed(base):
            return True, {"skipped": "not every arm observed"}
        c = t["c"]
        c2 = dict(base); c2["ops"] = [(o[0], o[1], [r + c for r in o[2]], o[3]) if o[0] in ("fit", "pfit") else o for o in base["ops"]]
        m1, l1, i1, _ = drive(base); m2, l2, i2, _ = drive(c2)
        if not m1._is_initial_fit:
            return True, {"skipped": "untrained"}
        e1 = {i1(a): float(v) for a, v in m1._imp.arm_to_expectation.items()}
        e2 = {i2(a): float(v) for a, v in m2._imp.arm_to_expectation.items()}
        # arms observed since the last fit only
        last = None
        for o in base["ops"]:
            if o[0] == "fit": last = set(o[1])
            elif o[0] == "pfit" and last is not None: last |= set(o[1])
            elif o[0] == "pfit": last = set(o[1])
        if last is None or not set(base["arms"]) <= last:
            return True, {"skipped": "not every arm observed since the last fit"}
        for a in e1:
            want = e1[a] + c if base["lp"][0] in ("greedy", "ucb") else e1[a]
            if abs(e2[a] - want) > 1e-9 * max(1.0, abs(want)):
                return False, {"why": "%s expectation of arm %r after adding %r to every reward: %r, expected %r" % (base["lp"][0], a, c, e2[a], want)}
        return True, {}
    if kind == "scale":
        c = t["c"]
        c2 = dict(base); c2["ops"] = [(o[0], o[1], [r * c for r in o[2]], o[3]) if o[0] in ("fit", "pfit") else o for o in base["ops"]]
        _, _, _, o1 = drive(base); _, _, _, o2 = drive(c2)
        for i, (a, b) in enumerate(zip(o1, o2)):
            if base["ops"][i][0] == "pexp" and a[0] in ("exp", "exps") and b[0] == a[0]:
                da = [a[1]] if a[0] == "exp" else a[1]; db = [b[1]] if b[0] == "exp" else b[1]
                for x, y in zip(da, db):
                    for (k1, v1), (k2, v2) in zip(x, y):
                        f1, f2 = mwh.bits_f(v1), mwh.bits_f(v2)
                        if abs(f2 - c * f1) > 1e-7 * max(1.0, abs(c * f1)):
                            return False, {"why": "LinGreedy expectation of arm %r does not scale with the rewards (factor %r): %r vs %r" % (k1, c, f2, c * f1)}
        return True, {}
    return True, {}
