(* NbrIndep.v — C05 / C03: under Radius, KNearest and LSHNearest with a context-free learning policy,
   the result of a query row is a function of (bandit, row, row seed) only: it does not depend on the
   state in which the worker's private copy of the learning policy was left by the rows processed
   before it.  Hence the results do not depend on how the rows are partitioned among workers, and the
   expectations are those of the policy trained FROM SCRATCH on the neighbourhood. *)
From Coq Require Import ZArith List Bool Arith Lia.
From MW Require Import Num Assoc AssocFacts Rng Par CF CFInv CFClean CFForget Matrix Lin Nbr NbrFacts.
Import ListNotations.

Section NbrIndep.
Context {R A G : Type} (N : Num R) (aeqb : A -> A -> bool) (RG : RngOps R G).
Hypothesis aeqb_spec : forall x y, aeqb x y = true <-> x = y.
Hypothesis Hrng : rng_lengths_ok RG.

Notation cf := (@cf R A).
Notation nbr := (@nbr R A G).
Notation lp := (@lp R A G).

(* a worker's copy of the policy is "as good as" the template: reachable shape, same configuration *)
Definition cf_good (t c : cf) : Prop := keys_ok c /\ clean N c /\ cf_fresh N c = cf_fresh N t.

Lemma cf_good_refl t : keys_ok t -> clean N t -> cf_good t t.
Proof. intros Hk Hc; unfold cf_good; auto. Qed.

Lemma cf_fresh_cfg (c c' : cf) : same_cfg c c' -> cf_fresh N c' = cf_fresh N c.
Proof. intros (a & b & d & e & f). unfold cf_fresh. rewrite a, b, d, e, f. reflexivity. Qed.

(* Thompson Sampling never reads the values stored in arm_to_expectation *)
Lemma ts_predict_exp_mod_exp (X : cf) e1 e2 g :
  c_kind X = KThompson -> akeys e1 = akeys e2 ->
  cf_predict_exp N aeqb RG (set_exp X e1) g (Some 1%nat) = cf_predict_exp N aeqb RG (set_exp X e2) g (Some 1%nat).
Proof.
  intros Ek Hk. unfold cf_predict_exp. simpl. rewrite Ek. rewrite Hk.
  destruct (draw_betas N aeqb RG g (c_stats X) (akeys e2) 1) as [betas g1]. simpl. reflexivity.
Qed.

Lemma cf_predict_exp_clean' (s : cf) g m :
  clean N s -> let '(_, s', _) := cf_predict_exp N aeqb RG s g m in clean N s'.
Proof.
  intros Hc. unfold cf_predict_exp.
  destruct (c_kind s) eqn:Ek;
    repeat match goal with
           | |- context [draw_r RG ?g ?r] => destruct (draw_r RG g r)
           | |- context [draw_scalars N RG ?g ?n] => destruct (draw_scalars N RG g n)
           | |- context [draw_betas N aeqb RG ?g ?a ?b ?c] => destruct (draw_betas N aeqb RG g a b c)
           | |- context [if ?b then _ else _] => destruct b
           end; try exact Hc.
  apply clean_set_exp; [rewrite Ek; discriminate | exact Hc].
Qed.

Lemma cf_predict_exp_cfg (s : cf) g m :
  let '(_, s', _) := cf_predict_exp N aeqb RG s g m in same_cfg s s'.
Proof.
  unfold cf_predict_exp.
  destruct (c_kind s) eqn:Ek;
    repeat match goal with
           | |- context [draw_r RG ?g ?r] => destruct (draw_r RG g r)
           | |- context [draw_scalars N RG ?g ?n] => destruct (draw_scalars N RG g n)
           | |- context [draw_betas N aeqb RG ?g ?a ?b ?c] => destruct (draw_betas N aeqb RG g a b c)
           | |- context [if ?b then _ else _] => destruct b
           end; try apply same_cfg_refl.
  unfold same_cfg; simpl; auto.
Qed.

(* fit-then-query on a good copy = fit-then-query on the template: same answer, and the copy stays good *)
Lemma fit_query_indep (t c : cf) g ds rs :
  keys_ok t -> clean N t -> cf_good t c ->
  let '(e1, c1, g1) := cf_predict_exp N aeqb RG (cf_fit N aeqb c ds rs) g (Some 1%nat) in
  let '(e2, t1, g2) := cf_predict_exp N aeqb RG (cf_fit N aeqb t ds rs) g (Some 1%nat) in
  e1 = e2 /\ g1 = g2 /\ cf_good t c1.
Proof.
  intros Hkt Hct (Hkc & Hcc & Hfr).
  pose proof (cf_fit_forgets N aeqb c ds rs Hkc Hcc) as Fc.
  pose proof (cf_fit_forgets N aeqb t ds rs Hkt Hct) as Ft.
  assert (Ekc : c_kind c = c_kind t) by (apply (f_equal (@c_kind R A)) in Hfr; exact Hfr).
  (* the copy stays good after fit and query *)
  assert (Hgood : let '(_, c1, _) := cf_predict_exp N aeqb RG (cf_fit N aeqb c ds rs) g (Some 1%nat) in cf_good t c1).
  { pose proof (cf_predict_exp_ok N aeqb RG (cf_fit N aeqb c ds rs) g (Some 1%nat) Hrng
                  (cf_fit_keys_ok N aeqb aeqb_spec c ds rs Hkc)) as H1.
    pose proof (cf_predict_exp_clean' (cf_fit N aeqb c ds rs) g (Some 1%nat) (cf_fit_clean N aeqb c ds rs Hcc)) as H2.
    pose proof (cf_predict_exp_cfg (cf_fit N aeqb c ds rs) g (Some 1%nat)) as H3.
    destruct (cf_predict_exp N aeqb RG (cf_fit N aeqb c ds rs) g (Some 1%nat)) as [[e1 c1] g1].
    destruct H1 as (_ & _ & Hk1 & _). split; [exact Hk1|]. split; [exact H2|].
    rewrite (cf_fresh_cfg _ _ H3). rewrite (cf_fresh_cfg _ _ (cf_fit_cfg N aeqb c ds rs)). exact Hfr. }
  destruct (c_kind t) eqn:Ekt; rewrite Ekc in Fc;
    try (rewrite Fc, Ft, Hfr in *;
         destruct (cf_predict_exp N aeqb RG (cf_fit N aeqb (cf_fresh N t) ds rs) g (Some 1%nat)) as [[e1 c1] g1];
         split; [reflexivity|]; split; [reflexivity | exact Hgood]).
  (* Thompson Sampling *)
  rewrite Fc in Hgood |- *. rewrite Ft. rewrite Hfr in *.
  assert (Ekx : c_kind (cf_fit N aeqb (cf_fresh N t) ds rs) = KThompson)
    by (rewrite (proj1 (cf_fit_cfg N aeqb (cf_fresh N t) ds rs)); simpl; exact Ekt).
  assert (Hkeys : akeys (c_exp c) = akeys (c_exp t))
    by (destruct Hkc as (_ & a & _); destruct Hkt as (_ & b & _); rewrite a, b;
        apply (f_equal (@c_arms R A)) in Hfr; exact Hfr).
  rewrite (ts_predict_exp_mod_exp _ (c_exp c) (c_exp t) g Ekx Hkeys) in Hgood |- *.
  destruct (cf_predict_exp N aeqb RG (set_exp (cf_fit N aeqb (cf_fresh N t) ds rs) (c_exp t)) g (Some 1%nat)) as [[e1 c1] g1].
  split; [reflexivity|]; split; [reflexivity | exact Hgood].
Qed.


(* ---- one query row ------------------------------------------------------------------------- *)
Definition row_rel (t : cf) (r1 r2 : option ((option A + list (A * option R)) * lp)) : Prop :=
  match r1, r2 with
  | Some (o1, LCf c1), Some (o2, LCf c2) => o1 = o2 /\ cf_good t c1 /\ cf_good t c2
  | None, None => True
  | _, _ => False
  end.

Lemma nbr_row_indep (s : nbr) (t c1 c2 : cf) seed row orc p :
  keys_ok t -> clean N t -> cf_good t c1 -> cf_good t c2 ->
  row_rel t (nbr_row N aeqb RG s (LCf c1) seed row orc p) (nbr_row N aeqb RG s (LCf c2) seed row orc p).
Proof.
  intros Hkt Hct G1 G2. unfold nbr_row, row_rel.
  destruct (neighborhood N s row orc) as [[|i idx]|]; [| |exact I].
  - destruct p.
    + destruct (negb (nnprob_len_ok s)); [exact I|]. destruct (draw_z RG (create RG seed) (RqChoice (length (n_arms s)) (n_nnprob s))) as [v g']. auto.
    + auto.
  - set (ds := flat_map (fun o => match o with Some a => [a] | None => [] end) (map (fun i0 => nth_error (n_ds s) i0) (i :: idx))).
    set (rs := select (n_rs s) (zero N) (i :: idx)).
    set (cx := select (n_cx s) [] (i :: idx)).
    simpl lp_fit. cbv iota. simpl negb. cbv iota.
    unfold lp_expectations1.
    pose proof (fit_query_indep t c1 (create RG seed) ds rs Hkt Hct G1) as F1.
    pose proof (fit_query_indep t c2 (create RG seed) ds rs Hkt Hct G2) as F2.
    destruct (cf_predict_exp N aeqb RG (cf_fit N aeqb c1 ds rs) (create RG seed) (Some 1%nat)) as [[e1 c1'] g1].
    destruct (cf_predict_exp N aeqb RG (cf_fit N aeqb c2 ds rs) (create RG seed) (Some 1%nat)) as [[e2 c2'] g2].
    destruct (cf_predict_exp N aeqb RG (cf_fit N aeqb t ds rs) (create RG seed) (Some 1%nat)) as [[e0 t'] g0].
    destruct F1 as (E1 & _ & K1). destruct F2 as (E2 & _ & K2). subst e1 e2.
    destruct p; auto.
Qed.

(* ---- the rows of a chunk: the answers do not depend on the copy the chunk starts from --------- *)
Lemma nbr_rows_indep (s : nbr) (t : cf) p :
  keys_ok t -> clean N t ->
  forall rows seeds orcs c1 c2, cf_good t c1 -> cf_good t c2 ->
  nbr_rows N aeqb RG s (LCf c1) seeds rows orcs p = nbr_rows N aeqb RG s (LCf c2) seeds rows orcs p.
Proof.
  intros Hkt Hct. induction rows as [|row rows IH]; intros seeds orcs c1 c2 G1 G2.
  - destruct seeds; reflexivity.
  - destruct seeds as [|sd seeds]; [reflexivity|]. simpl.
    pose proof (nbr_row_indep s t c1 c2 sd row (hd [] orcs) p Hkt Hct G1 G2) as Hr. unfold row_rel in Hr.
    destruct (nbr_row N aeqb RG s (LCf c1) sd row (hd [] orcs) p) as [[o1 [c1'|l1]]|];
      destruct (nbr_row N aeqb RG s (LCf c2) sd row (hd [] orcs) p) as [[o2 [c2'|l2]]|]; try contradiction; try reflexivity.
    destruct Hr as (-> & K1 & K2). rewrite (IH seeds (tl orcs) c1' c2' K1 K2). reflexivity.
Qed.

Definition opt_app {T} (a b : option (list T)) : option (list T) :=
  match a, b with Some x, Some y => Some (x ++ y) | _, _ => None end.

(* processing two consecutive groups of rows in one chunk = processing them in two chunks *)
Lemma nbr_rows_app (s : nbr) (t : cf) p :
  keys_ok t -> clean N t ->
  forall r1 sd1 r2 sd2 orcs c, cf_good t c -> length sd1 = length r1 ->
  nbr_rows N aeqb RG s (LCf c) (sd1 ++ sd2) (r1 ++ r2) orcs p =
  opt_app (nbr_rows N aeqb RG s (LCf t) sd1 r1 (firstn (length r1) orcs) p)
          (nbr_rows N aeqb RG s (LCf t) sd2 r2 (skipn (length r1) orcs) p).
Proof.
  intros Hkt Hct. pose proof (cf_good_refl t Hkt Hct) as Gt.
  induction r1 as [|row r1 IH]; intros sd1 r2 sd2 orcs c Gc Hl.
  - destruct sd1; [|discriminate]. simpl.
    rewrite (nbr_rows_indep s t p Hkt Hct r2 sd2 orcs c t Gc Gt).
    destruct (nbr_rows N aeqb RG s (LCf t) sd2 r2 orcs p); reflexivity.
  - destruct sd1 as [|sd sd1]; [discriminate|]. simpl in Hl. injection Hl as Hl.
    assert (Hgen : forall o orcs',
      hd [] orcs = o -> tl orcs = orcs' ->
      hd [] (firstn (S (length r1)) orcs) = o /\ tl (firstn (S (length r1)) orcs) = firstn (length r1) orcs' /\
      skipn (S (length r1)) orcs = skipn (length r1) orcs').
    { intros o orcs' <- <-. destruct orcs as [|x xs]; simpl; [rewrite firstn_nil, skipn_nil; auto | auto]. }
    destruct (Hgen (hd [] orcs) (tl orcs) eq_refl eq_refl) as (Hhd & Htl & Hsk).
    cbn [app length nbr_rows]. rewrite Hhd, Htl, Hsk.
    pose proof (nbr_row_indep s t c t sd row (hd [] orcs) p Hkt Hct Gc Gt) as Hr. unfold row_rel in Hr.
    destruct (nbr_row N aeqb RG s (LCf c) sd row (hd [] orcs) p) as [[o1 [c1'|l1]]|];
      destruct (nbr_row N aeqb RG s (LCf t) sd row (hd [] orcs) p) as [[o2 [c2'|l2]]|]; try contradiction; try reflexivity.
    destruct Hr as (-> & K1 & K2).
    rewrite (IH sd1 r2 sd2 (tl orcs) c1' K1 Hl).
    rewrite (nbr_rows_indep s t p Hkt Hct r1 sd1 (firstn (length r1) (tl orcs)) c2' t K2 Gt).
    destruct (nbr_rows N aeqb RG s (LCf t) sd1 r1 (firstn (length r1) (tl orcs)) p);
      destruct (nbr_rows N aeqb RG s (LCf t) sd2 r2 (skipn (length r1) (tl orcs)) p); reflexivity.
Qed.


(* ---- C03: the answer for a non-empty neighbourhood is that of the learning policy trained FROM SCRATCH
        (a freshly constructed policy object) on exactly the selected observations, in the selected order *)
Theorem nn_expectations_from_scratch (s : nbr) (t c : cf) seed row orc i idx :
  keys_ok t -> clean N t -> cf_good t c -> c_kind t <> KThompson ->
  neighborhood N s row orc = Some (i :: idx) ->
  let ds := flat_map (fun o => match o with Some a => [a] | None => [] end) (map (fun j => nth_error (n_ds s) j) (i :: idx)) in
  let rs := select (n_rs s) (zero N) (i :: idx) in
  let '(e, _, _) := cf_predict_exp N aeqb RG (cf_fit N aeqb (cf_fresh N t) ds rs) (create RG seed) (Some 1%nat) in
  exists l', nbr_row N aeqb RG s (LCf c) seed row orc false = Some (inr (map (fun kv => (fst kv, Some (snd kv))) (hd [] e)), l').
Proof.
  intros Hkt Hct (Hkc & Hcc & Hfr) Hnts Hn ds rs.
  unfold nbr_row. rewrite Hn. fold ds. fold rs. simpl lp_fit. cbv iota. simpl negb. cbv iota. unfold lp_expectations1.
  pose proof (cf_fit_forgets N aeqb c ds rs Hkc Hcc) as Fc.
  assert (Ekc : c_kind c = c_kind t) by (apply (f_equal (@c_kind R A)) in Hfr; exact Hfr).
  rewrite Ekc in Fc. rewrite Hfr in Fc.
  assert (E : cf_fit N aeqb c ds rs = cf_fit N aeqb (cf_fresh N t) ds rs) by (destruct (c_kind t); try exact Fc; congruence).
  rewrite E.
  destruct (cf_predict_exp N aeqb RG (cf_fit N aeqb (cf_fresh N t) ds rs) (create RG seed) (Some 1%nat)) as [[e c1] g1].
  eexists; reflexivity.
Qed.

(* ---- any partition of the rows into consecutive chunks gives the answers of one single chunk ----- *)
Lemma chunked_rows_eq (s : nbr) (t : cf) p :
  keys_ok t -> clean N t ->
  forall sizes seeds cx orcs, length seeds = length cx -> sum_list sizes = length cx ->
  fold_right opt_app (Some [])
    (map (fun q => let '(sd, rows, orc) := (q : list Z * mat (R:=R) * list (list nat)) in nbr_rows N aeqb RG s (LCf t) sd rows orc p)
         (combine (combine (chunks sizes seeds) (chunks sizes cx)) (chunks sizes orcs)))
  = nbr_rows N aeqb RG s (LCf t) seeds cx orcs p.
Proof.
  intros Hkt Hct. pose proof (cf_good_refl t Hkt Hct) as Gt.
  induction sizes as [|n sizes IH]; intros seeds cx orcs Hl Hs; simpl in *.
  - destruct cx; [|discriminate]. destruct seeds; [|discriminate]. reflexivity.
  - rewrite IH; [| rewrite !skipn_length; lia | rewrite skipn_length; lia].
    rewrite <- (firstn_skipn n seeds) at 3. rewrite <- (firstn_skipn n cx) at 3.
    rewrite (nbr_rows_app s t p Hkt Hct (firstn n cx) (firstn n seeds) (skipn n cx) (skipn n seeds) orcs t Gt)
      by (rewrite !firstn_length; lia).
    rewrite firstn_length. replace (Nat.min n (length cx)) with n by lia. reflexivity.
Qed.

Definition rng_z_lengths_ok : Prop :=
  forall g high size, length (fst (draw_z RG g (RqRandint high size))) = size.

Theorem nbr_predict_partition_independent (s : nbr) (t : cf) g cx orcs sizes p :
  n_lp s = LCf t -> keys_ok t -> clean N t -> rng_z_lengths_ok ->
  sum_list sizes = length cx ->
  nbr_predict N aeqb RG s g cx orcs sizes p = nbr_predict N aeqb RG s g cx orcs [length cx] p.
Proof.
  intros El Hkt Hct Hz Hs. unfold nbr_predict. rewrite El.
  pose proof (Hz g 2147483647%Z (length cx)) as Hl.
  destruct (draw_z RG g (RqRandint 2147483647 (length cx))) as [seeds g1]. simpl in Hl.
  f_equal.
  change (fun r acc => match r with Some x => match acc with Some y => Some (x ++ y) | None => None end | None => None end)
    with (@opt_app (option A + list (A * option R))).
  rewrite (chunked_rows_eq s t p Hkt Hct sizes seeds cx orcs Hl Hs).
  rewrite (chunked_rows_eq s t p Hkt Hct [length cx] seeds cx orcs Hl); [reflexivity | simpl; lia].
Qed.

End NbrIndep.
