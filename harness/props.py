# props.py — per-property configuration of the checks: which cases are generated, which observables
# are compared with the model, which relation is executed on the implementation.
import os, sys, json, random, time, copy
import mwh, gen, relations as REL

ROOT = mwh.ROOT

TRUSTED_BASE = [
    "Coq 8.16.1 kernel (coqc, full .vo build; vm_compute used only for closed Examples; no native_compute); axioms: none (Print Assumptions under every theorem: Closed under the global context)",
    "the Paramcoq plugin (Rename.v, C20) only GENERATES the parametricity translation of the model; the generated definitions are checked by the kernel like hand-written ones",
    "extraction (Require Extraction + ExtrOcamlBasic only: bool/option/list/prod/unit/sumbool -> OCaml; no Extract Constant, no other Extract Inductive), OCaml 4.13.1 compiler; "
    "validated at every build by the extraction self-check (bin/selfcheck: 60 generated configurations x histories over every policy combination, evaluated by vm_compute inside Coq and by the extracted code at the exact-rational instance, must print the same integers)",
    "driver/main.ml: tokenizer, binary64 instance of Num (incl. numpy pairwise sum and CPython 3.12 compensated sum re-implemented in OCaml), tape RngOps, printers",
    "harness/*.py: generators, GenProxy recording of numpy Generator requests, oracle capture (argpartition, k-means labels, tree leaves, cosine distances), canonicalisation and comparison",
    "IEEE binary64 agreement OCaml float = C double = CPython float; glibc exp/log/sqrt shared by CPython and OCaml",
    "all of mabwiser/*.py is modelled by hand (coq/theories), nothing of the Python is verified directly; the tie is the differential correspondence run on every check",
]
COMMON_ASSUMPTIONS = [
    "numpy Generator is a deterministic function of its state and of the request",
    "single-threaded BLAS (OMP_NUM_THREADS=OPENBLAS_NUM_THREADS=MKL_NUM_THREADS=1), PYTHONHASHSEED fixed by the harness",
]

ALLOWED_AXIOMS = ()   # none expected; standard-library axioms would be listed here and in DESIGN.md section 3

def axioms_allowed(lst):
    return all(any(a in x for a in ALLOWED_AXIOMS) for x in lst) if lst else True

def load_findings():
    fn = os.path.join(ROOT, "known_findings.json")
    if not os.path.exists(fn):
        return []
    return json.load(open(fn))

# ------------------------------------------------------------------ generators per property
def budget(tier, quick, thorough):
    return quick if tier == "quick" else thorough

def g_c01(rng, tier):
    return gen.gen_cf_case(rng, max_ops=8 if tier == "quick" else 25, max_rows=40 if tier == "quick" else 400, warm=False)

def g_c02(rng, tier):
    return gen.gen_ctx_case(rng, nps=["none"], lps=gen.LIN_KINDS, max_ops=6 if tier == "quick" else 14, max_rows=30 if tier == "quick" else 80)

def g_c03(rng, tier):
    # a quarter of the cases with a single feature (every metric of the Minkowski family is |x - q| there, sqeuclidean is not)
    return gen.gen_ctx_case(rng, nps=["radius", "knearest"], max_ops=6 if tier == "quick" else 12, max_rows=30 if tier == "quick" else 60,
                            force_dim=1 if rng.random() < 0.25 else None)

def g_any(rng, tier):
    if rng.random() < 0.4:
        return gen.gen_cf_case(rng, max_ops=8, warm=True)
    return gen.gen_ctx_case(rng, max_ops=6, warm=True)

def g_c20(rng, tier):
    """as g_any; a fifth of the cases with an arm list that mixes int, str and float labels (fix D23)"""
    c = g_any(rng, tier)
    if rng.random() < 0.2:
        c["label"] = "mixed"
    return c

def g_c17(rng, tier):
    """as g_any; in a third of the contextual cases a query (predict or predict_expectations) whose contexts have ANOTHER width is placed
    after a training call - model (vstep) and code reject it alike and leave the generator where it was, which the rest of the history shows"""
    c = g_any(rng, tier)
    tr = [i for i, o in enumerate(c["ops"]) if o[0] in ("fit", "pfit") and o[3]]
    if tr and rng.random() < 0.35:
        i = rng.choice(tr); d = len(c["ops"][i][3][0])
        d2 = d + 1 if (d == 1 or rng.random() < 0.5) else d - 1
        bad = (rng.choice(["pred", "pexp"]), gen.gen_ctx(rng, rng.randint(1, 3), d2))
        c["ops"] = c["ops"][:i + 1] + [bad] + c["ops"][i + 1:]
    if rng.random() < (0.6 if c["lp"][0] == "thompson" and c["lp"][1] is None else 0.3):
        # one training call with documented invalid arguments (lengths that differ, contexts missing or superfluous, a non-binary reward for
        # Thompson Sampling without binarizer): the model's facade validation (fit_args_ok) and the code must reject it alike
        contextual = c.get("np") is not None or c["lp"][0] in gen.LIN_KINDS
        tr = [o for o in c["ops"] if o[0] in ("fit", "pfit")]
        d = next((len(o[3][0]) for o in tr if o[3]), 2)
        arms = list(c["arms"])
        n = rng.randint(2, 5)
        ds = [rng.choice(arms) for _ in range(n)]
        ts = c["lp"][0] == "thompson"
        rs = [float(rng.randint(0, 1)) for _ in range(n)]
        cx = gen.gen_ctx(rng, n, d) if contextual else None
        kinds = ["len", "presence"] + (["ctxrows"] if contextual else []) + (["nonbinary"] if ts and c["lp"][1] is None else [])
        k = rng.choice(kinds)
        if "nonbinary" in kinds and rng.random() < 0.6:
            k = "nonbinary"
        if k == "len":
            rs = rs + [1.0] if rng.random() < 0.5 else rs[:-1]
        elif k == "presence":
            cx = None if contextual else gen.gen_ctx(rng, n, 2)
        elif k == "ctxrows":
            cx = cx[:-1] if rng.random() < 0.5 else cx + [list(cx[0])]
        else:
            rs[rng.randrange(n)] = rng.choice([2.0, 2.0, 0.5, -1.0])
        pos = rng.randint(0, len(c["ops"]))
        c["ops"] = c["ops"][:pos] + [(rng.choice(["fit", "pfit"]), ds, rs, cx)] + c["ops"][pos:]
    return c

def g_c04(rng, tier):
    return REL.gen_c04(rng, tier, lints_nbhd=False)

def g_c05(rng, tier):
    c = gen.gen_ctx_case(rng, nps=["radius", "knearest", "lsh", "clusters"], max_ops=5, fit_prob=0.15)
    c["n_jobs"] = rng.choice([1, 2, 3])
    c["backend"] = "threading"
    return c

def g_c08(rng, tier):
    """long histories dense in arm changes (single add/remove and remove+add swaps between queries)"""
    big = 14 if tier == "quick" else 30
    if rng.random() < 0.35:
        return gen.gen_cf_case(rng, max_ops=big, warm=True, max_rows=12)
    c = gen.gen_ctx_case(rng, max_ops=big, warm=True, max_rows=12, swap_prob=0.16, fit_prob=0.06, nnprob_arm_changes=True)
    if rng.random() < 0.3 and len(c["ops"]) > 2:
        # a training call that is rejected from inside training (another context width; for Clusters also fewer rows than clusters)
        # somewhere in the history: the arm changes and queries after it must behave as if it had never been made
        d = len(c["ops"][0][3][0]); a0 = c["ops"][0][1][0]
        pos = rng.randint(1, len(c["ops"]) - 1)
        if c.get("np") and c["np"][0] == "clusters" and rng.random() < 0.6:
            bad = ("pfit" if rng.random() < 0.5 else "fit", [a0], [c["ops"][0][2][0]], gen.gen_ctx(rng, 1, d))
            if bad[0] == "pfit":   # partial_fit appends to the history: only a refit has too few rows
                bad = ("fit",) + bad[1:]
        else:
            bad = ("pfit", [a0, a0], [c["ops"][0][2][0]] * 2, gen.gen_ctx(rng, 2, d + 1))
        c["ops"] = c["ops"][:pos] + [bad] + c["ops"][pos:]
    tree_rng = c["np"] is not None and c["np"][0] == "tree" and (c["lp"][0] == "thompson" or (c["lp"][0] == "greedy" and c["lp"][1] > 0))
    if rng.random() < 0.5 and not tree_rng:     # (TreeBandit policies that draw are modelled for one worker only: finding D7)
        # all n_jobs: the rows of a query are split among the workers; query sizes around the job count
        c["n_jobs"] = rng.choice([2, 3, 4, -1]); c["backend"] = "threading"
        d = len(c["ops"][0][3][0])
        for m in rng.sample([2, 3, 4, 5, 6, 7, 9], 3):
            c["ops"].append((rng.choice(["pred", "pexp"]), gen.gen_ctx(rng, m, d, 0, 4)))
    return c

def g_c09_tie_after_warm(rng):
    """the best arm's state is copied by warm_start into a cold arm that comes EARLIER in the arm list, after the bandit has
    already been queried: an exact tie that predict must resolve in favour of the earlier arm"""
    if rng.random() < 0.6:
        c = gen.gen_cf_case(rng, kinds=["greedy", "ucb", "softmax", "popularity"], max_ops=0, warm=False, max_rows=20, foreign_decisions=False)
        if c["lp"][0] == "greedy": c["lp"] = ("greedy", 0.0)
    else:
        c = gen.gen_ctx_case(rng, nps=["none"], lps=["lingreedy", "linucb"], max_ops=0, queries=False, arm_changes=False, max_rows=20)
        if c["lp"][0] == "lingreedy": c["lp"] = ("lingreedy", 0.0) + tuple(c["lp"][2:])
    fit = next((o for o in c["ops"] if o[0] in ("fit", "pfit")), None)
    arms = list(c["arms"])
    if fit is None or len(arms) < 2:
        return None
    cold = arms[0]; donor = rng.choice(arms[1:])
    keep = [i for i, a in enumerate(fit[1]) if a != cold]
    if not keep:
        return None
    ds = [fit[1][i] for i in keep]; rs = [fit[2][i] for i in keep]
    # the donor gets the largest rewards
    top = max([abs(r) for r in rs] + [1.0]) + 1.0
    ds += [donor, donor]; rs += [top, top]
    cx = None
    if fit[3] is not None:
        cx = [fit[3][i] for i in keep] + [list(fit[3][0]), list(fit[3][-1])]
    d = None if cx is None else len(cx[0])
    q = lambda m: None if d is None else gen.gen_ctx(rng, m, d)
    dim = rng.randint(1, 3)
    feats = {a: [float(rng.randint(1, 4)) + 0.25 * i for _ in range(dim)] for i, a in enumerate(arms)}
    feats[cold] = list(feats[donor])
    c = dict(c)
    c["ops"] = [("fit", ds, rs, cx), ("pred", q(1)), ("pexp", q(2)), ("warm", arms, [feats[a] for a in arms], 1.0), ("pred", q(1)), ("pred", q(3)), ("pexp", q(1))]
    return c

def g_c09_near_tie(rng):
    """two arms whose mean rewards are EQUAL as rationals and differ in the last binary digit as computed (rewards on the 0.1 grid, other
    groupings of the same total); the arm with the smaller computed mean comes first in the arm list: predict must return the later arm, the
    strict maximum of the expectations - a tolerance in the arg-max would return the earlier one"""
    import numpy as np
    for _ in range(400):
        n = rng.randint(2, 5)
        a = [rng.randint(0, 10) for _ in range(n)]
        b = list(a)
        for _ in range(rng.randint(1, 3)):                      # move tenths between entries: the same total, another grouping
            i, j = rng.randrange(n), rng.randrange(n)
            k = rng.randint(1, 3)
            if i != j and b[i] - k >= 0 and b[j] + k <= 10:
                b[i] -= k; b[j] += k
        rng.shuffle(b)
        fa = [x / 10.0 for x in a]; fb = [x / 10.0 for x in b]
        ma = float(np.asarray(fa).sum()) / n; mb = float(np.asarray(fb).sum()) / n
        if ma != mb and abs(ma - mb) < 1e-12:
            lo, hi = (fa, fb) if ma < mb else (fb, fa)
            kind = rng.choice(["greedy", "greedy", "ucb"])
            arms = rng.sample(range(0, 9), rng.choice([2, 3]))
            ds = [arms[0]] * n + [arms[1]] * n
            rs = lo + hi
            if len(arms) == 3:                                   # a third arm, clearly worse
                ds += [arms[2]] * n; rs += [0.0] * n
            npol = None; cx = None; q = lambda m: None
            if rng.random() < 0.4:
                npol = rng.choice([("knearest", len(ds), "euclidean"), ("radius", 100.0, "euclidean", None)])
                cx = gen.gen_ctx(rng, len(ds), 2); q = lambda m: gen.gen_ctx(rng, m, 2)
            return {"arms": arms, "lp": (kind, 0.0 if kind == "greedy" else 1.0), "np": npol, "seed": rng.randint(0, 10**6),
                    "ops": [("fit", ds, rs, cx), ("pred", q(1)), ("pexp", q(1)), ("pred", q(3) if cx is not None else None)],
                    "label": rng.choice(["int", "str"]), "mode": "exact", "reward_style": "float"}
    return None

def g_c09(rng, tier):
    """half of the cases force exact ties between arms (constant rewards, no bonus, untrained arms)"""
    if rng.random() < 0.08:
        c = g_c09_near_tie(rng)
        if c is not None:
            return c
    if rng.random() < 0.12:
        c = g_c09_tie_after_warm(rng)
        if c is not None:
            return c
    ties = rng.random() < 0.5
    if rng.random() < 0.35:
        return gen.gen_cf_case(rng, max_ops=8, warm=True, ties=ties)
    return gen.gen_ctx_case(rng, max_ops=7, warm=True, ties=ties)

def g_c11(rng, tier):
    return gen.gen_ctx_case(rng, nps=["lsh"], max_ops=6 if tier == "quick" else 12, max_rows=40 if tier == "quick" else 80)

def g_c12(rng, tier):
    return gen.gen_ctx_case(rng, nps=["clusters", "tree"], max_ops=5 if tier == "quick" else 10, max_rows=40 if tier == "quick" else 80)

def g_c13(rng, tier):
    if rng.random() < 0.2:
        return gen.gen_two_stage_warm(rng)
    if rng.random() < 0.7:
        c = gen.gen_cf_case(rng, kinds=["greedy", "ucb", "softmax", "thompson", "popularity"], max_ops=10, warm=True)
    else:
        c = gen.gen_ctx_case(rng, nps=["none"], lps=gen.LIN_KINDS, max_ops=8, warm=True)
    if rng.random() < 0.15:
        c["label"] = "tenths"        # float labels, decisions partly as single precision arrays
    # make sure there is at least one warm start after training
    import gen as G
    arms_now = list(c["arms"])
    for o in c["ops"]:
        if o[0] == "add": arms_now.append(o[1])
        if o[0] == "rem" and o[1] in arms_now: arms_now.remove(o[1])
    if len(arms_now) >= 2:
        c["ops"].insert(len(c["ops"]) - 2, G.gen_warm_op(rng, arms_now))
    return c

def g_c18(rng, tier):
    """contextual (and some context-free) histories in which contexts arrive as a pandas Series wherever the shape allows it:
    one row of several features, several rows of one feature, single-decision training batches"""
    if rng.random() < 0.15:
        c = gen.gen_cf_case(rng, max_ops=5, warm=False)
        c["ops"] = list(c["ops"]) + [("predS", [1.0, 2.0]), ("pexpS", [0.5])]       # a context-free bandit has no feature count: rejected
        return c
    c = gen.gen_ctx_case(rng, max_ops=7, warm=False, force_dim=rng.choice([1, 1, 2, 3]), njobs=False)
    c.pop("int_ctx", None); c.pop("int_rs", None)
    d = len(c["ops"][0][3][0])
    ops = []
    for o in c["ops"]:
        if o[0] in ("pred", "pexp") and o[1] is not None and rng.random() < 0.7:
            if d == 1:
                o = (o[0] + "S", [row[0] for row in o[1]])
            elif len(o[1]) == 1:
                o = (o[0] + "S", list(o[1][0]))
        elif o[0] in ("fit", "pfit") and rng.random() < 0.4:
            if d == 1 and len(o[1]) > 1:
                o = (o[0] + "S", o[1], o[2], [row[0] for row in o[3]])
            elif len(o[1]) == 1 and not (c.get("np") and c["np"][0] in ("clusters", "knearest") and o[0] == "fit"):
                o = (o[0] + "S", o[1], o[2], list(o[3][0]))
        ops.append(o)
    arms = c["arms"]
    if rng.random() < 0.3 and not (c.get("np") and c["np"][0] in ("clusters", "knearest")):
        # a RE-FIT with Series contexts of another width than the bandit was trained on: the Series of a training call is read by
        # the number of decisions, never by what the bandit remembers
        d2 = d + 1 if d == 1 or rng.random() < 0.5 else 1
        if d2 == 1 and rng.random() < 0.5:
            n2 = rng.randint(3, 6)
            ops.append(("fitS", [rng.choice(arms) for _ in range(n2)], [1.0] * n2, [float(rng.randint(0, 4)) for _ in range(n2)]))
        else:
            ops.append(("fitS", [arms[0]], [1.0], [float(rng.randint(0, 4)) for _ in range(d2)]))
        if d2 == 1 or ops[-1][0] == "fitS" and len(ops[-1][1]) > 1:
            d = 1
        else:
            d = d2
        ops.append(("pexpS", [float(rng.randint(0, 4)) for _ in range(d)] if d > 1 else [float(rng.randint(0, 4)) for _ in range(2)]))
    # single-decision batches and queries at the end
    ops.append(("pfitS", [arms[0]], [1.0], [float(rng.randint(0, 4)) for _ in range(d)]))
    ops.append(("pexpS", [float(rng.randint(0, 4)) for _ in range(d)] if d > 1 else [float(rng.randint(0, 4)) for _ in range(rng.choice([1, 2, 3]))]))
    c["ops"] = ops
    return c

def g_c14(rng, tier):
    t = REL.gen_c14(rng, tier)
    return t["base"]

PROPS = {
    "C01": {"gen": g_c01, "fields": ("out", "arms", "cfexp", "stats", "status"), "functional": True,
            "n": (400, 8000), "relations": [],
            "rule": "context-free histories over fit/partial_fit/add_arm/remove_arm(+re-add)/predict/predict_expectations; "
                    "non-trivial = at least one training call with >= 1 row and one compared expectation table; distinct by hash of the canonical case"},
    "C02": {"gen": g_c02, "fields": ("out", "arms", "cold", "status", "beta"), "functional": True, "n": (200, 3000),
            "relations": [("ridge_oracle", REL.gen_c02, REL.run_c02, (250, 4000))],
            "rule": "LinGreedy / LinUCB / LinTS without neighbourhood policy, d in 1..4, m in {1,2,3,5}, l2_lambda in {.25,.5,1,2,4,10}, scale=True for single fits, "
                    "fit + partial_fit*, arms with zero rows, arms added after fit; model at binary64 with its own Gauss-Jordan inverse, compared with rtol 1e-7; "
                    "relation: numpy.linalg.solve on the per-arm normal equations built from the raw history; non-trivial = >= 1 expectation compared"},
    "C03": {"gen": g_c03, "fields": ("out", "arms", "nhist"), "functional": True, "n": (300, 5000), "relations": [],
            "rule": "Radius/KNearest over every learning policy on integer grids, radii on exact distances, fit + partial_fit*, arm changes; "
                    "non-trivial = >= 1 query answered; distinct by case hash"},
    "C04": {"gen": g_c04, "fields": ("out", "arms", "cold", "status"), "functional": False, "n": (120, 1500),
            "relations": [], "batch": ("fresh_interpreters", REL.gen_c04, REL.run_c04_batch, (150, 1500)),
            "rule": "scripted scenarios over every policy combination (string/int/float labels, default-constructed policy tuples, warm starts with exact distance ties); "
                    "each scenario digest (all predict / predict_expectations outputs) is computed in four fresh interpreters: PYTHONHASHSEED 0, 1, random, and one that "
                    "constructs, trains and queries five other bandits with other seeds before and between the calls; the correspondence compares the randomness trace "
                    "(every generator request) with the model; non-trivial = scenario with >= 1 query"},
    "C19": {"gen": g_any, "fields": ("out", "arms"), "functional": False, "n": (100, 1000),
            "relations": [], "batch": ("copy_and_pickle", REL.gen_c19, REL.run_c19_batch, (150, 2000)),
            "rule": "a random history is driven on two identical originals A and B; at a random cut point (also before the first fit, after arm changes / warm start) "
                    "A is copied by copy.deepcopy, by pickle protocols 2..5, or pickled to a file and restored in a FRESH interpreter (another hash seed); the continuation "
                    "(rest of the history + partial_fit + queries) runs on the copy first, then on A, then on B: copy = B and A = B, call by call (bit-exact; linear policies rtol 1e-12); "
                    "binarizers are module-level functions bound by functools.partial; non-trivial = continuation with >= 1 call",
            "assumptions": ["in the model a bandit is a value: a copy IS the original, so the two theorems (a copy answers like the original; driving the copy never affects the "
                            "original) are corollaries of determinism and of the isolation theorem of C04; what copy.deepcopy / pickle do to the Python object graph "
                            "(shared arms list, shared and per-arm generators, default factories, scikit-learn estimators) is runtime behaviour observed by the relation only"]},
    "C18": {"gen": g_c18, "fields": ("out", "arms", "nhist"), "functional": False, "n": (150, 1500),
            "relations": [("containers_and_snapshots", REL.gen_c18, REL.run_c18, (250, 3000))],
            "rule": "the same history passed as lists (reference), C- / Fortran-ordered float arrays, int64 arrays, pandas Series (incl. the single-feature / single-row "
                    "disambiguation), DataFrames and non-contiguous strided views; byte snapshots of every caller object (data, arms list, tree_parameters, arm features) "
                    "before and after each call; arm-list aliasing probe; non-trivial = >= 1 call compared"},
    "C05": {"gen": g_c05, "fields": ("out", "arms", "nhist", "lsh", "leaves"), "functional": False, "n": (120, 800),
            "relations": [("njobs_backend_rows_order", REL.gen_c05, REL.run_c05, (140, 1000))], "pre": "partition_table",
            "rule": "_partition_contexts / _effective_jobs compared exhaustively with the extracted model for n <= 300 (quick) / 2000 (thorough) x n_jobs in -20..40; "
                    "correspondence cases run with n_jobs in {1,2,3} (threading) so that the model's chunk semantics (one deep copy of the policy per chunk) is exercised; "
                    "relation: n_jobs in {2,3,n,n+1,-1,-2,64} x backend vs n_jobs=1, _predict_contexts whole batch vs row by row, per-arm fit tasks in permuted order; "
                    "non-trivial = >= 1 query answered"},
    "C06": {"gen": g_any, "fields": ("out", "arms", "cfexp", "stats", "nhist", "lsh", "beta"), "functional": False, "n": (150, 2000),
            "relations": [("batch_vs_chunked", REL.gen_c06, REL.run_c06, (300, 6000))],
            "rule": "one row sequence trained by a single fit and by fit + partial_fit on a random split into consecutive chunks (1-row chunks, "
                    "chunks omitting arms); float-exact (dyadic) rewards; non-trivial = both runs answer >= 1 query"},
    "C07": {"gen": g_any, "fields": ("out", "arms", "cold", "cfexp", "stats", "status", "nhist", "lsh", "leaves", "beta"), "functional": False,
            "n": (150, 2000), "relations": [("refit_vs_fresh", REL.gen_c07, REL.run_c07, (200, 4000))],
            "rule": "random prior history (training, arm changes, warm start, queries), then fit(D) with D smaller/larger/other width, compared with a "
                    "fresh bandit given the same generator state; non-trivial = prior history trained"},
    "C08": {"gen": g_c08, "fields": ("out_keys", "arms"), "functional": True, "n": (300, 3000),
            "relations": [("keys_shape_invariant", g_c08, REL.run_c08, (300, 3000))],
            "rule": "histories interleaving arm changes, training, warm start and queries with m in {None,1,2,3,5}; label styles int/str/float; "
                    "half of the contextual cases run with n_jobs in {2,3,4,-1} (threading) and extra queries of 2..9 rows around the job count; "
                    "only arms, keys, key order and result shapes are compared; non-trivial = >= 1 query",
            "assumptions": ["theorems assume the generator hypotheses rng_lengths_ok (a draw answers with the requested number of values) and rng_index_ok "
                            "(rng.choice(n) / rng.integers(0,n) answer below n); the shape clause for Radius/KNearest/LSH/Clusters assumes that the job partition "
                            "covers the rows and that k-means assigns existing clusters - both are observed on every run (partition table against the proved partition_sizes in C05; "
                            "result lengths in the C08 relation)"]},
    "C09": {"gen": g_c09, "fields": ("out",), "functional": False, "n": (150, 2000),
            "relations": [("predict_is_argmax", g_c09, REL.run_c09, (300, 6000))],
            "rule": "at every query point of a random history, predict on one deep copy vs first arg-max of predict_expectations on another; "
                    "non-trivial = >= 1 query compared"},
    "C11": {"gen": g_c11, "fields": ("out", "arms", "nhist", "lsh"), "functional": True, "n": (200, 4000),
            "relations": [("sign_pattern_collisions", REL.gen_c11, REL.run_c11, (150, 3000))],
            "rule": "LSHNearest with n_dimensions 1..6, n_tables 1..3 over every learning policy; fit + partial_fit*, hash tables compared bucket by bucket; "
                    "relation: neighbourhood recomputed from mab._imp.table_to_plane, queries = stored rows, c*stored rows (c in 2^-40..2^30), zero vector, random; "
                    "rows with a projection within 1e-9 relative of zero are skipped as ambiguous; non-trivial = >= 1 query compared"},
    "C12": {"gen": g_c12, "fields": ("out", "arms", "nhist", "leaves"), "functional": True, "n": (150, 2000),
            "relations": [("cell_oracle", REL.gen_c12, REL.run_c12, (120, 2000))],
            "rule": "Clusters (KMeans / MiniBatchKMeans, 2-3 clusters) and TreeBandit (default, max_depth, min_samples_leaf) over compatible learning policies; cells are read "
                    "from the fitted scikit-learn objects; relation: statistic recomputed over the rows in the query's cluster / leaf; non-trivial = >= 1 query compared"},
    "C13": {"gen": g_c13, "fields": ("out", "arms", "cold", "cfexp", "stats", "status", "beta"), "functional": False, "n": (300, 6000),
            "relations": [("warm_start_laws", REL.gen_c13, REL.run_c13, (300, 6000))],
            "rule": "context-free and linear bandits, histories with warm_start (zero, duplicate, parallel and one-hot tie feature vectors, quantiles 0/.25/.5/.75/1/random) "
                    "before and after training and arm changes; relation: only cold arms change, donor = closest trained arm within the independently recomputed threshold, "
                    "idempotent, monotone in the quantile, cold_arms spec; non-trivial = a warm_start call on a trained bandit"},
    "C14": {"gen": g_c14, "fields": ("out", "arms", "cfexp", "stats", "nhist", "leaves"), "functional": False, "n": (150, 2000),
            "relations": [("binarizer_vs_preconverted", REL.gen_c14, REL.run_c14, (200, 3000))],
            "rule": "Thompson Sampling with threshold / flip / greater-than binarizers alone and under Radius, KNearest, LSHNearest, Clusters, TreeBandit; "
                    "add_arm may install a new binarizer; twin bandit without binarizer is fed the converted rewards; non-trivial = >= 1 training call"},
    "C15": {"gen": g_any, "fields": ("out", "arms"), "functional": False, "n": (40, 400), "simcorr": (160, 2500),
            "relations": [("simulator_vs_public_api", REL.gen_c15, REL.run_c15, (120, 1500))],
            "rule": "random data sets (20-70 rows, arms absent from train or test), 1-3 bandits per simulation (context-free, linear, Radius/KNearest with nine metrics incl. "
                    "seuclidean / mahalanobis, LSH, Clusters, TreeBandit), test_size, ordered / random split, batch_size in {0,1,k,|test|}, is_quick; predictions compared with an "
                    "independent replay through MAB.fit / predict / predict_expectations / partial_fit on a deep copy taken before the simulation; non-trivial = simulation completed"},
    "C16": {"gen": g_any, "fields": ("out", "arms"), "functional": True, "n": (30, 300), "simcorr": (120, 2000),
            "relations": [("bookkeeping_laws", REL.gen_c16, REL.run_c16, (150, 2000))],
            "rule": "same simulations as C15 restricted to four metrics; every public attribute after run(): split partition, one prediction per test row, total/train/test statistics "
                    "versus numpy recomputation, train + test = total, default evaluation (incl. neighbourhood statistics when not quick) versus direct recomputation, counts sum "
                    "to the test size, min <= mean <= max; non-trivial = simulation completed"},
    "C17": {"gen": g_c17, "fields": ("out", "arms", "cold", "cfexp", "stats", "status", "nhist"), "functional": False, "n": (150, 2000),
            "relations": [("rejected_call_changes_nothing", REL.gen_c17, REL.run_c17, (400, 8000))],
            "rule": "25 classes of invalid call (length mismatch, non-finite / non-binary rewards, contexts missing / superfluous / wrong row count / wrong width, "
                    "duplicate / None / NaN / Inf / unknown arms, four bad warm_start arguments, too few rows for k-means, wrong container types, predict without contexts, 1-D contexts, a query of another width, an unhashable arm, removal of the only arm, decisions as a column, string contexts in training and in a query) "
                    "placed at a random position of a random valid history of any policy combination, followed by the rest of the history plus partial_fit and queries on the bandit "
                    "and on a deep copy taken before the call; non-trivial = the call was rejected"},
    "C20": {"gen": g_c20, "fields": ("out", "arms"), "functional": False, "n": (150, 2000),
            "relations": [("relabel_permute_shift_scale", REL.gen_c20, REL.run_c20, (300, 6000))],
            "rule": "relabelling int->str/float/negative int/mixed-type arm lists on every policy combination; random row permutations of each training batch (context-free, linear, Radius, LSH); "
                    "dyadic reward shifts (greedy/UCB1/Softmax) and scalings (LinGreedy); non-trivial = >= 1 compared output"},
    "C10": {"gen": g_any, "fields": ("out", "arms", "cold", "cfexp", "stats", "status", "nhist", "lsh", "leaves"), "functional": False, "n": (150, 2000),
            "relations": [("queried_vs_unqueried", REL.gen_c10, REL.run_c10, (200, 4000))],
            "rule": "history, 1-5 intervening queries on one bandit, stream positions copied to its unqueried deep copy, same continuation on both; "
                    "non-trivial = continuation contains >= 1 query"},
}

# ------------------------------------------------------------------ correspondence
def keys_only(trace):
    """reduce outputs to what C08 speaks about: arms, keys, order, shapes"""
    out = []
    for o, obs in trace:
        if o[0] == "exp":
            o = ("exp", [(a, 0) for a, _ in o[1]])
        elif o[0] == "exps":
            o = ("exps", [[(a, 0) for a, _ in d] for d in o[1]])
        out.append((o, obs))
    return out

def compare_keys(case, trace, mres):
    """C08: compare arms after each call, and for every query the result shape and key order; values ignored"""
    dis = []
    if mres is None:
        return ["model produced no output for the case"]
    for i, (out, obs) in enumerate(trace):
        r = mres["R"].get(i)
        if r is None:
            if mres["E"]:
                dis.append("model error: " + mres["E"])
            break
        s = mres["S"].get(i, {})
        if "arms" in obs and [str(a) for a in obs["arms"]] != [x for x in ",".join(s.get("arms", [])).split(",") if x]:
            dis.append("op %d: arms differ: impl=%s model=%s" % (i, obs["arms"], s.get("arms")))
        if out[0] in ("exp", "exps", "arm", "arms", "done", "rejected"):
            if out[0] != r[0]:
                dis.append("op %d: result kind differs: impl=%s model=%s" % (i, out[0], r[0]))
                continue
        if out[0] == "exp":
            if [str(a) for a, _ in out[1]] != [t.split(":")[0] for t in r[1:]]:
                dis.append("op %d: expectation keys differ: impl=%s model=%s" % (i, [a for a, _ in out[1]], r[1:]))
        elif out[0] == "exps":
            rows = " ".join(r[1:]).split("|")
            if len(rows) != len(out[1]) or any([str(a) for a, _ in d] != [t.split(":")[0] for t in row.split()] for d, row in zip(out[1], rows)):
                dis.append("op %d: expectation rows/keys differ" % i)
        elif out[0] == "arms":
            if len(out[1]) != len(r[1:]):
                dis.append("op %d: number of predictions differs" % i)
    return dis

def nontrivial(case, trace):
    trained = any(o[0][0] == "done" and op[0] in ("fit", "pfit") and len(op[1]) > 0 for o, op in zip(trace, case["ops"]))
    queried = any(o[0][0] in ("arm", "arms", "exp", "exps") for o in trace)
    return trained and (queried or True)

def corpus_cases(prop):
    d = os.path.join(ROOT, "corpus", prop)
    out = []
    if os.path.isdir(d):
        for fn in sorted(os.listdir(d)):
            if fn.endswith(".json"):
                out.append(json.load(open(os.path.join(d, fn)))["case"])
    return out

def tuplify(x):
    if isinstance(x, list):
        return tuple(tuplify(v) for v in x)
    return x

def fix_case(c):
    """JSON round trip turns tuples into lists"""
    c = dict(c)
    c["lp"] = tuple(tuple(v) if isinstance(v, list) and v and not isinstance(v[0], (list, tuple)) and False else v for v in c["lp"])
    if c["lp"][0] == "thompson" and c["lp"][1] is not None:
        c["lp"] = ("thompson", tuplify(c["lp"][1]))
    if c.get("np") is not None:
        c["np"] = tuple(c["np"])
    ops = []
    for o in c["ops"]:
        o = list(o)
        if o[0] == "add" and o[2] is not None:
            o[2] = tuplify(o[2])
        ops.append(tuple(o))
    c["ops"] = ops
    return c

def run_correspondence(prop, spec, tier, seed, stats, samples, distinct, dist):
    n = budget(tier, *spec["n"])
    rng = random.Random("%s-corr-%d" % (prop, seed))
    cases = [fix_case(c) for c in corpus_cases(prop)]
    for _ in range(n):
        cases.append(spec["gen"](rng, tier))
    texts, traces = [], []
    work = os.path.join(ROOT, "build", "work_%s_%s" % (prop, tier))
    for i, c in enumerate(cases):
        tr, tape, _ = mwh.run_impl(c)
        traces.append(tr)
        texts.append(("c%d" % i, mwh.case_text("c%d" % i, c, tape, c.get("_orcs"))))
    res = mwh.run_model(texts, work)
    bad = []
    if res.get("__driver__") and res["__driver__"]["E"]:
        bad.append({"why": res["__driver__"]["E"], "case": None})
    for i, c in enumerate(cases):
        stats["corr_cases"] += 1
        key = (c["lp"][0], c["np"][0] if c.get("np") else "none")
        dist["%s/%s" % key] = dist.get("%s/%s" % key, 0) + 1
        for o in c["ops"]:
            dist["op:" + o[0]] = dist.get("op:" + o[0], 0) + 1
        dist["rejected_calls"] = dist.get("rejected_calls", 0) + sum(1 for o, _ in traces[i] if o[0] == "rejected")
        if nontrivial(c, traces[i]):
            distinct.add(check_hash(c))
        if "out_keys" in spec["fields"]:
            d = compare_keys(c, traces[i], res.get("c%d" % i))
        else:
            d = mwh.compare_case(c, traces[i], res.get("c%d" % i), fields=spec["fields"])
        if d:
            stats["corr_disagree"] += 1
            entry = {"why": d[:5], "case": strip(c), "theorem_pinning_the_model_value": "coq/props/%s.v" % prop}
            if stats["corr_disagree"] <= 2:
                try:
                    small, why_small, tries = shrink_case(c, spec, work)
                    if small is not None:
                        entry["case_min"] = strip(small); entry["why_min"] = why_small[:3]; entry["shrink_attempts"] = tries
                except Exception as e:      # shrinking is best effort: the original failing case is what counts
                    entry["shrink_error"] = repr(e)[:200]
            bad.append(entry)
        if len(samples) < 2:
            samples.append({"correspondence_case": abbreviate(c), "outputs_head": [str(o)[:160] for o, _ in traces[i][:3]]})
    if spec.get("simcorr"):
        # the Simulator itself (drivers + simulator-specific neighbourhood classes) against the model SimRun.v
        import simcorr
        bad += simcorr.run_simcorr(budget(tier, *spec["simcorr"]), seed, tier, stats, dist, distinct, samples, prop=prop)
    return bad

def strip(c):
    return {k: v for k, v in c.items() if not k.startswith("_")}

def disagreements(c, spec, work):
    """run one case on the implementation and on the model; the list of disagreements (empty = agree)"""
    c = {k: v for k, v in c.items() if not k.startswith("_")}
    tr, tape, _ = mwh.run_impl(c)
    res = mwh.run_model([("k0", mwh.case_text("k0", c, tape, c.get("_orcs")))], os.path.join(work, "shrink"))
    if "out_keys" in spec["fields"]:
        return compare_keys(c, tr, res.get("k0"))
    return mwh.compare_case(c, tr, res.get("k0"), fields=spec["fields"])

def shrink_case(c, spec, work, budget_tries=80):
    """delta debugging on a disagreeing correspondence case: drop calls (never the first training call), then halve the
    rows of training batches and queries; keeps every reduction after which model and implementation still disagree"""
    tries = 0
    cur = dict(strip(c)); cur["ops"] = list(cur["ops"])
    why = disagreements(cur, spec, work)
    if not why:
        return None, [], 0            # not reproducible in isolation (should not happen: cases are self-contained)
    first_train = next((i for i, o in enumerate(cur["ops"]) if o[0] in ("fit", "pfit")), 0)
    changed = True
    while changed and tries < budget_tries:
        changed = False
        # 1. drop whole calls, last first
        i = len(cur["ops"]) - 1
        while i >= 0 and tries < budget_tries:
            if i != first_train and len(cur["ops"]) > 1:
                cand = dict(cur); cand["ops"] = cur["ops"][:i] + cur["ops"][i + 1:]
                tries += 1
                try:
                    w = disagreements(cand, spec, work)
                except Exception:
                    w = []
                if w:
                    cur, why, changed = cand, w, True
                    if i < first_train: first_train -= 1
            i -= 1
        # 2. halve batches and queries
        for i, o in enumerate(list(cur["ops"])):
            if tries >= budget_tries: break
            if o[0] in ("fit", "pfit") and len(o[1]) > 1:
                h = len(o[1]) // 2
                for part in (slice(0, h), slice(h, None)):
                    o2 = (o[0], o[1][part], o[2][part], None if o[3] is None else o[3][part])
                    cand = dict(cur); cand["ops"] = cur["ops"][:i] + [o2] + cur["ops"][i + 1:]
                    tries += 1
                    try:
                        w = disagreements(cand, spec, work)
                    except Exception:
                        w = []
                    if w:
                        cur, why, changed = cand, w, True
                        break
            elif o[0] in ("pred", "pexp") and o[1] is not None and len(o[1]) > 1:
                for part in (slice(0, 1), slice(1, None)):
                    cand = dict(cur); cand["ops"] = cur["ops"][:i] + [(o[0], o[1][part])] + cur["ops"][i + 1:]
                    tries += 1
                    try:
                        w = disagreements(cand, spec, work)
                    except Exception:
                        w = []
                    if w:
                        cur, why, changed = cand, w, True
                        break
    return cur, why, tries

def check_hash(c):
    import hashlib
    return hashlib.sha1(json.dumps(strip(c), sort_keys=True, default=str).encode()).hexdigest()[:16]

def abbreviate(c):
    import check
    return check.abbreviate(c)

# ------------------------------------------------------------------ relations (search on the implementation)
def finding_for(prop, findings, info, t):
    import findings as F
    return F.match(prop, findings, info, t)

def run_relations(prop, spec, tier, seed, stats, samples, distinct, dist, findings, known_lines, scale=1.0, tag="rel"):
    fails = []
    import findings as F
    # witnesses of known findings are replayed first: still failing => KNOWN-FINDING line
    for f in findings:
        if f["property"] == prop and f["status"] == "known":
            still = F.replay_witness(f)
            if still:
                known_lines.append("KNOWN-FINDING: property=%s %s" % (prop, f["text"]))
    if spec.get("pre") == "partition_table" and tag == "rel":
        nchk, bad = REL.partition_table_check(300 if tier == "quick" else 2000)
        stats["rel_cases"] += nchk
        dist["partition_table_entries"] = nchk
        distinct.add("partition-table-%d" % nchk)
        for b in bad[:3]:
            stats["rel_fail"] += 1
            fails.append({"relation": "partition_table", "info": {"why": "_partition_contexts/_effective_jobs differ from the model or are not an exact cover"}, "input": b})
    if spec.get("batch") and tag == "rel":
        name, g, runb, nn = spec["batch"]
        n = budget(tier, *nn)
        rng = random.Random("%s-batch-%d" % (prop, seed))
        cases = [g(rng, tier) for _ in range(n)]
        stats["rel_cases"] += 4 * n
        for c in cases:
            distinct.add("b" + check_hash(c))
        dist["batch_scenarios"] = n
        for idx, why in runb(cases, tier)[:3]:
            t = cases[idx] if idx >= 0 else {}
            fid = finding_for(prop, findings, {"why": why}, {"base": t})
            if fid:
                stats["known_hits"] += 1
                continue
            stats["rel_fail"] += 1
            fails.append({"relation": name, "info": {"why": why}, "input": strip(t) if t else None})
        if len(samples) < 4 and cases:
            samples.append({"relation": name, "input": abbreviate(cases[0])})
    for name, g, run, nn in spec["relations"]:
        n = int(budget(tier, *nn) * scale)
        rng = random.Random("%s-%s-%s-%d" % (prop, tag, name, seed))
        for i in range(n):
            t = g(rng, tier)
            stats["rel_cases"] += 1
            try:
                ok, info = run(t)
            except Exception as e:
                import traceback
                ok, info = False, {"why": "harness exception in relation", "trace": traceback.format_exc()[-1500:]}
            base = t.get("base", t) if isinstance(t, dict) else t
            if isinstance(base, dict) and "lp" in base:
                key = "rel:%s/%s" % (base["lp"][0], base["np"][0] if base.get("np") else "none")
                dist[key] = dist.get(key, 0) + 1
            if not info.get("skipped"):
                distinct.add("r" + check_hash(t if isinstance(t, dict) else {"t": str(t)}))
            if not ok:
                fid = finding_for(prop, findings, info, t)
                if fid:
                    stats["known_hits"] += 1
                    continue
                stats["rel_fail"] += 1
                if len(fails) < 3:
                    fails.append({"relation": name, "info": info, "input": strip_any(t)})
            if len(samples) < 4 and i < 2:
                samples.append({"relation": name, "input": abbreviate(base) if isinstance(base, dict) and "ops" in base else str(t)[:300]})
    return fails

def strip_any(t):
    if isinstance(t, dict):
        return {k: (strip(v) if isinstance(v, dict) else v) for k, v in t.items() if not str(k).startswith("_")}
    return t

def extended_search(prop, spec, tier, seed, stats, findings, known_lines):
    """the correspondence broke but the relation held on the normal budget: search 4x more inputs"""
    samples, distinct, dist = [], set(), {}
    return run_relations(prop, spec, tier, seed + 1, stats, samples, distinct, dist, findings, [], scale=4.0, tag="ext")

def replay(prop, path):
    body = json.load(open(path))
    print(json.dumps({k: body[k] for k in body if k != "log"}, indent=1, default=str)[:4000])
    if body.get("kind") == "correspondence" and body.get("simulation"):
        import simcorr
        t = body["simulation"]
        for b in t["bandits"]:
            b["lp"] = tuple(tuplify(v) if isinstance(v, list) else v for v in b["lp"])
            if b.get("np") is not None: b["np"] = tuple(b["np"])
        impl, split, tape, err = simcorr.run_sim_impl(t)
        if impl is None:
            print("REPLAY: the Simulator raised", err); return 1
        res = mwh.run_model([("s0", simcorr.simcase_text("s0", t, split, tape))], os.path.join(ROOT, "build", "work_replay"))
        d = simcorr.compare_sim(t, impl, res.get("s0"))
        print("REPLAY disagreements:", d[:5])
        return 1 if d else 0
    if body.get("kind") == "relation" and body.get("relation") in ("simulator_vs_public_api", "bookkeeping_laws") and isinstance(body.get("input"), dict):
        # the simulator relations are re-executed on the recorded simulation
        t = body["input"]
        for b in t["bandits"]:
            b["lp"] = tuple(tuplify(v) if isinstance(v, list) else v for v in b["lp"])
            if b.get("np") is not None: b["np"] = tuple(b["np"])
        ok, info = (REL.run_c15 if body["relation"] == "simulator_vs_public_api" else REL.run_c16)(t)
        print("REPLAY relation %s: %s %s" % (body["relation"], "holds" if ok else "FAILS", str(info)[:600]))
        return 0 if ok else 1
    if body.get("kind") == "correspondence" and body.get("case"):
        c = fix_case(body["case"])
        tr, tape, _ = mwh.run_impl(c)
        res = mwh.run_model([("r0", mwh.case_text("r0", c, tape, c.get("_orcs")))], os.path.join(ROOT, "build", "work_replay"))
        d = mwh.compare_case(c, tr, res.get("r0"))
        print("REPLAY disagreements:", d[:5])
        if body.get("case_min"):
            cm = fix_case(body["case_min"])
            trm, tapem, _ = mwh.run_impl(cm)
            resm = mwh.run_model([("r1", mwh.case_text("r1", cm, tapem, cm.get("_orcs")))], os.path.join(ROOT, "build", "work_replay"))
            dm = mwh.compare_case(cm, trm, resm.get("r1"))
            print("REPLAY of the minimised case (%d calls):" % len(cm["ops"]), dm[:3])
            d = d or dm
        return 1 if d else 0
    return 0
