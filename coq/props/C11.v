(*  C11 — LSHNearest neighbourhoods are the sign-random-projection collisions.
   
    PROVED for every n_dimensions, every planes, every stored history and query:
     * the hash of a row is the little-endian value of its sign pattern (bit i = [0 < row . plane_i]), and two
       rows have equal hashes IF AND ONLY IF they have equal sign patterns;
     * inserting a batch into a table adds to bucket h exactly the positions start+i of the batch rows whose
       hash is h, and nothing else (so partial_fit rows are found under their position in the accumulated
       history, hashed with the same planes);
     * the neighbourhood of a query is the duplicate-free set of positions found under the query's hash in at
       least one table.
     * scale invariance (ordered-field laws NumLaws, incl. 0 < x, 0 < y -> 0 < x*y; satisfied by the rationals): for every
       c > 0 the hash of c*row is the hash of row in every table, so c*row has the neighbourhood of row.
     * END TO END (LshWhole.v, LshWholeFacade.v): in every state any history of facade calls reaches, the hash tables are those of the WHOLE
       stored history under the planes drawn at the last fit (partial_fit keeps the planes; NbrBatch.insert_rows_app), the stored decisions,
       rewards and contexts are aligned, and therefore the neighbourhood of a query is EXACTLY the ascending list of the stored positions whose
       hash equals the query's in at least one table - a filter of the stored history; what reaches the learning policy are exactly those
       observations; a query equal to a stored context always finds that observation.
    At binary64 the products round; the metamorphic relation on the implementation uses c from 2^-40 to 2^30. *)
From Coq Require Import List ZArith Bool Arith QArith Qcanon Permutation.
From MW Require Import Num Assoc AssocFacts Rng Par CF CFInv CFClean CFForget CFSpec Matrix Lin Warm WarmInv Nbr NbrFacts NbrIndep LshFacts Clu Tree CellFacts Mab FacadeCF FacadeArms MoreFacts NumLaws CFAlg Sim Extra QcInst OrderFacts ExpIrrel LinInv FacadeLin LpInv NbrInv CluTreeInv FacadeAll ToyFacts C09All C10All LinForget LinSim MatrixFacts GaussJordan LinSpec NbrIndepGen CluIndep C17Lin WarmIdem C14More LshScale TreeLeaf Rename PopSpec CopyFacts StatFacts CluBatch LinWarm LshWhole LshWholeFacade NbrRowOrder RowOrder.
Import ListNotations.

Theorem C11_hash_is_value_of_sign_pattern :
  forall (R : Type) (N : Num R) (ndim : nat) (plane : (@mat R)) (row : list R),
  lsh_hash N ndim plane row = bits_value (sign_pattern N ndim plane row).
Proof. exact @hash_is_pattern_value. Qed.
Print Assumptions C11_hash_is_value_of_sign_pattern.

Theorem C11_equal_hash_iff_equal_sign_pattern :
  forall (R : Type) (N : Num R) (ndim : nat) (plane : (@mat R)) (row row' : list R),
  lsh_hash N ndim plane row = lsh_hash N ndim plane row' <->
  sign_pattern N ndim plane row = sign_pattern N ndim plane row'.
Proof. exact @hash_injective_on_patterns. Qed.
Print Assumptions C11_equal_hash_iff_equal_sign_pattern.

Theorem C11_insert_rows_bucket :
  forall (R : Type) (N : Num R) (ndim : nat) (plane cx : (@mat R)) (start : nat) 
    (tbl : list (Z * list nat)) (h : Z) (j : nat),
  In j (aget_d zeqb [] (lsh_insert_rows N ndim plane tbl cx start) h) <->
  In j (aget_d zeqb [] tbl h) \/
  (exists i : nat, (i < length cx)%nat /\ j = (start + i)%nat /\ lsh_hash N ndim plane (nth i cx []) = h).
Proof. exact @insert_rows_bucket. Qed.
Print Assumptions C11_insert_rows_bucket.

Theorem C11_neighbourhood_is_union_of_collision_buckets :
  forall (R A G : Type) (N : Num R) (s : (@nbr R A G)) (ndim : nat) (row : list R) (j : nat),
  In j (lsh_neighbors N s ndim row) <->
  (exists (plane : (@mat R)) (tbl : list (Z * list nat)),
     In (plane, tbl) (combine (n_planes s) (n_tables s)) /\
     In j (aget_d zeqb [] tbl (lsh_hash N ndim plane row))).
Proof. exact @lsh_neighbourhood_membership. Qed.
Print Assumptions C11_neighbourhood_is_union_of_collision_buckets.

Theorem C11_hash_invariant_under_positive_scaling :
  forall (R : Type) (N : Num R),
  NumLaws N ->
  forall (ndim : nat) (plane : (@mat R)) (row : list R) (c : R),
  ltb N (zero N) c = true -> lsh_hash N ndim plane (vscale N c row) = lsh_hash N ndim plane row.
Proof. exact @lsh_hash_scale_invariant. Qed.
Print Assumptions C11_hash_invariant_under_positive_scaling.

Theorem C11_neighbourhood_invariant_under_positive_scaling :
  forall (R A G : Type) (N : Num R),
  NumLaws N ->
  forall (s : (@nbr R A G)) (ndim ntab : nat) (row : list R) (c : R) (orc : list nat),
  n_kind s = NLsh ndim ntab ->
  ltb N (zero N) c = true -> neighborhood N s (vscale N c row) orc = neighborhood N s row orc.
Proof. exact @lsh_neighbourhood_scale_invariant. Qed.
Print Assumptions C11_neighbourhood_invariant_under_positive_scaling.

Theorem C11_sign_of_a_positive_multiple :
  forall (R : Type) (N : Num R),
  NumLaws N -> forall c x : R, ltb N (zero N) c = true -> ltb N (zero N) (mul N c x) = ltb N (zero N) x.
Proof. exact @sign_scale. Qed.
Print Assumptions C11_sign_of_a_positive_multiple.

Theorem C11_neighbourhood_is_exactly_the_colliding_stored_positions :
  forall (R A G : Type) (N : Num R) (s : (@nbr R A G)) (ndim nt : nat) (row : list R) (j : nat),
  n_kind s = NLsh ndim nt ->
  lsh_inv N s ->
  In j (lsh_neighbors N s ndim row) <->
  (j < length (n_cx s))%nat /\ collides N s ndim row (nth j (n_cx s) []) = true.
Proof. exact @lsh_neighbourhood_exact. Qed.
Print Assumptions C11_neighbourhood_is_exactly_the_colliding_stored_positions.

Theorem C11_neighbourhood_is_the_ascending_list_of_colliding_positions :
  forall (R A G : Type) (N : Num R) (s : (@nbr R A G)) (ndim nt : nat) (row : list R),
  n_kind s = NLsh ndim nt ->
  lsh_inv N s -> lsh_neighbors N s ndim row = positions (map (collides N s ndim row) (n_cx s)) 0.
Proof. exact @lsh_neighbourhood_is_the_colliding_positions. Qed.
Print Assumptions C11_neighbourhood_is_the_ascending_list_of_colliding_positions.

Theorem C11_query_selects_exactly_the_colliding_observations :
  forall (R A G : Type) (N : Num R) (s : (@nbr R A G)) (h : list (A * R * list R)) (ndim nt : nat) 
    (row : list R) (idx : list nat),
  n_kind s = NLsh ndim nt ->
  lsh_inv N s ->
  n_ds s = ds_of h ->
  n_rs s = rs_of h ->
  n_cx s = cx_of h ->
  neighborhood N s row [] = Some idx ->
  selected N s idx =
  (ds_of (filter (colliding N s ndim row) h), rs_of (filter (colliding N s ndim row) h),
   cx_of (filter (colliding N s ndim row) h)).
Proof. exact @lsh_selects_a_filter_of_the_history. Qed.
Print Assumptions C11_query_selects_exactly_the_colliding_observations.

Theorem C11_stored_context_is_its_own_neighbour :
  forall (R A G : Type) (N : Num R) (s : (@nbr R A G)) (ndim nt j : nat),
  n_kind s = NLsh ndim nt ->
  lsh_inv N s ->
  n_planes s <> [] -> (j < length (n_cx s))%nat -> In j (lsh_neighbors N s ndim (nth j (n_cx s) [])).
Proof. exact @stored_context_is_its_own_neighbour. Qed.
Print Assumptions C11_stored_context_is_its_own_neighbour.

Theorem C11_tables_hold_the_whole_history_on_every_history :
  forall (R A G : Type) (N : Num R) (aeqb : A -> A -> bool) (RG : RngOps R G) (ops : list (@op R A)) (m : (@mab R A G)),
  imp_hist_inv N (m_imp m) -> imp_hist_inv N (m_imp (state_after N aeqb RG m ops)).
Proof. exact @run_preserves_hist_inv. Qed.
Print Assumptions C11_tables_hold_the_whole_history_on_every_history.

Theorem C11_constructed_policy_satisfies_the_invariant :
  forall (R A G : Type) (N : Num R) (m : (@mab R A G)) (k : nkind) (mt : metric) (p : option (list R))
    (kf : bool) (arms : list A) (l : (@lp R A G)),
  m_imp m = INbr (nbr_init k mt p kf arms l) -> imp_hist_inv N (m_imp m).
Proof. exact @constructed_neighbourhood_policy_hist_inv. Qed.
Print Assumptions C11_constructed_policy_satisfies_the_invariant.

Theorem C11_aligned_history_is_a_list_of_observations :
  forall (R A G : Type) (s : (@nbr R A G)),
  aligned s ->
  let h := hist_of (n_ds s) (n_rs s) (n_cx s) in
  n_ds s = ds_of h /\ n_rs s = rs_of h /\ n_cx s = cx_of h.
Proof. exact @aligned_is_a_history. Qed.
Print Assumptions C11_aligned_history_is_a_list_of_observations.

(* non-vacuity: an LSHNearest bandit (2 bits, 2 tables) after fit and partial_fit - the tables hold the whole history, and the
   second row of the partial_fit batch (stored position 3) is found by a query equal to it *)
Definition q11 (z : Z) : Qc := Q2Qc (inject_Z z).
Definition ex11_m0 : @mab Qc Z nat :=
  mkMab (INbr (nbr_init (NLsh 2 2) Euclidean None false [1; 2]%Z (LCf (cf_init QcNum KGreedy (q11 0) None [1; 2]%Z)))) false 3%nat.
Definition ex11_o : @oracle Qc Z := mkOracle [] [] [] (fun _ _ => 0%nat) [].
Definition ex11_m := state_after QcNum Z.eqb ToyRng ex11_m0
  [Fit [1; 2]%Z [q11 0; q11 1] (Some [[q11 1; q11 (-2)]; [q11 0; q11 3]]) ex11_o;
   PartialFit [2; 1; 1]%Z [q11 1; q11 1; q11 0] (Some [[q11 2; q11 2]; [q11 (-1); q11 0]; [q11 1; q11 (-2)]]) ex11_o].
Example C11_end_to_end_example :
  match m_imp ex11_m with
  | INbr s => n_kind s = NLsh 2 2 /\ n_planes s <> [] /\ length (n_cx s) = 5%nat /\ lsh_inv QcNum s /\
              In 3%nat (lsh_neighbors QcNum s 2 [q11 (-1); q11 0]) /\ lsh_neighbors QcNum s 2 [q11 (-1); q11 0] <> [0; 1; 2; 3; 4]%nat
  | _ => False
  end.
Proof.
  pose proof (run_preserves_hist_inv QcNum Z.eqb ToyRng
    [Fit [1; 2]%Z [q11 0; q11 1] (Some [[q11 1; q11 (-2)]; [q11 0; q11 3]]) ex11_o;
     PartialFit [2; 1; 1]%Z [q11 1; q11 1; q11 0] (Some [[q11 2; q11 2]; [q11 (-1); q11 0]; [q11 1; q11 (-2)]]) ex11_o]
    ex11_m0 (constructed_neighbourhood_policy_hist_inv QcNum ex11_m0 _ _ _ _ _ _ eq_refl)) as H.
  fold ex11_m in H. destruct (m_imp ex11_m) as [c|l|s|s|s] eqn:E; try (vm_compute in E; discriminate).
  destruct H as [H _]. vm_compute in E. injection E as <-.
  split; [reflexivity|]. split; [discriminate|]. split; [reflexivity|]. split; [exact H|]. split; vm_compute; [tauto | discriminate].
Qed.

