(* CFAlg.v — algebraic consequences (exact arithmetic, NumLaws) of the closed forms of CFSpec:
   the statistics depend only on the multiset/sequence of rewards observed for the arm since the last
   fit, not on how that history was cut into fit / partial_fit batches (C06), on the order of the rows
   (C20), and they obey the reward shift law (C20). *)
From Coq Require Import ZArith List Bool Lia Permutation Ring.
From MW Require Import Num NumLaws Assoc AssocFacts Rng CF CFInv CFSpec.
Import ListNotations.

Section CFAlg.
Context {R A : Type} (N : Num R) (L : NumLaws N) (aeqb : A -> A -> bool).

Notation "0" := (zero N).
Notation "1" := (one N).

(* ---- batches do not matter: only the concatenated observations do ------------------------- *)
(* bs is given most recent batch first; the observations in arrival order are concat (rev bs) *)
Theorem spec_sum_concat (bs : list (list R)) : spec_sum N bs = nsum N (concat (rev bs)).
Proof.
  induction bs as [|b t IH]; simpl.
  - symmetry; apply (nsum_nil N L).
  - rewrite concat_app, (nsum_app N L). simpl. rewrite app_nil_r. rewrite <- IH.
    destruct b as [|x b']; simpl; [rewrite (nsum_nil N L), (add_0_r N L); reflexivity | reflexivity].
Qed.

Theorem spec_count_concat (bs : list (list R)) : spec_count bs = Z.of_nat (length (concat (rev bs))).
Proof.
  induction bs as [|b t IH]; simpl; [reflexivity|].
  rewrite concat_app, app_length. simpl. rewrite app_nil_r. rewrite Nat2Z.inj_add, <- IH.
  destruct b; simpl; lia.
Qed.

Corollary spec_mean_concat (bs : list (list R)) :
  spec_mean N bs = spec_mean N [concat (rev bs)].
Proof.
  unfold spec_mean. rewrite (spec_sum_concat bs), (spec_count_concat bs).
  rewrite (spec_sum_concat [concat (rev bs)]), (spec_count_concat [concat (rev bs)]). simpl. rewrite !app_nil_r. reflexivity.
Qed.

(* two ways of cutting the same observations into batches give the same statistics *)
Corollary chunking_irrelevant (bs bs' : list (list R)) :
  concat (rev bs) = concat (rev bs') ->
  spec_sum N bs = spec_sum N bs' /\ spec_count bs = spec_count bs' /\ spec_mean N bs = spec_mean N bs'.
Proof.
  intros H. rewrite (spec_sum_concat bs), (spec_sum_concat bs'), (spec_count_concat bs), (spec_count_concat bs'),
    (spec_mean_concat bs), (spec_mean_concat bs'), H. auto.
Qed.

(* rewards[decisions == arm] distributes over the concatenation of two aligned batches *)
Lemma arm_rewards_app (a : A) (d1 d2 : list A) (r1 r2 : list R) :
  length d1 = length r1 ->
  arm_rewards aeqb a (d1 ++ d2) (r1 ++ r2) = arm_rewards aeqb a d1 r1 ++ arm_rewards aeqb a d2 r2.
Proof.
  intros H. unfold arm_rewards.
  assert (E : combine (d1 ++ d2) (r1 ++ r2) = combine d1 r1 ++ combine d2 r2).
  { revert r1 H. induction d1 as [|x t IH]; intros [|y r1] H; simpl in *; try discriminate; [reflexivity|].
    f_equal. apply IH. lia. }
  rewrite E, filter_app, map_app. reflexivity.
Qed.

(* C06 at the level of the specification: fit on the whole history vs fit on a prefix + partial_fit *)
Theorem batch_equals_incremental_spec (a : A) (d1 d2 : list A) (r1 r2 : list R) (t : list (@cfop R A)) :
  length d1 = length r1 ->
  let whole := batches_rev aeqb (OFit (d1 ++ d2) (r1 ++ r2) :: t) a in
  let split := batches_rev aeqb (OPartial d2 r2 :: OFit d1 r1 :: t) a in
  spec_sum N whole = spec_sum N split /\ spec_count whole = spec_count split /\ spec_mean N whole = spec_mean N split.
Proof.
  intros H whole split. apply chunking_irrelevant. unfold whole, split. simpl.
  rewrite (arm_rewards_app a d1 d2 r1 r2 H). rewrite !app_nil_r. reflexivity.
Qed.

(* ---- the order of the rows does not matter (C20) -------------------------------------------- *)
Theorem nsum_permutation (l l' : list R) : Permutation l l' -> nsum N l = nsum N l'.
Proof.
  intros P. rewrite !(L_nsum N L). induction P; simpl.
  - reflexivity.
  - rewrite IHP; reflexivity.
  - rewrite !(add_assoc N L). f_equal. apply (add_comm N L).
  - congruence.
Qed.

Lemma arm_rewards_permutation (a : A) (rows rows' : list (A * R)) :
  Permutation rows rows' ->
  Permutation (arm_rewards aeqb a (map fst rows) (map snd rows)) (arm_rewards aeqb a (map fst rows') (map snd rows')).
Proof.
  intros P. unfold arm_rewards.
  assert (E : forall l : list (A * R), combine (map fst l) (map snd l) = l)
    by (induction l as [|[x y] t IH]; simpl; [reflexivity | rewrite IH; reflexivity]).
  rewrite !E. apply Permutation_map.
  induction P; simpl.
  - constructor.
  - destruct (aeqb (fst x) a); [constructor; exact IHP | exact IHP].
  - destruct (aeqb (fst x) a), (aeqb (fst y) a); first [apply perm_swap | apply Permutation_refl].
  - eapply Permutation_trans; eauto.
Qed.

Theorem row_order_irrelevant (a : A) (rows rows' : list (A * R)) :
  Permutation rows rows' ->
  nsum N (arm_rewards aeqb a (map fst rows) (map snd rows)) = nsum N (arm_rewards aeqb a (map fst rows') (map snd rows')) /\
  length (arm_rewards aeqb a (map fst rows) (map snd rows)) = length (arm_rewards aeqb a (map fst rows') (map snd rows')).
Proof.
  intros P. pose proof (arm_rewards_permutation a rows rows' P) as Q.
  split; [apply nsum_permutation; exact Q | apply Permutation_length; exact Q].
Qed.

(* ---- reward shift: adding c to every reward shifts the mean by c (C20) ------------------------ *)
Add Ring RingN : (L_ring N L).

Lemma nsum_shift (l : list R) (c : R) :
  nsum N (map (fun r => add N r c) l) = add N (nsum N l) (mul N (of_Z N (Z.of_nat (length l))) c).
Proof.
  rewrite !(L_nsum N L). induction l as [|x t IH].
  - simpl. rewrite (L_of_Z_0 N L). ring.
  - simpl length. rewrite Nat2Z.inj_succ. unfold Z.succ. rewrite (L_of_Z_add N L), (L_of_Z_1 N L).
    simpl. rewrite IH. ring.
Qed.

Theorem mean_shift (l : list R) (c : R) :
  l <> [] ->
  div N (nsum N (map (fun r => add N r c) l)) (of_Z N (Z.of_nat (length l))) =
  add N (div N (nsum N l) (of_Z N (Z.of_nat (length l)))) c.
Proof.
  intros Hne.
  set (n := of_Z N (Z.of_nat (length l))).
  assert (Hn : n <> 0) by (apply (L_of_Z_pos N L); destruct l; [congruence | simpl; lia]).
  apply (L_mul_cancel N L _ _ n Hn).
  rewrite (L_div N L _ _ Hn).
  replace (mul N (add N (div N (nsum N l) n) c) n) with (add N (mul N (div N (nsum N l) n) n) (mul N n c)) by ring.
  rewrite (L_div N L _ _ Hn). rewrite nsum_shift. reflexivity.
Qed.

End CFAlg.
