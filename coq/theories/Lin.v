(* Lin.v — linear.py: _RidgeRegression / _LinTS / _LinUCB and the _Linear bandit. *)
From Coq Require Import ZArith List Bool.
From MW Require Import Num Assoc Rng CF Matrix.
Import ListNotations.

Inductive regkind := RRidge | RTs | RUcb.

Section Lin.
Context {R A G : Type} (N : Num R) (aeqb : A -> A -> bool) (RG : RngOps R G).

Notation "0" := (zero N).
Notation "1" := (one N).

(* sklearn StandardScaler: n_samples_seen_, mean_, var_, scale_ *)
Record scaler := mkScaler { sc_n : Z; sc_mean : vec (R:=R); sc_var : vec (R:=R); sc_scale : vec (R:=R) }.

Record ridge := mkRidge {
  r_beta : vec (R:=R); r_A : mat (R:=R); r_Ainv : mat (R:=R); r_Xty : vec (R:=R);
  r_scaler : option (option scaler);   (* None: scale=False; Some None: StandardScaler() not yet fit *)
  r_rng : option G                     (* None: the object shared with the bandit; Some g: a deep copy *)
}.

Record lin := mkLin {
  l_kind : regkind; l_alpha : R; l_eps : R; l_l2 : R; l_scale : bool;
  l_kf_ainv : bool;                    (* known finding D2: init() sets A_inv = l2*I instead of I/l2 *)
  l_nf : option nat;                   (* num_features *)
  l_arms : list A;
  l_exp : list (A * R);                (* BaseMAB.arm_to_expectation (never read by _Linear) *)
  l_status : list (A * status (A:=A));
  l_models : list (A * ridge)
}.

Definition ridge_new : ridge := mkRidge [] [] [] [] None None.

Definition lin_init (k : regkind) (alpha eps l2 : R) (scale kf : bool) (arms : list A) : lin :=
  mkLin k alpha eps l2 scale kf None arms (afromkeys arms 0) (afromkeys arms status0) (afromkeys arms ridge_new).

(* _RidgeRegression.init *)
Definition ridge_init (s : lin) (d : nat) (m : ridge) : ridge :=
  let a := mscale N (l_l2 s) (identity N d) in
  let ainv := if l_kf_ainv s then a else mscale N (div N 1 (l_l2 s)) (identity N d) in
  mkRidge (mat_vec N ainv (zeros N d)) a ainv (zeros N d) (if l_scale s then Some None else None) (r_rng m).

Definition small_tol : R := div N 1 (of_Z N 1000000).

Definition col_mean (c : vec) : R := div N (nsum N c) (of_Z N (Z.of_nat (length c))).
Definition col_var (c : vec) (mu : R) : R :=
  div N (nsum N (map (fun x => mul N (sub N x mu) (sub N x mu)) c)) (of_Z N (Z.of_nat (length c))).

(* fix_small_variance after sklearn's own zero handling *)
Definition fix_scale (var : R) : R * R :=
  let sc := sqrt N var in
  if leb N sc small_tol then (0, 1) else (var, sc).

Definition scaler_fit (d : nat) (x : mat (R:=R)) : scaler :=
  let cols := transpose N d x in
  let mus := map col_mean cols in
  let vs := map2 col_var cols mus in
  let fixed := map fix_scale vs in
  mkScaler (Z.of_nat (length x)) mus (map fst fixed) (map snd fixed).

(* StandardScaler.partial_fit: pooled mean and population variance *)
Definition scaler_partial (d : nat) (sc : scaler) (x : mat (R:=R)) : scaler :=
  let cols := transpose N d x in
  let nb := of_Z N (Z.of_nat (length x)) in
  let n0 := of_Z N (sc_n sc) in
  let nt := add N n0 nb in
  let mub := map col_mean cols in
  let vb := map2 col_var cols mub in
  let mus := map2 (fun m0 mb => div N (add N (mul N m0 n0) (mul N mb nb)) nt) (sc_mean sc) mub in
  let vs := map2 (fun mv mbvb =>
                    let '(m0, v0) := mv in let '(mb, vb0) := mbvb in
                    let dlt := sub N m0 mb in
                    div N (add N (add N (mul N v0 n0) (mul N vb0 nb)) (mul N (div N (mul N n0 nb) nt) (mul N dlt dlt))) nt)
                 (combine (sc_mean sc) (sc_var sc)) (combine mub vb) in
  let fixed := map fix_scale vs in
  mkScaler (sc_n sc + Z.of_nat (length x))%Z mus (map fst fixed) (map snd fixed).

Definition scaler_transform (sc : scaler) (x : mat (R:=R)) : mat (R:=R) :=
  map (fun row => map2 (fun xm s => div N (sub N (fst xm) (snd xm)) s) (combine row (sc_mean sc)) (sc_scale sc)) x.

(* _RidgeRegression.fit; None = np.linalg.inv raises *)
Definition ridge_fit (d : nat) (m : ridge) (x : mat (R:=R)) (y : vec (R:=R)) : option ridge :=
  let '(x', scl) :=
     match r_scaler m with
     | None => (x, None)
     | Some None => let sc := scaler_fit d x in (scaler_transform sc x, Some (Some sc))
     | Some (Some sc0) => let sc := scaler_partial d sc0 x in (scaler_transform sc x, Some (Some sc))
     end in
  let a := madd N (r_A m) (xtx N d x') in
  match inverse N d a with
  | None => None
  | Some ainv =>
      let v := vadd N (r_Xty m) (xty N d x' y) in
      Some (mkRidge (mat_vec N ainv v) a ainv v scl (r_rng m))
  end.

Definition set_models (s : lin) ms := mkLin (l_kind s) (l_alpha s) (l_eps s) (l_l2 s) (l_scale s) (l_kf_ainv s) (l_nf s) (l_arms s) (l_exp s) (l_status s) ms.
Definition set_lstatus (s : lin) x := mkLin (l_kind s) (l_alpha s) (l_eps s) (l_l2 s) (l_scale s) (l_kf_ainv s) (l_nf s) (l_arms s) (l_exp s) x (l_models s).
Definition set_lnf (s : lin) x := mkLin (l_kind s) (l_alpha s) (l_eps s) (l_l2 s) (l_scale s) (l_kf_ainv s) x (l_arms s) (l_exp s) (l_status s) (l_models s).

Definition arm_rows (a : A) (ds : list A) (rs : list R) (cx : mat (R:=R)) : mat (R:=R) * vec (R:=R) :=
  let sel := filter (fun t => aeqb (fst (fst t)) a) (combine (combine ds rs) cx) in
  (map snd sel, map (fun t => snd (fst t)) sel).

Definition ncols (cx : mat (R:=R)) : nat := match cx with r :: _ => length r | [] => O end.

(* _fit_arm : deep copy (the copy owns a copy of the generator), fit, store back *)
Definition lin_fit_arm (s : lin) (g : G) (a : A) (ds : list A) (rs : list R) (cx : mat (R:=R)) : option lin :=
  let '(x, y) := arm_rows a ds rs cx in
  match x with
  | [] => Some s
  | _ =>
      let m := aget_d aeqb ridge_new (l_models s) a in
      let m1 := mkRidge (r_beta m) (r_A m) (r_Ainv m) (r_Xty m) (r_scaler m)
                        (Some (match r_rng m with Some g' => g' | None => g end)) in
      let d := match l_nf s with Some d => d | None => O end in
      if negb (Nat.eqb (ncols x) d) then None else      (* np.dot raises on a width mismatch *)
      match ridge_fit d m1 x y with
      | None => None
      | Some m2 => Some (set_models s (aset aeqb (l_models s) a m2))
      end
  end.

(* _parallel_fit, sequential; stops at the first arm whose fit raises and reports it *)
Fixpoint lin_parallel_fit (s : lin) (g : G) (arms : list A) ds rs cx : lin * bool :=
  match arms with
  | [] => (s, true)
  | a :: t => match lin_fit_arm s g a ds rs cx with
              | None => (s, false)
              | Some s' => lin_parallel_fit s' g t ds rs cx
              end
  end.

Definition lset_trained (s : lin) (ds : list A) (is_partial : bool) : lin :=
  set_lstatus s
    (fold_left (fun stt a =>
        if amem aeqb a ds then
          match aget aeqb stt a with
          | Some x => aset aeqb stt a (if is_partial then mkStatus true (st_warm x) (st_by x)
                                       else mkStatus true false None)
          | None => stt
          end
        else stt) (l_arms s) (l_status s)).

Definition lin_fit (s : lin) (g : G) ds rs (cx : mat (R:=R)) : lin * bool :=
  let d := ncols cx in
  let s1 := set_lnf s (Some d) in
  let s2 := set_models s1 (map (fun am => (fst am, ridge_init s1 d (snd am))) (l_models s1)) in
  let s3 := set_lstatus s2 (afromkeys (l_arms s2) status0) in
  let (s4, ok) := lin_parallel_fit s3 g (l_arms s3) ds rs cx in
  if ok then (lset_trained s4 ds false, true) else (s4, false).

Definition lin_partial_fit (s : lin) (g : G) ds rs (cx : mat (R:=R)) : lin * bool :=
  let (s4, ok) := lin_parallel_fit s g (l_arms s) ds rs cx in
  if ok then (lset_trained s4 ds true, true) else (s4, false).

Definition lin_add_arm (s : lin) (a : A) : lin :=
  let arms' := l_arms s ++ [a] in
  let m := match l_nf s with Some d => ridge_init s d ridge_new | None => ridge_new end in
  mkLin (l_kind s) (l_alpha s) (l_eps s) (l_l2 s) (l_scale s) (l_kf_ainv s) (l_nf s) arms'
        (aset aeqb (l_exp s) a 0) (aset aeqb (l_status s) a status0) (aset aeqb (l_models s) a m).

Definition lin_remove_arm (s : lin) (a : A) : lin :=
  mkLin (l_kind s) (l_alpha s) (l_eps s) (l_l2 s) (l_scale s) (l_kf_ainv s) (l_nf s) (lremove aeqb (l_arms s) a)
        (apop aeqb (l_exp s) a) (apop aeqb (l_status s) a) (apop aeqb (l_models s) a).

(* model.predict(x) for one arm; returns one value per row, the model (its own generator
   may have advanced) and the shared generator (advanced if the model aliases it) *)
Definition ridge_predict (s : lin) (m : ridge) (g : G) (x : mat (R:=R)) : vec (R:=R) * ridge * G :=
  let x' := match r_scaler m with Some (Some sc) => scaler_transform sc x | _ => x end in
  match l_kind s with
  | RRidge => (map (fun row => dot N row (r_beta m)) x', m, g)
  | RUcb =>
      (map (fun row =>
              let xa := map (fun c => dot N row c) (transpose N (length row) (r_Ainv m)) in
              add N (dot N row (r_beta m)) (mul N (l_alpha s) (sqrt N (nsum N (map2 (mul N) xa row))))) x', m, g)
  | RTs =>
      let cov := mscale N (mul N (l_alpha s) (l_alpha s)) (r_Ainv m) in
      let gm := match r_rng m with Some g' => g' | None => g end in
      let (smp, gm') := draw_r RG gm (RqMvn (r_beta m) cov (length x')) in
      let rows := chunk_rows (length x') (length (r_beta m)) smp in
      let vals := map2 (fun row b => nsum N (map2 (mul N) row b)) x' rows in
      match r_rng m with
      | Some _ => (vals, mkRidge (r_beta m) (r_A m) (r_Ainv m) (r_Xty m) (r_scaler m) (Some gm'), g)
      | None => (vals, m, gm')
      end
  end.

Fixpoint predict_arms (s : lin) (ms : list (A * ridge)) (arms : list A) (g : G) (x : mat (R:=R))
  : list (vec (R:=R)) * list (A * ridge) * G :=
  match arms with
  | [] => ([], ms, g)
  | a :: t =>
      let m := aget_d aeqb ridge_new ms a in
      let '(v, m', g1) := ridge_predict s m g x in
      let '(rest, ms', g2) := predict_arms s (aset aeqb ms a m') t g1 x in
      (v :: rest, ms', g2)
  end.

(* rebuild the full list of rows from the random rows and the model rows, following the mask *)
Fixpoint merge_rows {T} (mask : list bool) (rnd : list T) (det : list T) : list T :=
  match mask with
  | [] => []
  | true :: t => match rnd with x :: r' => x :: merge_rows t r' det | [] => [] end
  | false :: t => match det with x :: d' => x :: merge_rows t rnd d' | [] => [] end
  end.

(* _vectorized_predict_context: one row of expectations per context *)
Definition lin_expectations (s : lin) (g : G) (cx : mat (R:=R)) : list (list (A * R)) * lin * G :=
  let m := length cx in
  let n := length (l_arms s) in
  let (rv, g1) := draw_r RG g (RqRand [m]) in
  let mask := map (fun v => ltb N v (l_eps s)) rv in
  let k := length (filter (fun b => b) mask) in
  let (rnd, g2) := draw_r RG g1 (RqRand [k; n]) in
  let det_cx := map snd (filter (fun bc => negb (fst bc)) (combine mask cx)) in
  let '(percol, ms', g3) := predict_arms s (l_models s) (l_arms s) g2 det_cx in
  let det_rows := map (fun i => map (fun c => nth i c 0) percol) (seq 0 (length det_cx)) in
  let rows := merge_rows mask (chunk_rows k n rnd) det_rows in
  (map (fun r => combine (l_arms s) r) rows, set_models s ms', g3).

End Lin.
