(*  C09 — predict returns the arm with the highest expectation.
   
    PROVED for context-free bandits, every state, every generator state, every number of rows: what predict
    returns is the first-maximum (utils.argmax: replace only on strictly greater, so the FIRST arm in arm-list
    order among ties) of exactly the dictionaries predict_expectations returns from the same state and the same
    generator position, and both calls leave the same state behind.
    Under the order laws (NumLaws: a total order on the numbers): the key utils.argmax returns attains the maximum
    of the dictionary, and every key listed before it holds a strictly smaller value (first among ties).
    ..._partial: for linear and neighbourhood policies the same definitional structure is in the model
    (imp_query computes predictions from the expectation rows) and is compared with the implementation by the
    deep-copy twin relation; TreeBandit + EpsilonGreedy(epsilon>0) is excluded by the property. *)
From Coq Require Import List ZArith Bool Arith QArith Qcanon Permutation.
From MW Require Import Num Assoc AssocFacts Rng Par CF CFInv CFClean CFForget CFSpec Matrix Lin Warm WarmInv Nbr NbrFacts NbrIndep LshFacts Clu Tree CellFacts Mab FacadeCF FacadeArms MoreFacts NumLaws CFAlg Sim Extra QcInst OrderFacts ExpIrrel LinInv FacadeLin LpInv NbrInv CluTreeInv FacadeAll ToyFacts.
Import ListNotations.

Theorem C09_predict_is_first_argmax_of_expectations_partial :
  forall (R A G : Type) (N : Num R) (aeqb : A -> A -> bool) (RG : RngOps R G) 
    (m : (@mab R A G)) (cx : option (@ctxs R)) (orc : (@oracle R A)),
  is_cf m ->
  snd (step N aeqb RG m (Predict cx orc)) = out_argmax N (snd (step N aeqb RG m (PredictExp cx orc))) /\
  fst (step N aeqb RG m (Predict cx orc)) = fst (step N aeqb RG m (PredictExp cx orc)).
Proof. exact @predict_is_argmax_of_expectations. Qed.
Print Assumptions C09_predict_is_first_argmax_of_expectations_partial.

Theorem C09_argmax_is_a_key :
  forall (R A : Type) (N : Num R) (d : list (A * R)),
  d <> [] -> exists a : A, argmax_first N d = Some a /\ In a (akeys d).
Proof. exact @argmax_first_in. Qed.
Print Assumptions C09_argmax_is_a_key.

Theorem C09_argmax_attains_the_maximum :
  forall (R A : Type) (N : Num R),
  NumLaws N ->
  forall (d : list (A * R)) (a : A),
  argmax_first N d = Some a ->
  exists v : R, In (a, v) d /\ (forall kv : A * R, In kv d -> leb N (snd kv) v = true).
Proof. exact @argmax_first_is_maximal. Qed.
Print Assumptions C09_argmax_attains_the_maximum.

Theorem C09_ties_go_to_the_first_arm :
  forall (R A : Type) (N : Num R),
  NumLaws N ->
  forall (h : A * R) (t : list (A * R)),
  (forall kv : A * R, In kv t -> leb N (snd kv) (snd h) = true) ->
  argmax_first N (h :: t) = Some (fst h).
Proof. exact @argmax_first_ties_go_to_the_first_key. Qed.
Print Assumptions C09_ties_go_to_the_first_arm.


