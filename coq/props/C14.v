(*  C14 — A Thompson binarizer is applied to every reward exactly once.
   
    PROVED for every binarizer function (also ones that are not idempotent on {0,1}), every batch:
     * training a Thompson policy that has a binarizer IS training the policy without binarizer on the rewards
       converted by binarizer(decision, reward): fit and partial_fit commute with the conversion, the states are
       equal up to the binarizer field itself;
     * under Radius / KNearest / LSHNearest the history stores the converted rewards and marks the policy
       (is_contextual_binarized), and a marked policy converts nothing: the copies re-trained at prediction time
       see every reward converted exactly once.
     * Clusters: the stored history holds the rewards converted once by the common binarizer and every per-cluster policy is
       marked, so the policies trained on the stored history convert nothing;
     * TreeBandit: the rewards filed in the leaves are converted once at fit time; with the documented behaviour (model flag
       t_kf_rebin = false) the leaf policies created at prediction time have no binarizer.
    ..._partial: the code's TreeBandit leaf policies re-apply the binarizer (finding D6, t_kf_rebin = true in the runs). *)
From Coq Require Import List ZArith Bool Arith QArith Qcanon Permutation.
From MW Require Import Num Assoc AssocFacts Rng Par CF CFInv CFClean CFForget CFSpec Matrix Lin Warm WarmInv Nbr NbrFacts NbrIndep LshFacts Clu Tree CellFacts Mab FacadeCF FacadeArms MoreFacts NumLaws CFAlg Sim Extra QcInst OrderFacts ExpIrrel LinInv FacadeLin LpInv NbrInv CluTreeInv FacadeAll ToyFacts C09All C10All LinForget LinSim MatrixFacts GaussJordan LinSpec NbrIndepGen CluIndep C17Lin WarmIdem C14More LshScale TreeLeaf Rename PopSpec CopyFacts StatFacts CluBatch LinWarm.
Import ListNotations.

Theorem C14_binarizer_commutes_with_training :
  forall (R A : Type) (N : Num R) (aeqb : A -> A -> bool) (s : (@cf R A)) (ds : list A) (rs : list R),
  c_kind s = KThompson ->
  cf_fit N aeqb s ds rs = set_binz (cf_fit N aeqb (set_binz s None) ds (binarize s ds rs)) (c_binz s) /\
  cf_partial_fit N aeqb s ds rs =
  set_binz (cf_partial_fit N aeqb (set_binz s None) ds (binarize s ds rs)) (c_binz s).
Proof. exact @thompson_binarize_once. Qed.
Print Assumptions C14_binarizer_commutes_with_training.

Theorem C14_marked_policy_converts_nothing :
  forall (R A : Type) (s : (@cf R A)) (ds : list A) (rs : list R), c_ctxbin s = true -> binarize s ds rs = rs.
Proof. exact @binarize_marked_is_identity. Qed.
Print Assumptions C14_marked_policy_converts_nothing.

Theorem C14_neighbourhood_history_stores_converted_rewards_partial :
  forall (R A G : Type) (l : (@lp R A G)) (ds : list A) (rs : list R),
  lp_is_ts_binz l = true ->
  match l with
  | LCf c => lp_binarize l ds rs = (LCf (set_ctxbin c true), binarize (set_ctxbin c false) ds rs)
  | LLin _ => True
  end.
Proof. exact @neighbourhood_stores_converted_rewards. Qed.
Print Assumptions C14_neighbourhood_history_stores_converted_rewards_partial.

Theorem C14_clusters_store_converted_rewards_and_mark_every_policy :
  forall (R A G : Type) (s : (@clu R A G)) (l0 : (@lp R A G)) (c0 : (@cf R A)) (t : list (@lp R A G)) (ds : list A) (rs : list R),
  l0 = LCf c0 ->
  k_lps s = l0 :: t ->
  lp_is_ts_binz l0 = true ->
  snd (clu_binarize s ds rs) = binarize (set_ctxbin c0 false) ds rs /\
  fst (clu_binarize s ds rs) = map (fun l : (@lp R A G) => fst (lp_binarize l ds rs)) (k_lps s) /\
  (forall l : (@lp R A G),
   In l (fst (clu_binarize s ds rs)) ->
   forall c : (@cf R A), l = LCf c -> lp_is_ts_binz l = true -> c_ctxbin c = true).
Proof. exact @clusters_store_converted_rewards. Qed.
Print Assumptions C14_clusters_store_converted_rewards_and_mark_every_policy.

Theorem C14_tree_stores_converted_rewards :
  forall (R A : Type) (s : (@tree R A)) (ds : list A) (rs : list R) (f : A -> R -> R),
  c_kind (t_lp s) = KThompson ->
  c_binz (t_lp s) = Some f ->
  tree_binarize s ds rs = (set_ctxbin (t_lp s) true, binarize (set_ctxbin (t_lp s) false) ds rs).
Proof. exact @tree_stores_converted_rewards. Qed.
Print Assumptions C14_tree_stores_converted_rewards.

Theorem C14_tree_leaf_policy_has_no_binarizer_in_documented_behaviour :
  forall (R A G : Type) (N : Num R) (aeqb : A -> A -> bool) (RG : RngOps R G) 
    (s : (@tree R A)) (g : G) (a : A) (rewards : list R),
  t_kf_rebin s = false ->
  leaf_expectation N aeqb RG s g a rewards =
  leaf_expectation N aeqb RG
    {|
      t_kf_rebin := false;
      t_kf_sharedrng := t_kf_sharedrng s;
      t_arms := t_arms s;
      t_lp := set_binz (t_lp s) None;
      t_exp := t_exp s;
      t_leaves := t_leaves s;
      t_nf := t_nf s
    |} g a rewards.
Proof. exact @tree_leaf_policy_has_no_binarizer. Qed.
Print Assumptions C14_tree_leaf_policy_has_no_binarizer_in_documented_behaviour.


