(* SimDrivers.v — C15: the offline / online drivers of the Simulator against the public API.
   (1) the distance dictionary shared between the bandits of one chunk is sound: every Radius / KNearest bandit of a
       simulation stores the same contexts (an invariant of training and of every online update), so a cache computed by
       another bandit with the same metric is the bandit's own;
   (2) a replaced neighbourhood bandit: training and every online update produce the library bandit's state, and each
       predict call returns the library's predictions and leaves the shared generator where the library would;
   (3) hence the reported predictions are those of the public API: offline for every bandit; online for the bandits the
       simulator keeps (context-free, linear, Clusters, TreeBandit) with the public protocol predict / predict_expectations /
       partial_fit, and for the replaced neighbourhood bandits with the protocol predict / partial_fit (the simulator
       classes take the expectations from the same call - the extra predict_expectations call of the public protocol
       advances the bandit's generator: finding D13). *)
From Coq Require Import ZArith List Bool Arith Lia.
From MW Require Import Num Assoc AssocFacts Rng Par CF CFInv CFClean CFForget Matrix Lin LinInv LinForget LinSim
                       Nbr NbrFacts NbrIndep NbrIndepGen LpInv Warm Clu Tree Mab Sim SimRun SimRunFacts.
Import ListNotations.

Section Drivers.
Context {R A G : Type} (N : Num R) (aeqb : A -> A -> bool) (RG : RngOps R G).
Hypothesis aeqb_spec : forall x y, aeqb x y = true <-> x = y.
Hypothesis Hrng : rng_lengths_ok RG.
Notation nbr := (@nbr R A G).
Notation lp := (@lp R A G).
Notation mab := (@mab R A G).
Notation sbandit := (@sbandit R A G).
Notation oracle := (@oracle R A).
Notation exps := (list (A * option R)).

(* ---- (1) the shared distance dictionary ------------------------------------------------------------- *)
Definition dc_valid (H rows : mat (R:=R)) (dc : @dcache R) : Prop :=
  forall m c, dc_find dc m = Some c -> c = map (fun row => map (fun h => distance N m h row) H) rows.

Definition shares_history (H : mat (R:=R)) (b : sbandit) : Prop :=
  match b with SNbr s _ _ => uses_cache s = true -> n_cx s = H | SMab _ => True end.

Definition sim_query1 (b : sbandit) cx n lo hi (op oe : oracle) : sbandit * option (list (option A) * list exps) :=
  let '(b', _, r) := sim_query N aeqb RG b [] cx n lo hi op oe in (b', r).

Lemma metric_eqb_eq a b : metric_eqb a b = true -> a = b.
Proof. destruct a, b; simpl; intros E; try discriminate; reflexivity. Qed.
Lemma metric_eqb_refl a : metric_eqb a a = true.
Proof. destruct a; reflexivity. Qed.

Lemma dc_find_app (dc : @dcache R) m c m' :
  dc_find (dc ++ [(m, c)]) m' = match dc_find dc m' with Some x => Some x | None => if metric_eqb m m' then Some c else None end.
Proof.
  induction dc as [|[k v] t IH]; simpl; [reflexivity|]. destruct (metric_eqb k m'); [reflexivity | exact IH].
Qed.

Lemma sim_query_dc (b : sbandit) (H : mat (R:=R)) dc cx n lo hi op oe :
  dc_valid H (octx cx) dc -> shares_history H b ->
  let '(b', dc', r) := sim_query N aeqb RG b dc cx n lo hi op oe in
  (b', r) = sim_query1 b cx n lo hi op oe /\ dc_valid H (octx cx) dc'.
Proof.
  intros Hv Hs. unfold sim_query1. destruct b as [m|s g rae]; cbn [sim_query].
  - destruct (is_contextual (m_imp m)).
    + destruct (step N aeqb RG m (Predict cx op)) as [m1 o1]. destruct (step N aeqb RG m1 (PredictExp cx oe)) as [m2 o2].
      split; [reflexivity | exact Hv].
    + destruct (cf_predict_n N aeqb RG m n op) as [m1 r]. split; [reflexivity | exact Hv].
  - cbn [shares_history] in Hs. destruct (uses_cache s) eqn:Eu; cbn [dc_find].
    + specialize (Hs eq_refl). subst H.
      destruct (dc_find dc (n_metric s)) as [c|] eqn:Ef.
      * rewrite (Hv _ _ Ef). fold (sim_distances N s (octx cx)).
        destruct (simnbr_predict N aeqb RG s (k_quick rae) (stat_rewards s rae) g (octx cx) (sim_distances N s (octx cx)) (o_knn op) (o_sizes op)) as [[l|] g1];
          (split; [reflexivity | exact Hv]).
      * destruct (simnbr_predict N aeqb RG s (k_quick rae) (stat_rewards s rae) g (octx cx) (sim_distances N s (octx cx)) (o_knn op) (o_sizes op)) as [[l|] g1];
          (split; [reflexivity|]; intros m' c' Hf; rewrite dc_find_app in Hf;
           destruct (dc_find dc m') as [x|] eqn:Ex; [injection Hf as <-; apply (Hv _ _ Ex) |];
           destruct (metric_eqb (n_metric s) m') eqn:Em; [|discriminate]; injection Hf as <-;
           apply metric_eqb_eq in Em; subst m'; reflexivity).
    + destruct (simnbr_predict N aeqb RG s (k_quick rae) (stat_rewards s rae) g (octx cx) [] (o_knn op) (o_sizes op)) as [[l|] g1]; (split; [reflexivity | exact Hv]).
Qed.

Fixpoint sim_query_each (bs : list sbandit) cx n lo hi (orcs : list (@borc R A)) :=
  match bs with
  | [] => []
  | b :: t => sim_query1 b cx n lo hi (fst (fst (hd (borc0 (R:=R) (A:=A)) orcs))) (snd (fst (hd (borc0 (R:=R) (A:=A)) orcs)))
              :: sim_query_each t cx n lo hi (tl orcs)
  end.

(* the bandits of one chunk do not influence each other through the shared distance dictionary *)
Theorem shared_cache_sound (H : mat (R:=R)) (bs : list sbandit) dc cx n lo hi orcs :
  Forall (shares_history H) bs -> dc_valid H (octx cx) dc ->
  sim_query_all N aeqb RG bs dc cx n lo hi orcs = sim_query_each bs cx n lo hi orcs.
Proof.
  revert dc orcs. induction bs as [|b t IH]; intros dc orcs Hall Hv; [reflexivity|].
  inversion Hall as [|? ? Hb Ht]; subst. cbn [sim_query_all sim_query_each].
  pose proof (sim_query_dc b H dc cx n lo hi (fst (fst (hd borc0 orcs))) (snd (fst (hd borc0 orcs))) Hv Hb) as Hq.
  destruct (sim_query N aeqb RG b dc cx n lo hi (fst (fst (hd borc0 orcs))) (snd (fst (hd borc0 orcs)))) as [[b' dc'] r].
  destruct Hq as [E Hv']. rewrite <- E. f_equal. apply IH; assumption.
Qed.

Lemma dc_valid_nil H rows : dc_valid H rows [].
Proof. intros m c Hf. discriminate. Qed.

(* the history invariant: training and online updates keep the stored contexts of all replaced bandits equal *)
Lemma sim_train_history quick (m : mab) ds rs cx orc :
  shares_history (octx cx) (fst (sim_train N aeqb RG quick m ds rs cx orc)).
Proof.
  unfold sim_train. destruct (m_imp m) as [c|l|s|k|t];
    try (destruct (step N aeqb RG m (Fit ds rs cx orc)) as [m1 o]; exact I).
  set (s0 := nbr_init _ _ _ _ _ _).
  pose proof (history_after_fit N RG s0 (m_rng m) ds rs (octx cx)) as (_ & Hc & _).
  destruct (nbr_fit N RG s0 (m_rng m) ds rs (octx cx)) as [s1 g1]. simpl in *. intros _. exact Hc.
Qed.

Lemma sim_query1_history H (b : sbandit) cx n lo hi op oe :
  shares_history H b -> shares_history H (fst (sim_query1 b cx n lo hi op oe)).
Proof.
  intros Hs. unfold sim_query1. destruct b as [m|s g rae]; cbn [sim_query].
  - destruct (is_contextual (m_imp m)).
    + destruct (step N aeqb RG m (Predict cx op)) as [m1 o1]. destruct (step N aeqb RG m1 (PredictExp cx oe)) as [m2 o2]. exact I.
    + destruct (cf_predict_n N aeqb RG m n op) as [m1 r]. exact I.
  - destruct (uses_cache s); cbn [dc_find];
      match goal with |- context [simnbr_predict ?a ?b ?c ?d ?e ?f ?g ?h ?i] => destruct (simnbr_predict a b c d e f g h i) as [[l|] g1] end;
      exact Hs.
Qed.

Lemma nbr_partial_fit_kind (s : nbr) ds rs cx : n_kind (nbr_partial_fit N s ds rs cx) = n_kind s.
Proof. unfold nbr_partial_fit. destruct (lp_binarize (n_lp s) ds rs) as [l' rs']. destruct (n_kind s) eqn:Ek; simpl; auto. Qed.

Lemma sim_update_history H (b : sbandit) ds rs cx orc :
  shares_history H b -> shares_history (H ++ octx cx) (fst (sim_update N aeqb RG b ds rs cx orc)).
Proof.
  intros Hs. destruct b as [m|s g rae]; cbn [sim_update]; cbv zeta.
  - match goal with |- context [step ?a ?b ?c ?d ?e] => destruct (step a b c d e) as [m1 o] end. exact I.
  - cbn [fst shares_history] in *. pose proof (history_after_partial_fit N s ds rs (octx cx)) as (_ & Hc & _). simpl in Hc.
    intros Hu. rewrite Hc. f_equal. apply Hs.
    unfold uses_cache in *. rewrite nbr_partial_fit_kind in Hu. exact Hu.
Qed.

(* ---- (2) a replaced neighbourhood bandit against the library bandit ------------------------------------ *)
Definition lp_sim_ok (l : lp) : Prop :=
  match l with
  | LCf t => keys_ok t /\ clean N t
  | LLin t => lin_keys_ok t /\ l_kind t <> RTs
  end.

Theorem sim_predict_refines_library (s : nbr) quick raw g cx orcs sizes : lp_sim_ok (n_lp s) ->
  let (r, g1) := simnbr_predict N aeqb RG s quick raw g cx (sim_distances N s cx) orcs sizes in
  nbr_predict N aeqb RG s g cx orcs sizes true = (option_map (@preds_of R A) r, g1).
Proof.
  destruct (n_lp s) as [t|t] eqn:El; intros [H1 H2].
  - apply (sim_predict_refines_library_cf N aeqb RG aeqb_spec Hrng s t quick raw g cx orcs sizes El H1 H2).
  - apply (sim_predict_refines_library_linear N aeqb RG aeqb_spec Hrng s t quick raw g cx orcs sizes El H1 H2).
Qed.

Lemma lp_binarize_sim_ok (l : lp) ds rs : lp_sim_ok l -> lp_sim_ok (fst (lp_binarize l ds rs)).
Proof.
  destruct l as [c|c]; [|simpl; auto]. unfold lp_binarize.
  destruct (lp_is_ts_binz (G:=G) (LCf c)); simpl; [|auto].
  intros [Hk Hc]. split; [apply set_ctxbin_ok; exact Hk | exact Hc].
Qed.

Lemma nbr_fit_lp (s : nbr) g ds rs cx : n_lp (fst (nbr_fit N RG s g ds rs cx)) = fst (lp_binarize (n_lp s) ds rs).
Proof.
  unfold nbr_fit. destruct (lp_binarize (n_lp s) ds rs) as [l' rs']. destruct (n_kind s); simpl; auto.
  destruct (draw_planes RG g ntab (ncols cx) ndim) as [pl g1]. reflexivity.
Qed.
Lemma nbr_partial_fit_lp (s : nbr) ds rs cx : n_lp (nbr_partial_fit N s ds rs cx) = fst (lp_binarize (n_lp s) ds rs).
Proof.
  unfold nbr_partial_fit. destruct (lp_binarize (n_lp s) ds rs) as [l' rs']. destruct (n_kind s); simpl; auto.
Qed.

(* the library bandit that a replaced bandit stands for *)
Definition lib_of (s : nbr) (g : G) : mab := mkMab (INbr s) true g.

Lemma out_arms_shape (l : list (option A)) : out_arms (R:=R) (shape_arms l) = Some l.
Proof. destruct l as [|a [|b t]]; reflexivity. Qed.

Lemma lefts_preds (l : list (@srow R A)) : lefts (preds_of l) = map (fun x => fst (fst x)) l.
Proof. unfold lefts, preds_of. rewrite map_map. reflexivity. Qed.

(* one predict call: same predictions, same generator afterwards, library state untouched *)
Theorem sim_query_refines_api (s : nbr) g rae cx n lo hi op oe :
  lp_sim_ok (n_lp s) ->
  let '(b', r) := sim_query1 (SNbr s g rae) (Some cx) n lo hi op oe in
  let (m', o) := step N aeqb RG (lib_of s g) (Predict (Some cx) op) in
  option_map fst r = out_arms o /\ exists rae', b' = SNbr s (m_rng m') rae' /\ m' = lib_of s (m_rng m').
Proof.
  intros Hok. unfold sim_query1. cbn [sim_query octx].
  assert (Hcache : (if uses_cache s then sim_distances N s cx else []) = sim_distances N s cx \/ uses_cache s = false).
  { destruct (uses_cache s); auto. }
  assert (Hp : forall cache, (cache = sim_distances N s cx \/ uses_cache s = false) ->
               simnbr_predict N aeqb RG s (k_quick rae) (stat_rewards s rae) g cx cache (o_knn op) (o_sizes op)
               = simnbr_predict N aeqb RG s (k_quick rae) (stat_rewards s rae) g cx (sim_distances N s cx) (o_knn op) (o_sizes op)).
  { intros cache [-> | Hu]; [reflexivity|].
    (* LSH never reads the cache *)
    unfold uses_cache in Hu. destruct (n_kind s) as [r|k|nd nt] eqn:Ek; try discriminate.
    unfold simnbr_predict. destruct (draw_z RG g (RqRandint 2147483647 (length cx))) as [seeds g1]. f_equal.
    f_equal. clear -Ek.
    assert (Hrows : forall q rw rows seeds l c1 c2 orcs, simnbr_rows N aeqb RG s l q rw seeds rows c1 orcs = simnbr_rows N aeqb RG s l q rw seeds rows c2 orcs).
    { intros q rw. induction rows as [|row rows IH]; intros seeds0 l c1 c2 orcs; destruct seeds0 as [|sd sds]; try reflexivity.
      cbn [simnbr_rows].
      assert (E : simnbr_row N aeqb RG s l q rw sd row (hd [] c1) (hd [] orcs) = simnbr_row N aeqb RG s l q rw sd row (hd [] c2) (hd [] orcs)).
      { unfold simnbr_row, sim_neighborhood. rewrite Ek. reflexivity. }
      rewrite E. destruct (simnbr_row N aeqb RG s l q rw sd row (hd [] c2) (hd [] orcs)) as [[r0 l']|]; [|reflexivity].
      rewrite (IH sds l' (tl c1) (tl c2) (tl orcs)). reflexivity. }
    generalize (o_knn op) as orcs. generalize (sim_distances N s cx) as c2. revert seeds cx cache.
    induction (o_sizes op) as [|k sizes IH]; intros seeds cx c1 c2 orcs; [reflexivity|].
    cbn [chunks combine map]. rewrite (Hrows (k_quick rae) (stat_rewards s rae) (firstn k cx) (firstn k seeds) (n_lp s) (firstn k c1) (firstn k c2) (firstn k orcs)).
    f_equal. apply IH. }
  destruct (uses_cache s) eqn:Eu; cbn [dc_find app];
    [| rewrite (Hp [] (or_intror eq_refl))];
    (pose proof (sim_predict_refines_library s (k_quick rae) (stat_rewards s rae) g cx (o_knn op) (o_sizes op) Hok) as Hr;
     destruct (simnbr_predict N aeqb RG s (k_quick rae) (stat_rewards s rae) g cx (sim_distances N s cx) (o_knn op) (o_sizes op)) as [r g1];
     cbn [step lib_of m_fitted negb predict_args_ok m_imp imp_query octx m_rng];
     rewrite Hr; destruct r as [l|]; cbn [option_map];
     [ rewrite lefts_preds, out_arms_shape; split; [reflexivity|]; eexists; split; reflexivity
     | split; [reflexivity|]; eexists; split; reflexivity ]).
Qed.


(* a call never changes the class of the implementation object *)
Ltac pairs := repeat match goal with |- context [let (_, _) := ?x in _] => destruct x end.
Lemma imp_fit_ctx (i : @imp R A G) g ds rs cx orc : is_contextual (fst (fst (imp_fit N aeqb RG i g ds rs cx orc))) = is_contextual i.
Proof. destruct i; cbn [imp_fit]; pairs; reflexivity. Qed.
Lemma imp_partial_fit_ctx (i : @imp R A G) g ds rs cx orc : is_contextual (fst (fst (imp_partial_fit N aeqb i g ds rs cx orc))) = is_contextual i.
Proof. destruct i; cbn [imp_partial_fit]; pairs; reflexivity. Qed.
Lemma imp_query_ctx (i : @imp R A G) g cx orc p : is_contextual (snd (fst (imp_query N aeqb RG i g cx orc p))) = is_contextual i.
Proof.
  destruct i; cbn [imp_query]; try (pairs; reflexivity).
  destruct p; [destruct (cf_predict N aeqb RG s g (ctx_len cx)) as [[a b] c] | destruct (cf_predict_exp N aeqb RG s g (ctx_len cx)) as [[a b] c]]; reflexivity.
Qed.

Lemma step_keeps_contextual (m : mab) o : is_contextual (m_imp (fst (step N aeqb RG m o))) = is_contextual (m_imp m).
Proof.
  destruct o; cbn [step].
  - destruct (fit_args_ok N m ds rs cx); [|reflexivity]. destruct (negb _); [reflexivity|].
    pose proof (imp_fit_ctx (m_imp m) (m_rng m) ds rs cx orc) as H.
    destruct (imp_fit N aeqb RG (m_imp m) (m_rng m) ds rs cx orc) as [[i' g'] ok]. destruct ok; exact H.
  - destruct (fit_args_ok N m ds rs cx); [|reflexivity]. destruct (negb _); [reflexivity|].
    destruct (m_fitted m).
    + pose proof (imp_partial_fit_ctx (m_imp m) (m_rng m) ds rs cx orc) as H.
      destruct (imp_partial_fit N aeqb (m_imp m) (m_rng m) ds rs cx orc) as [[i' g'] ok]. exact H.
    + pose proof (imp_fit_ctx (m_imp m) (m_rng m) ds rs cx orc) as H.
      destruct (imp_fit N aeqb RG (m_imp m) (m_rng m) ds rs cx orc) as [[i' g'] ok]. destruct ok; exact H.
  - destruct (match bz with Some _ => _ | None => _ end); [reflexivity|]. destruct (amem aeqb a (m_arms m)); [reflexivity|].
    cbn [fst m_imp]. destruct (m_imp m); reflexivity.
  - destruct (amem aeqb a (m_arms m)); [|reflexivity]. cbn [fst m_imp]. destruct (m_imp m); reflexivity.
  - destruct (negb _); [reflexivity|]. destruct (negb _); [reflexivity|].
    destruct (m_imp m) eqn:Ei; try (cbn [fst]; rewrite Ei; reflexivity).
    + destruct (cf_warm_start N aeqb s keys raw q); cbn [fst m_imp]; [reflexivity | rewrite Ei; reflexivity].
    + destruct (lin_warm_start N aeqb s (m_rng m) keys raw q); cbn [fst m_imp]; [reflexivity | rewrite Ei; reflexivity].
  - destruct (negb (m_fitted m)); [reflexivity|]. destruct (negb _); [reflexivity|].
    pose proof (imp_query_ctx (m_imp m) (m_rng m) cx orc true) as H.
    destruct (imp_query N aeqb RG (m_imp m) (m_rng m) cx orc true) as [[r i'] g']. destruct r; exact H.
  - destruct (negb (m_fitted m)); [reflexivity|]. destruct (negb _); [reflexivity|].
    pose proof (imp_query_ctx (m_imp m) (m_rng m) cx orc false) as H.
    destruct (imp_query N aeqb RG (m_imp m) (m_rng m) cx orc false) as [[r i'] g']. destruct r; exact H.
Qed.

(* ---- training and online updates: the replaced bandit holds the library bandit's state ------------------- *)
(* the bandit handed to the Simulator is a freshly constructed one (no stored history, no hash tables) *)
Definition fresh_nbr (s : nbr) : Prop :=
  s = nbr_init (n_kind s) (n_metric s) (n_nnprob s) (n_kf_newarm0 s) (n_arms s) (n_lp s).

Theorem sim_train_refines_api quick (m : mab) (s : nbr) ds rs cx orc :
  m_imp m = INbr s -> fresh_nbr s -> fit_args_ok N m ds rs cx = true ->
  let (b, ok) := sim_train N aeqb RG quick m ds rs cx orc in
  let (m1, o) := step N aeqb RG m (Fit ds rs cx orc) in
  ok = true /\ o = ODone /\
  exists s1 g1, b = SNbr s1 g1 (mkNbk [] rs quick) /\ m1 = lib_of s1 g1 /\ n_lp s1 = fst (lp_binarize (n_lp s) ds rs).
Proof.
  intros Ei Hf Ha. unfold sim_train. rewrite Ei. rewrite <- Hf.
  cbn [step]. rewrite Ha. rewrite Ei. cbn [train_shape_ok negb imp_fit].
  pose proof (nbr_fit_lp s (m_rng m) ds rs (octx cx)) as Hl.
  destruct (nbr_fit N RG s (m_rng m) ds rs (octx cx)) as [s1 g1]. cbn [fst] in Hl.
  split; [reflexivity|]. split; [reflexivity|]. exists s1, g1. split; [reflexivity|]. split; [reflexivity | exact Hl].
Qed.

Theorem sim_update_refines_api (s : nbr) g rae ds rs cx orc :
  fit_args_ok N (lib_of s g) ds rs (Some cx) = true -> width_ok (n_cx s) cx = true ->
  let (b, ok) := sim_update N aeqb RG (SNbr s g rae) ds rs (Some cx) orc in
  let (m1, o) := step N aeqb RG (lib_of s g) (PartialFit ds rs (Some cx) orc) in
  ok = true /\ o = ODone /\ (exists rae', b = SNbr (nbr_partial_fit N s ds rs cx) g rae') /\ m1 = lib_of (nbr_partial_fit N s ds rs cx) g.
Proof.
  intros Ha Hw. cbn [sim_update octx]. cbn [step]. rewrite Ha.
  cbn [lib_of m_imp m_fitted train_shape_ok octx m_rng]. rewrite Hw. cbn [negb imp_partial_fit octx].
  split; [reflexivity|]. split; [reflexivity|]. split; [eexists; reflexivity | reflexivity].
Qed.

(* ---- (3) the offline driver: a replaced neighbourhood bandit reports the public API's predictions ---------- *)
Theorem offline_neighbourhood_predictions_are_the_public_api's quick (m : mab) (s : nbr) (train test : @batch R A) tcx qcx orcT op oe :
  m_imp m = INbr s -> fresh_nbr s -> lp_sim_ok (n_lp s) ->
  b_cx train = Some tcx -> b_cx test = Some qcx ->
  fit_args_ok N m (b_ds train) (b_rs train) (b_cx train) = true ->
  let (b, _) := sim_train N aeqb RG quick m (b_ds train) (b_rs train) (b_cx train) orcT in
  let '(_, r) := sim_query1 b (b_cx test) (length (b_ds test)) O (length (b_ds test)) op oe in
  let (m1, _) := step N aeqb RG m (Fit (b_ds train) (b_rs train) (b_cx train) orcT) in
  let (_, o) := step N aeqb RG m1 (Predict (b_cx test) op) in
  option_map fst r = out_arms o.
Proof.
  intros Ei Hf Hok Et Eq Ha.
  pose proof (sim_train_refines_api quick m s (b_ds train) (b_rs train) (b_cx train) orcT Ei Hf Ha) as Ht.
  destruct (sim_train N aeqb RG quick m (b_ds train) (b_rs train) (b_cx train) orcT) as [b ok].
  destruct (step N aeqb RG m (Fit (b_ds train) (b_rs train) (b_cx train) orcT)) as [m1 o1].
  destruct Ht as (_ & _ & s1 & g1 & -> & -> & Hl). rewrite Eq.
  assert (Hok1 : lp_sim_ok (n_lp s1)) by (rewrite Hl; apply lp_binarize_sim_ok; exact Hok).
  pose proof (sim_query_refines_api s1 g1 (mkNbk [] (b_rs train) quick) qcx (length (b_ds test)) O (length (b_ds test)) op oe Hok1) as Hq.
  destruct (sim_query1 (SNbr s1 g1 (mkNbk [] (b_rs train) quick)) (Some qcx) (length (b_ds test)) 0 (length (b_ds test)) op oe) as [b' r].
  destruct (step N aeqb RG (lib_of s1 g1) (Predict (Some qcx) op)) as [m2 o2]. exact (proj1 Hq).
Qed.

(* ---- the online driver --------------------------------------------------------------------------------- *)
(* one bandit through the online driver (the chunk's distance dictionary is irrelevant: shared_cache_sound) *)
Fixpoint sim_online1 (b : sbandit) (rep : @report R A) (lo : nat) (batches : list (@batch R A)) (orcs : list (@borc R A))
  : sbandit * @report R A :=
  match batches with
  | [] => (b, rep)
  | bt :: rest =>
      let n := length (b_ds bt) in
      let o := hd (borc0 (R:=R) (A:=A)) orcs in
      let (b1, r) := sim_query1 b (b_cx bt) n lo (lo + n) (fst (fst o)) (snd (fst o)) in
      let (b2, ok) := sim_update N aeqb RG b1 (b_ds bt) (b_rs bt) (b_cx bt) (snd o) in
      sim_online1 b2 (if ok then report_app rep r else None) (lo + n) rest (tl orcs)
  end.

(* the public protocol for a contextual bandit: predict, read the expectations, partial_fit *)
Fixpoint api_online (m : mab) (batches : list (@batch R A)) (orcs : list (@borc R A)) : mab * option (list (option A) * list exps) :=
  match batches with
  | [] => (m, Some ([], []))
  | bt :: rest =>
      let o := hd (borc0 (R:=R) (A:=A)) orcs in
      let (m1, o1) := step N aeqb RG m (Predict (b_cx bt) (fst (fst o))) in
      let (m2, o2) := step N aeqb RG m1 (PredictExp (b_cx bt) (snd (fst o))) in
      let (m3, o3) := step N aeqb RG m2 (PartialFit (b_ds bt) (b_rs bt) (b_cx bt) (snd o)) in
      match out_arms o1, out_exps o2, o3 with
      | Some p, Some e, ODone =>
          let (m4, r) := api_online m3 rest (tl orcs) in
          (m4, match r with Some (p', e') => Some (p ++ p', e ++ e') | None => None end)
      | _, _, _ => (m3, None)
      end
  end.

(* the same without reading the expectations in between *)
Fixpoint api_online_predict_only (m : mab) (batches : list (@batch R A)) (orcs : list (@borc R A)) : mab * option (list (option A)) :=
  match batches with
  | [] => (m, Some [])
  | bt :: rest =>
      let o := hd (borc0 (R:=R) (A:=A)) orcs in
      let (m1, o1) := step N aeqb RG m (Predict (b_cx bt) (fst (fst o))) in
      let (m3, o3) := step N aeqb RG m1 (PartialFit (b_ds bt) (b_rs bt) (b_cx bt) (snd o)) in
      match out_arms o1, o3 with
      | Some p, ODone => let (m4, r) := api_online_predict_only m3 rest (tl orcs) in (m4, option_map (app p) r)
      | _, _ => (m3, None)
      end
  end.

Definition rep_preds (r : @report R A) : option (list (option A)) := option_map fst r.

(* a contextual bandit that the simulator keeps is driven exactly through the public protocol *)
Theorem online_kept_contextual_bandit_is_the_public_protocol (batches : list (@batch R A)) :
  forall (m : mab) p0 e0 lo orcs, is_contextual (m_imp m) = true ->
  let (b, rep) := sim_online1 (SMab m) (Some (p0, e0)) lo batches orcs in
  let (m', r) := api_online m batches orcs in
  match r with Some (p, e) => rep = Some (p0 ++ p, e0 ++ e) | None => rep = None end.
Proof.
  induction batches as [|bt rest IH]; intros m p0 e0 lo orcs Hc.
  - cbn [sim_online1 api_online]. rewrite !app_nil_r. reflexivity.
  - cbn [sim_online1 api_online]. unfold sim_query1. cbn [sim_query]. rewrite Hc.
    pose proof (step_keeps_contextual m (Predict (b_cx bt) (fst (fst (hd borc0 orcs))))) as X1.
    destruct (step N aeqb RG m (Predict (b_cx bt) (fst (fst (hd borc0 orcs))))) as [m1 o1]. cbn [fst] in X1.
    pose proof (step_keeps_contextual m1 (PredictExp (b_cx bt) (snd (fst (hd borc0 orcs))))) as X2.
    destruct (step N aeqb RG m1 (PredictExp (b_cx bt) (snd (fst (hd borc0 orcs))))) as [m2 o2]. cbn [fst] in X2.
    cbn [sim_update]. assert (Hc2 : is_contextual (m_imp m2) = true) by congruence. rewrite Hc2.
    pose proof (step_keeps_contextual m2 (PartialFit (b_ds bt) (b_rs bt) (b_cx bt) (snd (hd borc0 orcs)))) as X3.
    destruct (step N aeqb RG m2 (PartialFit (b_ds bt) (b_rs bt) (b_cx bt) (snd (hd borc0 orcs)))) as [m3 o3]. cbn [fst] in X3.
    assert (Hc3 : is_contextual (m_imp m3) = true) by congruence.
    assert (Hnone : forall b lo' orcs', snd (sim_online1 b None lo' rest orcs') = None).
    { clear. induction rest as [|bt' rest' IHr]; intros b lo' orcs'; [reflexivity|]. cbn [sim_online1].
      destruct (sim_query1 b (b_cx bt') (length (b_ds bt')) lo' (lo' + length (b_ds bt')) (fst (fst (hd borc0 orcs'))) (snd (fst (hd borc0 orcs')))) as [b1 r].
      destruct (sim_update N aeqb RG b1 (b_ds bt') (b_rs bt') (b_cx bt') (snd (hd borc0 orcs'))) as [b2 ok].
      replace (if ok then report_app None r else None) with (@None (list (option A) * list exps)) by (destruct ok; reflexivity).
      apply IHr. }
    destruct (out_arms o1) as [p|].
    2:{ destruct o3; cbn [report_app];
          match goal with |- context [sim_online1 ?b None ?l ?r ?o] => pose proof (Hnone b l o) as X; destruct (sim_online1 b None l r o); exact X end. }
    destruct (out_exps o2) as [e|].
    2:{ destruct o3; cbn [report_app];
          match goal with |- context [sim_online1 ?b None ?l ?r ?o] => pose proof (Hnone b l o) as X; destruct (sim_online1 b None l r o); exact X end. }
    cbn [report_app].
    destruct o3;
      try (match goal with |- context [sim_online1 ?b None ?l ?r ?o] => pose proof (Hnone b l o) as X; destruct (sim_online1 b None l r o); exact X end).
    specialize (IH m3 (p0 ++ p) (e0 ++ e) (lo + length (b_ds bt)) (tl orcs) Hc3).
    destruct (sim_online1 (SMab m3) (Some (p0 ++ p, e0 ++ e)) (lo + length (b_ds bt)) rest (tl orcs)) as [b rep].
    destruct (api_online m3 rest (tl orcs)) as [m4 r].
    destruct r as [[p' e']|]; [|exact IH]. rewrite IH, !app_assoc. reflexivity.
Qed.


(* a replaced neighbourhood bandit reports, batch after batch, the predictions of the library bandit driven by
   predict / partial_fit from the same generator *)
Theorem online_neighbourhood_bandit_is_the_predict_update_protocol (batches : list (@batch R A)) :
  forall (s : nbr) g rae p0 e0 lo orcs, lp_sim_ok (n_lp s) ->
  let (b, rep) := sim_online1 (SNbr s g rae) (Some (p0, e0)) lo batches orcs in
  let (m', r) := api_online_predict_only (lib_of s g) batches orcs in
  match r with Some p => rep_preds rep = Some (p0 ++ p) | None => True end.
Proof.
  induction batches as [|bt rest IH]; intros s g rae p0 e0 lo orcs Hok.
  - cbn [sim_online1 api_online_predict_only rep_preds option_map fst]. rewrite app_nil_r. reflexivity.
  - cbn [sim_online1 api_online_predict_only].
    destruct (b_cx bt) as [cx|] eqn:Ecx.
    2:{ (* the public API rejects a query without contexts *)
        destruct (sim_query1 (SNbr s g rae) None (length (b_ds bt)) lo (lo + length (b_ds bt)) (fst (fst (hd borc0 orcs))) (snd (fst (hd borc0 orcs)))) as [b1 r1].
        destruct (sim_update N aeqb RG b1 (b_ds bt) (b_rs bt) None (snd (hd borc0 orcs))) as [b2 ok].
        destruct (sim_online1 b2 (if ok then report_app (Some (p0, e0)) r1 else None) (lo + length (b_ds bt)) rest (tl orcs)) as [b rep].
        cbn [step lib_of m_fitted negb predict_args_ok m_imp is_contextual].
        destruct (step N aeqb RG (mkMab (INbr s) true g) (PartialFit (b_ds bt) (b_rs bt) None (snd (hd borc0 orcs)))) as [m3 o3]. exact I. }
    pose proof (sim_query_refines_api s g rae cx (length (b_ds bt)) lo (lo + length (b_ds bt)) (fst (fst (hd borc0 orcs))) (snd (fst (hd borc0 orcs))) Hok) as Hq.
    destruct (sim_query1 (SNbr s g rae) (Some cx) (length (b_ds bt)) lo (lo + length (b_ds bt)) (fst (fst (hd borc0 orcs))) (snd (fst (hd borc0 orcs)))) as [b1 r1].
    destruct (step N aeqb RG (lib_of s g) (Predict (Some cx) (fst (fst (hd borc0 orcs))))) as [m1 o1].
    destruct Hq as (Hp & rae' & -> & Hm1). rewrite Hm1. set (g1 := m_rng m1).
    cbn [sim_update octx].
    cbn [step]. destruct (fit_args_ok N (lib_of s g1) (b_ds bt) (b_rs bt) (Some cx)) eqn:Ha.
    2:{ destruct (sim_online1 _ _ _ rest (tl orcs)) as [b rep]. destruct (out_arms o1); exact I. }
    cbn [lib_of m_imp m_fitted train_shape_ok octx m_rng].
    destruct (width_ok (n_cx s) cx) eqn:Hw; cbn [negb].
    2:{ destruct (sim_online1 _ _ _ rest (tl orcs)) as [b rep]. destruct (out_arms o1); exact I. }
    cbn [imp_partial_fit octx].
    destruct (out_arms o1) as [p|] eqn:Eo.
    2:{ destruct (sim_online1 _ _ _ rest (tl orcs)) as [b rep]. exact I. }
    destruct r1 as [[p1 e1]|]; cbn [option_map fst] in Hp; [|discriminate]. injection Hp as ->.
    cbn [report_app].
    assert (Hok' : lp_sim_ok (n_lp (nbr_partial_fit N s (b_ds bt) (b_rs bt) cx))).
    { rewrite nbr_partial_fit_lp. apply lp_binarize_sim_ok. exact Hok. }
    set (bk' := mkNbk (k_rows rae') (k_raw rae' ++ b_rs bt) (k_quick rae')).
    specialize (IH (nbr_partial_fit N s (b_ds bt) (b_rs bt) cx) g1 bk' (p0 ++ p) (e0 ++ e1) (lo + length (b_ds bt)) (tl orcs) Hok').
    unfold lib_of in *.
    destruct (sim_online1 (SNbr (nbr_partial_fit N s (b_ds bt) (b_rs bt) cx) g1 bk') (Some (p0 ++ p, e0 ++ e1)) (lo + length (b_ds bt)) rest (tl orcs)) as [b rep].
    destruct (api_online_predict_only (mkMab (INbr (nbr_partial_fit N s (b_ds bt) (b_rs bt) cx)) true g1) rest (tl orcs)) as [m4 r].
    destruct r as [p'|]; cbn [option_map]; [|exact I]. rewrite IH, app_assoc. reflexivity.
Qed.


(* ---- the whole online run decomposes into independent per-bandit runs ------------------------------------ *)
Definition step1 (br : sbandit * @report R A) (lo : nat) (bt : @batch R A) (o : @borc R A) : sbandit * @report R A :=
  let n := length (b_ds bt) in
  let (b1, r) := sim_query1 (fst br) (b_cx bt) n lo (lo + n) (fst (fst o)) (snd (fst o)) in
  let (b2, ok) := sim_update N aeqb RG b1 (b_ds bt) (b_rs bt) (b_cx bt) (snd o) in
  (b2, if ok then report_app (snd br) r else None).

Fixpoint step_each (bs : list (sbandit * @report R A)) lo bt (o : list (@borc R A)) :=
  match bs with
  | [] => []
  | br :: t => step1 br lo bt (hd (borc0 (R:=R) (A:=A)) o) :: step_each t lo bt (tl o)
  end.

Fixpoint per_bandit (bs : list (sbandit * @report R A)) lo batches (orcs : list (list (@borc R A))) :=
  match bs with
  | [] => []
  | br :: t => sim_online1 (fst br) (snd br) lo batches (map (hd (borc0 (R:=R) (A:=A))) orcs)
               :: per_bandit t lo batches (map (@tl _) orcs)
  end.

Lemma batch_step_each (bs : list (sbandit * @report R A)) lo bt o :
  sim_update_all N aeqb RG
    (report_all bs (sim_query_each (map fst bs) (b_cx bt) (length (b_ds bt)) lo (lo + length (b_ds bt)) o)) bt o
  = step_each bs lo bt o.
Proof.
  revert o. induction bs as [|[b r] t IH]; intros o; [reflexivity|].
  cbn [map fst sim_query_each report_all step_each snd]. unfold step1. cbn [fst snd].
  destruct (sim_query1 b (b_cx bt) (length (b_ds bt)) lo (lo + length (b_ds bt)) (fst (fst (hd borc0 o))) (snd (fst (hd borc0 o)))) as [b1 r1].
  cbn [sim_update_all snd].
  destruct (sim_update N aeqb RG b1 (b_ds bt) (b_rs bt) (b_cx bt) (snd (hd borc0 o))) as [b2 ok].
  f_equal. apply IH.
Qed.

Lemma per_bandit_nil (bs : list (sbandit * @report R A)) lo orcs : per_bandit bs lo [] orcs = bs.
Proof. revert orcs. induction bs as [|[b r] t IH]; intros orcs; [reflexivity|]. cbn [per_bandit sim_online1 fst snd]. f_equal. apply IH. Qed.

Lemma per_bandit_cons (bs : list (sbandit * @report R A)) lo bt rest orcs :
  per_bandit bs lo (bt :: rest) orcs = per_bandit (step_each bs lo bt (hd [] orcs)) (lo + length (b_ds bt)) rest (tl orcs).
Proof.
  revert orcs. induction bs as [|[b r] t IH]; intros orcs; [reflexivity|].
  cbn [per_bandit step_each]. f_equal.
  - cbn [sim_online1 fst snd]. unfold step1. cbn [fst snd].
    assert (E1 : hd borc0 (map (hd borc0) orcs) = hd (borc0 (R:=R) (A:=A)) (hd [] orcs)) by (destruct orcs; reflexivity).
    assert (E2 : tl (map (hd (borc0 (R:=R) (A:=A))) orcs) = map (hd borc0) (tl orcs)) by (destruct orcs; reflexivity).
    rewrite E1, E2.
    destruct (sim_query1 b (b_cx bt) (length (b_ds bt)) lo (lo + length (b_ds bt)) (fst (fst (hd borc0 (hd [] orcs)))) (snd (fst (hd borc0 (hd [] orcs))))) as [b1 r1].
    destruct (sim_update N aeqb RG b1 (b_ds bt) (b_rs bt) (b_cx bt) (snd (hd borc0 (hd [] orcs)))) as [b2 ok]. reflexivity.
  - rewrite IH.
    assert (E1 : hd [] (map (@tl (@borc R A)) orcs) = tl (hd [] orcs)) by (destruct orcs; reflexivity).
    assert (E2 : tl (map (@tl (@borc R A)) orcs) = map (@tl _) (tl orcs)) by (destruct orcs; reflexivity).
    rewrite E1, E2. reflexivity.
Qed.

Lemma step_each_history H (bs : list (sbandit * @report R A)) lo bt o :
  Forall (shares_history H) (map fst bs) ->
  Forall (shares_history (H ++ octx (b_cx bt))) (map fst (step_each bs lo bt o)).
Proof.
  revert o. induction bs as [|[b r] t IH]; intros o Hall; [constructor|].
  inversion Hall as [|? ? Hb Ht]; subst. cbn [step_each map]. constructor; [|apply IH; exact Ht].
  unfold step1. cbn [fst snd].
  pose proof (sim_query1_history H b (b_cx bt) (length (b_ds bt)) lo (lo + length (b_ds bt)) (fst (fst (hd borc0 o))) (snd (fst (hd borc0 o))) Hb) as H1.
  destruct (sim_query1 b (b_cx bt) (length (b_ds bt)) lo (lo + length (b_ds bt)) (fst (fst (hd borc0 o))) (snd (fst (hd borc0 o)))) as [b1 r1]. cbn [fst] in H1.
  pose proof (sim_update_history H b1 (b_ds bt) (b_rs bt) (b_cx bt) (snd (hd borc0 o)) H1) as H2.
  destruct (sim_update N aeqb RG b1 (b_ds bt) (b_rs bt) (b_cx bt) (snd (hd borc0 o))) as [b2 ok]. exact H2.
Qed.

(* C15: with several bandits in one simulation (also neighbourhood bandits with different metrics sharing the
   distance dictionary), every bandit's record is the one it would get if it were simulated alone *)
Theorem online_bandits_do_not_influence_each_other (batches : list (@batch R A)) :
  forall (bs : list (sbandit * @report R A)) lo orcs H,
  Forall (shares_history H) (map fst bs) ->
  sim_online N aeqb RG bs lo batches orcs = per_bandit bs lo batches orcs.
Proof.
  induction batches as [|bt rest IH]; intros bs lo orcs H Hall.
  - cbn [sim_online]. rewrite per_bandit_nil. reflexivity.
  - cbn [sim_online]. rewrite per_bandit_cons.
    rewrite (shared_cache_sound H (map fst bs) [] (b_cx bt) (length (b_ds bt)) lo (lo + length (b_ds bt)) (hd [] orcs) Hall (dc_valid_nil H (octx (b_cx bt)))).
    rewrite batch_step_each.
    apply (IH _ _ _ (H ++ octx (b_cx bt))). apply step_each_history. exact Hall.
Qed.

Theorem offline_bandits_do_not_influence_each_other (bs : list (sbandit * @report R A)) (test : @batch R A) orcs H :
  Forall (shares_history H) (map fst bs) ->
  sim_offline N aeqb RG bs test orcs
  = report_all bs (sim_query_each (map fst bs) (b_cx test) (length (b_ds test)) O (length (b_ds test)) orcs).
Proof.
  intros Hall. unfold sim_offline.
  rewrite (shared_cache_sound H (map fst bs) [] (b_cx test) (length (b_ds test)) O (length (b_ds test)) orcs Hall (dc_valid_nil H (octx (b_cx test)))).
  reflexivity.
Qed.

(* after _train_bandits every replaced bandit stores the training contexts *)
Theorem trained_bandits_share_the_history quick (ms : list mab) (train : @batch R A) (cx : @ctxs R) orcs :
  b_cx train = Some cx ->
  Forall (shares_history cx) (map fst (sim_train_all N aeqb RG quick ms train orcs)).
Proof.
  intros Ecx. unfold sim_train_all. generalize (orcs ++ repeat orc0 (length ms)) as os.
  induction ms as [|m t IH]; intros os; [constructor|].
  destruct os as [|o os]; [constructor|]. cbn [combine map fst snd]. constructor; [|apply IH].
  unfold sim_train.
  destruct (m_imp m) as [c|l|s|k|tr] eqn:Ei;
    try (match goal with |- context [step ?a ?b ?c ?d ?e] => destruct (step a b c d e) as [m1 o1] end; exact I).
  cbn [is_contextual]. rewrite Ecx. cbn [octx].
  set (s0 := nbr_init _ _ _ _ _ _).
  pose proof (history_after_fit N RG s0 (m_rng m) (b_ds train) (b_rs train) cx) as (_ & Hc & _).
  destruct (nbr_fit N RG s0 (m_rng m) (b_ds train) (b_rs train) cx) as [s1 g1]. cbn [fst shares_history] in *. intros _. exact Hc.
Qed.


(* ---- the chunked drivers coincide with the plain ones when a batch fits into one chunk (every ordinary simulation) -- *)
Lemma chunk_bounds_single c n : (1 <= n)%nat -> (n <= c)%nat -> chunk_bounds (S n) c O n = [(O, n)].
Proof.
  intros H1 H2. cbn [chunk_bounds]. destruct (Nat.leb_spec n 0); [lia|].
  replace (Nat.min (0 + Nat.max c 1) n) with n by lia.
  destruct n as [|k]; [lia|]. cbn [chunk_bounds]. rewrite Nat.leb_refl. reflexivity.
Qed.

Lemma slice_all {T} (l : list T) : slice O (length l) l = l.
Proof. unfold slice. rewrite Nat.sub_0_r. cbn [skipn]. apply firstn_all. Qed.

Lemma cf_predict_n_ctx (m : mab) n orc : is_contextual (m_imp (fst (cf_predict_n N aeqb RG m n orc))) = is_contextual (m_imp m).
Proof.
  revert m. induction n as [|k IH]; intros m; [reflexivity|]. cbn [cf_predict_n].
  pose proof (step_keeps_contextual m (Predict None orc)) as X.
  destruct (step N aeqb RG m (Predict None orc)) as [m1 o]. cbn [fst] in X.
  destruct (out_arms o) as [[|a [|b t]]|]; try exact X.
  pose proof (IH m1) as Y. destruct (cf_predict_n N aeqb RG m1 k orc) as [m2 r]. cbn [fst] in *. congruence.
Qed.

Lemma cf_fix_query (old : sbandit * @report R A) dc cx n lo hi op oe :
  let '(b', dc', r) := sim_query N aeqb RG (fst old) dc cx n lo hi op oe in
  cf_fix old (b', report_app (snd old) r) = (b', report_app (snd old) r).
Proof.
  destruct old as [b rep]. cbn [fst snd]. destruct b as [m|s g bk]; cbn [sim_query].
  - destruct (is_contextual (m_imp m)) eqn:Ec.
    + pose proof (step_keeps_contextual m (Predict cx op)) as X1.
      destruct (step N aeqb RG m (Predict cx op)) as [m1 o1]. cbn [fst] in X1.
      pose proof (step_keeps_contextual m1 (PredictExp cx oe)) as X2.
      destruct (step N aeqb RG m1 (PredictExp cx oe)) as [m2 o2]. cbn [fst] in X2.
      unfold cf_fix. cbn [fst snd]. replace (is_contextual (m_imp m2)) with true by congruence. reflexivity.
    + pose proof (cf_predict_n_ctx m n op) as X.
      destruct (cf_predict_n N aeqb RG m n op) as [m1 r]. cbn [fst] in X.
      unfold cf_fix. cbn [fst snd]. replace (is_contextual (m_imp m1)) with false by congruence.
      destruct rep as [[p0 e0]|]; [|reflexivity]. destruct r as [p|]; reflexivity.
  - destruct (if uses_cache s then _ else _) as [cache dc'].
    destruct (simnbr_predict N aeqb RG s (k_quick bk) (stat_rewards s bk) g (octx cx) cache (o_knn op) (o_sizes op)) as [[l|] g1]; reflexivity.
Qed.

Lemma cf_fix_all_query (bs : list (sbandit * @report R A)) : forall dc cx n lo hi orcs,
  cf_fix_all bs (report_all bs (sim_query_all N aeqb RG (map fst bs) dc cx n lo hi orcs))
  = report_all bs (sim_query_all N aeqb RG (map fst bs) dc cx n lo hi orcs).
Proof.
  induction bs as [|old t IH]; intros dc cx n lo hi orcs; [reflexivity|].
  cbn [map sim_query_all].
  pose proof (cf_fix_query old dc cx n lo hi (fst (fst (hd borc0 orcs))) (snd (fst (hd borc0 orcs)))) as X.
  destruct (sim_query N aeqb RG (fst old) dc cx n lo hi (fst (fst (hd borc0 orcs))) (snd (fst (hd borc0 orcs)))) as [[b' dc'] r].
  cbn [report_all cf_fix_all]. rewrite X, IH. reflexivity.
Qed.

(* one chunk: the chunked batch step IS the plain batch step *)
Theorem chunked_batch_single_chunk c (bs : list (sbandit * @report R A)) cx lo n o :
  (1 <= n)%nat -> (n <= c)%nat -> cx_slice O n cx = cx ->
  sim_batch_chunked N aeqb RG c bs cx lo n [o]
  = report_all bs (sim_query_all N aeqb RG (map fst bs) [] cx n lo (lo + n) o).
Proof.
  intros H1 H2 Hcx. unfold sim_batch_chunked. rewrite (chunk_bounds_single c n H1 H2).
  cbn [sim_chunk_loop hd tl]. rewrite Hcx, Nat.sub_0_r, Nat.add_0_r. apply cf_fix_all_query.
Qed.

Theorem offline_chunked_single_chunk c (bs : list (sbandit * @report R A)) (test : @batch R A) o :
  (1 <= length (b_ds test))%nat -> (length (b_ds test) <= c)%nat -> cx_slice O (length (b_ds test)) (b_cx test) = b_cx test ->
  sim_offline_chunked N aeqb RG c bs test [o] = sim_offline N aeqb RG bs test o.
Proof.
  intros H1 H2 Hcx. unfold sim_offline_chunked, sim_offline.
  rewrite (chunked_batch_single_chunk c bs (b_cx test) O (length (b_ds test)) o H1 H2 Hcx). reflexivity.
Qed.

(* the online driver: every batch fits into one chunk *)
Theorem online_chunked_single_chunks c (batches : list (@batch R A)) : forall (bs : list (sbandit * @report R A)) lo orcs,
  Forall (fun bt => (1 <= length (b_ds bt) <= c)%nat /\ cx_slice O (length (b_ds bt)) (b_cx bt) = b_cx bt) batches ->
  length orcs = length batches ->
  sim_online_chunked N aeqb RG c bs lo batches (map (fun o => [o]) orcs) = sim_online N aeqb RG bs lo batches orcs.
Proof.
  induction batches as [|bt rest IH]; intros bs lo orcs Hall Hlen; [reflexivity|].
  inversion Hall as [|? ? [[H1 H2] Hcx] Hrest]; subst.
  destruct orcs as [|o orcs]; [discriminate|]. cbn [map sim_online_chunked sim_online hd tl].
  rewrite (chunked_batch_single_chunk c bs (b_cx bt) lo (length (b_ds bt)) o H1 H2 Hcx).
  apply IH; [exact Hrest | simpl in Hlen; lia].
Qed.


(* in a chunked run, too, the distance dictionary (a new one per chunk) never couples the bandits *)
Fixpoint sim_chunk_loop_each (bs : list (sbandit * @report R A)) cx (lo : nat) (bounds : list (nat * nat)) (orcs : list (list (@borc R A))) :=
  match bounds with
  | [] => bs
  | (a, b) :: t =>
      sim_chunk_loop_each (report_all bs (sim_query_each (map fst bs) (cx_slice a b cx) (b - a) (lo + a) (lo + b) (hd [] orcs))) cx lo t (tl orcs)
  end.

Lemma sim_query_each_history H (bs : list sbandit) cx n lo hi orcs :
  Forall (shares_history H) bs -> Forall (shares_history H) (map fst (sim_query_each bs cx n lo hi orcs)).
Proof.
  revert orcs. induction bs as [|b t IH]; intros orcs Hall; [constructor|].
  inversion Hall as [|? ? Hb Ht]; subst. cbn [sim_query_each map]. constructor; [apply sim_query1_history; exact Hb | apply IH; exact Ht].
Qed.

Lemma report_all_fst (bs : list (sbandit * @report R A)) (q : list (sbandit * option (list (option A) * list exps))) :
  length q = length bs -> map fst (report_all bs q) = map fst q.
Proof.
  revert q. induction bs as [|br t IH]; intros [|[b' r] q] Hl; simpl in *; try discriminate; [reflexivity|].
  f_equal. apply IH. lia.
Qed.

Lemma sim_query_each_length (bs : list sbandit) cx n lo hi orcs : length (sim_query_each bs cx n lo hi orcs) = length bs.
Proof. revert orcs. induction bs as [|b t IH]; intros orcs; [reflexivity|]. cbn [sim_query_each length]. rewrite IH. reflexivity. Qed.

Theorem chunked_bandits_do_not_influence_each_other (bounds : list (nat * nat)) :
  forall (bs : list (sbandit * @report R A)) cx lo orcs H,
  Forall (shares_history H) (map fst bs) ->
  sim_chunk_loop N aeqb RG bs cx lo bounds orcs = sim_chunk_loop_each bs cx lo bounds orcs.
Proof.
  induction bounds as [|[a b] t IH]; intros bs cx lo orcs H Hall; [reflexivity|].
  cbn [sim_chunk_loop sim_chunk_loop_each].
  rewrite (shared_cache_sound H (map fst bs) [] (cx_slice a b cx) (b - a) (lo + a) (lo + b) (hd [] orcs) Hall (dc_valid_nil H _)).
  apply (IH _ _ _ _ H).
  rewrite report_all_fst by (rewrite sim_query_each_length, map_length; reflexivity).
  apply sim_query_each_history. exact Hall.
Qed.

End Drivers.
