import sys, random, time
sys.path.insert(0, "/verif/harness")
import mwh, gen
n = int(sys.argv[1]) if len(sys.argv) > 1 else 50
seed = int(sys.argv[2]) if len(sys.argv) > 2 else 1
nps = sys.argv[3].split(",") if len(sys.argv) > 3 else None
lps = sys.argv[4].split(",") if len(sys.argv) > 4 else None
rng = random.Random(seed)
cases, texts, traces = [], [], []
t0 = time.time()
for i in range(n):
    c = gen.gen_ctx_case(rng, lps=lps, nps=nps, warm=True)
    tr, tape, mab = mwh.run_impl(c)
    cases.append(c); traces.append(tr)
    texts.append(("c%d" % i, mwh.case_text("c%d" % i, c, tape, c.get("_orcs"))))
t1 = time.time()
res = mwh.run_model(texts, "/verif/build/work_try")
t2 = time.time()
bad = 0
rej = 0
for i, c in enumerate(cases):
    rej += sum(1 for o, _ in traces[i] if o[0] == "rejected")
    d = mwh.compare_case(c, traces[i], res.get("c%d" % i))
    if d:
        bad += 1
        if bad <= 6:
            print("CASE", i, c["lp"], c["np"], c["label"], c["reward_style"], [o[0] for o in c["ops"]])
            for x in d[:4]: print("   ", x[:600])
            for (o, _), op in zip(traces[i], c["ops"]):
                if o[0] == "rejected": print("    impl rejected:", op[0], o[1:])
print("cases", n, "disagree", bad, "rejected-ops", rej, "impl %.1fs model %.1fs" % (t1 - t0, t2 - t1), res.get("__driver__"))
