(* FacadeLin.v — C08 for bandits with a linear learning policy (LinGreedy, LinUCB, LinTS) and no neighbourhood
   policy: the dictionary invariant holds in every state any history of facade calls can reach, and every
   predict / predict_expectations answer is well formed (one answer per context row, keys = the current arms,
   predictions are arms). *)
From Coq Require Import ZArith List Bool Lia.
From MW Require Import Num Assoc AssocFacts Rng CF CFInv Matrix Lin LinInv Warm WarmInv Nbr Clu Tree Mab FacadeCF.
Import ListNotations.

Section FacadeLin.
Context {R A G : Type} (N : Num R) (aeqb : A -> A -> bool) (RG : RngOps R G).
Hypothesis aeqb_spec : forall x y, aeqb x y = true <-> x = y.

Notation mab := (@mab R A G).
Notation op := (@op R A).
Notation out := (@out R A).

Definition lin_mab_inv (m : mab) : Prop := exists s, m_imp m = ILin s /\ lin_keys_ok s.

Theorem lin_step_preserves_inv (m : mab) (o : op) :
  rng_lengths_ok RG -> lin_mab_inv m -> lin_mab_inv (fst (step N aeqb RG m o)).
Proof.
  intros Hrng [s [Es Hk]].
  assert (Hsame : lin_mab_inv m) by (exists s; auto).
  destruct o as [ds rs cx orc | ds rs cx orc | a bz | a | keys raw q | cx orc | cx orc]; unfold step.
  - destruct (fit_args_ok N m ds rs cx); [|exact Hsame].
    unfold train_shape_ok, imp_fit; rewrite Es; simpl.
    pose proof (lin_fit_keys_ok N aeqb aeqb_spec s (m_rng m) ds rs (octx cx) Hk) as H.
    destruct (lin_fit N aeqb s (m_rng m) ds rs (octx cx)) as [s' ok]. simpl in H.
    destruct ok; simpl; exists s'; auto.
  - destruct (fit_args_ok N m ds rs cx); [|exact Hsame].
    destruct (negb (train_shape_ok (m_imp m) (m_fitted m) ds cx)); [exact Hsame|].
    rewrite Es. destruct (m_fitted m); simpl; unfold imp_fit, imp_partial_fit.
    + pose proof (lin_partial_fit_keys_ok N aeqb aeqb_spec s (m_rng m) ds rs (octx cx) Hk) as H.
      destruct (lin_partial_fit N aeqb s (m_rng m) ds rs (octx cx)) as [s' ok]. simpl in H. simpl. exists s'; auto.
    + pose proof (lin_fit_keys_ok N aeqb aeqb_spec s (m_rng m) ds rs (octx cx) Hk) as H.
      destruct (lin_fit N aeqb s (m_rng m) ds rs (octx cx)) as [s' ok]. simpl in H.
      destruct ok; simpl; exists s'; auto.
  - destruct (match bz with Some _ => negb (binz_allowed (m_imp m)) | None => false end); [exact Hsame|].
    destruct (amem aeqb a (m_arms m)) eqn:Em; [exact Hsame|].
    unfold imp_add_arm; rewrite Es; simpl. eexists; split; [reflexivity|].
    apply (amem_false aeqb aeqb_spec) in Em. unfold m_arms in Em. rewrite Es in Em. simpl in Em.
    apply (lin_add_arm_keys_ok N aeqb aeqb_spec); assumption.
  - destruct (amem aeqb a (m_arms m)); [|exact Hsame].
    unfold imp_remove_arm; rewrite Es; simpl. eexists; split; [reflexivity|].
    apply (lin_remove_arm_keys_ok aeqb); assumption.
  - destruct (negb _); [exact Hsame|]. destruct (negb _); [exact Hsame|].
    rewrite Es. destruct (lin_warm_start N aeqb s (m_rng m) keys raw q) as [s'|] eqn:Ew; [|exact Hsame].
    simpl. eexists; split; [reflexivity|].
    eapply (lin_warm_start_keys_ok N aeqb aeqb_spec); eauto.
  - destruct (negb (m_fitted m)); [exact Hsame|]. destruct (negb (predict_args_ok m cx)); [exact Hsame|].
    unfold imp_query; rewrite Es.
    pose proof (lin_expectations_ok N aeqb RG aeqb_spec s (m_rng m) (octx cx) Hrng Hk) as H.
    destruct (lin_expectations N aeqb RG s (m_rng m) (octx cx)) as [[e s'] g']. simpl.
    exists s'; split; [reflexivity | apply H].
  - destruct (negb (m_fitted m)); [exact Hsame|]. destruct (negb (predict_args_ok m cx)); [exact Hsame|].
    unfold imp_query; rewrite Es.
    pose proof (lin_expectations_ok N aeqb RG aeqb_spec s (m_rng m) (octx cx) Hrng Hk) as H.
    destruct (lin_expectations N aeqb RG s (m_rng m) (octx cx)) as [[e s'] g']. simpl.
    exists s'; split; [reflexivity | apply H].
Qed.

Theorem lin_run_preserves_inv (ops : list op) (m : mab) :
  rng_lengths_ok RG -> lin_mab_inv m -> lin_mab_inv (state_after N aeqb RG m ops).
Proof.
  intros Hrng. revert m. induction ops as [|o t IH]; intros m Hi; unfold state_after; simpl; [auto|].
  pose proof (lin_step_preserves_inv m o Hrng Hi) as Hi1.
  destruct (step N aeqb RG m o) as [m1 r] eqn:Es. simpl in *.
  specialize (IH m1 Hi1). unfold state_after in IH.
  destruct (run N aeqb RG m1 t) as [m2 rs]. simpl in *. exact IH.
Qed.

Lemma lin_init_inv k alpha eps l2 sc kf arms g : NoDup arms -> lin_mab_inv (mkMab (ILin (lin_init N k alpha eps l2 sc kf arms)) false g).
Proof. intros Hn. eexists; split; [reflexivity|]. apply lin_keys_ok_init; exact Hn. Qed.

(* what predict / predict_expectations return, in any state satisfying the invariant (hence in any reachable one);
   [octx cx] is the context matrix, one answer per row *)
Theorem lin_query_outputs_wf (m : mab) (cx : list (list R)) orc :
  rng_lengths_ok RG -> lin_mab_inv m ->
  out_wf (m_arms m) (Some (length cx)) (snd (step N aeqb RG m (Predict (Some cx) orc))) /\
  out_wf (m_arms m) (Some (length cx)) (snd (step N aeqb RG m (PredictExp (Some cx) orc))) /\
  m_arms (fst (step N aeqb RG m (Predict (Some cx) orc))) = m_arms m /\
  m_arms (fst (step N aeqb RG m (PredictExp (Some cx) orc))) = m_arms m.
Proof.
  intros Hrng [s [Es Hk]]. unfold step.
  destruct (negb (m_fitted m)); [simpl; auto|]. unfold predict_args_ok. simpl negb. cbv iota.
  unfold imp_query; rewrite Es. simpl octx.
  pose proof (lin_expectations_ok N aeqb RG aeqb_spec s (m_rng m) cx Hrng Hk) as H1.
  destruct (lin_expectations N aeqb RG s (m_rng m) cx) as [[e s'] g']. simpl.
  destruct H1 as (Hkeys & Hlen & Hk' & Harms).
  unfold m_arms; rewrite Es; simpl.
  split; [|split; [|split; exact Harms]].
  - apply shape_arms_wf.
    + unfold lefts. rewrite !map_length. rewrite <- out_len_msize. simpl. exact Hlen.
    + intros Hne. unfold lefts. rewrite !map_map. simpl. apply Forall_forall. intros a Ha.
      apply in_map_iff in Ha. destruct Ha as [d [Ea Hd]]. subst a.
      rewrite Forall_forall in Hkeys. specialize (Hkeys d Hd).
      assert (Hd' : d <> []) by (intros E; subst d; simpl in Hkeys; apply Hne; symmetry; exact Hkeys).
      destruct (argmax_first_in N d Hd') as [x [Hx1 Hx2]]. exists x. rewrite Hkeys in Hx2. auto.
  - apply shape_exps_wf.
    + unfold rights. rewrite !map_length. rewrite <- out_len_msize. simpl. exact Hlen.
    + unfold rights. rewrite map_map. simpl. apply Forall_forall. intros d Hd.
      apply in_map_iff in Hd. destruct Hd as [d0 [Ed Hd0]]. subst d.
      unfold some_exp. rewrite map_map. simpl. rewrite Forall_forall in Hkeys. apply (Hkeys d0 Hd0).
Qed.

End FacadeLin.
