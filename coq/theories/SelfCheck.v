(* SelfCheck.v — extraction self-check (trusted-base validation, not a theorem about mabwiser).
   [selfcheck_case k] builds a pseudo-random bandit configuration and history from the number k (a linear congruential
   stream), runs the model on it at the exact-rational instance with the counter generator of QcInst, and encodes
   everything the caller would see as a list of integers.  The same Gallina term is evaluated twice: inside Coq by
   vm_compute and, after extraction, by the OCaml driver (`driver --selfcheck K`); bin/setup compares the two outputs
   for k = 1..K and fails closed on any difference.  This exercises Extraction + ExtrOcamlBasic + the OCaml compiler on
   every layer of the model (all learning and neighbourhood policies, facade, warm start). *)
From Coq Require Import ZArith List Bool QArith Qcanon.
From MW Require Import Num Assoc Rng Par CF Matrix Lin Warm Nbr Clu Tree Mab Series QcInst.
Import ListNotations.
Local Open Scope Z_scope.

(* ---- the pseudo-random stream ---------------------------------------------------------------------------- *)
Definition lcg (s : Z) : Z := (s * 6364136223846793005 + 1442695040888963407) mod 18446744073709551616.
Definition pick (s : Z) (n : Z) : Z := (s / 8589934592) mod n.

(* n draws below bound, threading the state *)
Fixpoint draws (fuel : nat) (s : Z) (bound : Z) : list Z * Z :=
  match fuel with
  | O => ([], s)
  | S k => let s1 := lcg s in let (rest, s2) := draws k s1 bound in (pick s1 bound :: rest, s2)
  end.

Definition qz (z : Z) : Qc := Q2Qc (inject_Z z).
Definition qhalf (z : Z) : Qc := Q2Qc (z # 2).

Definition sc_arms : list Z := [3; 5; 8].

Definition sc_cf (k : Z) : @cf Qc Z :=
  match k mod 6 with
  | 0 => cf_init QcNum KGreedy (qz 0) None sc_arms
  | 1 => cf_init QcNum KUcb (qhalf 3) None sc_arms
  | 2 => cf_init QcNum KSoftmax (qz 2) None sc_arms
  | 3 => cf_init QcNum KPopularity (qz 0) None sc_arms
  | 4 => cf_init QcNum KThompson (qz 0) (Some (fun (a : Z) (r : Qc) => if Qc_eq_dec r (qz 0) then qz 1 else qz 0)) sc_arms
  | _ => cf_init QcNum KRandom (qz 0) None sc_arms
  end.

Definition sc_lp (k : Z) : @lp Qc Z nat :=
  match k mod 9 with
  | 6 => LLin (lin_init QcNum RRidge (qz 0) (qz 0) (qz 2) false true sc_arms)
  | 7 => LLin (lin_init QcNum RUcb (qz 1) (qz 0) (qhalf 1) false true sc_arms)
  | 8 => LLin (lin_init QcNum RTs (qz 1) (qz 0) (qz 1) false true sc_arms)
  | j => LCf (sc_cf j)
  end.

Definition sc_imp (k : Z) : @imp Qc Z nat :=
  let l := sc_lp (k / 7) in
  match k mod 7 with
  | 0 | 1 => match l with LCf c => ICf c | LLin s => ILin s end
  | 2 => INbr (nbr_init (NRadius (qz 2)) Cityblock None false sc_arms l)
  | 3 => INbr (nbr_init (NRadius (qz 1)) Chebyshev (Some [qhalf 1; qhalf 1; qz 0]) false sc_arms l)
  | 4 => INbr (nbr_init (NLsh 2 2) Euclidean None false sc_arms l)
  | 5 => IClu (clu_init 2 sc_arms l)
  | _ => match l with LCf c => ITree (tree_init QcNum true true sc_arms c) | LLin s => ILin s end
  end.

Definition sc_oracle (n : nat) : @oracle Qc Z :=
  mkOracle [] (map (fun i => Nat.modulo i 2) (seq 0 64)) (map (fun i => Nat.modulo i 2) (seq 0 n))
           (fun a row => match row with x :: _ => if leb QcNum x (qz 1) then 0%nat else 1%nat | [] => 0%nat end) [n].

Definition nth_arm (l : list Z) (i : Z) : Z := nth (Z.to_nat i) l 3.

(* a batch of n rows *)
Definition sc_batch (s : Z) (n : nat) (arms : list Z) (binary : bool) : list Z * list Qc * list (list Qc) * Z :=
  let (ai, s1) := draws n s (Z.of_nat (length arms)) in
  let (ri, s2) := draws n s1 (if binary then 2 else 7) in
  let (c1, s3) := draws n s2 4 in
  let (c2, s4) := draws n s3 4 in
  (map (nth_arm arms) ai, map (fun r => if binary then qz r else qhalf (r - 2)) ri, map (fun p => [qz (fst p); qz (snd p)]) (combine c1 c2), s4).

Definition sc_raw (a b : Z) : Qc := qhalf (Z.abs (a - b) mod 5).

Fixpoint sc_ops (fuel : nat) (s : Z) (arms : list Z) (next : Z) (ctx binary warm : bool) : list (@op Qc Z) :=
  match fuel with
  | O => []
  | S k =>
      let s1 := lcg s in
      let cx (c : list (list Qc)) := if ctx then Some c else None in
      match pick s1 8 with
      | 0 | 1 =>
          let '(ds, rs, c, s2) := sc_batch s1 (S (Z.to_nat (pick s1 3))) arms binary in
          PartialFit ds rs (cx c) (sc_oracle (length ds)) :: sc_ops k s2 arms next ctx binary warm
      | 2 =>
          let '(ds, rs, c, s2) := sc_batch s1 4 arms binary in
          Fit ds rs (cx c) (sc_oracle 4) :: sc_ops k s2 arms next ctx binary warm
      | 3 => AddArm next None :: sc_ops k s1 (arms ++ [next]) (next + 1) ctx binary warm
      | 4 => match arms with
             | a :: b :: rest => RemoveArm a :: sc_ops k s1 (b :: rest) next ctx binary warm
             | _ => sc_ops k s1 arms next ctx binary warm
             end
      | 5 => if warm then WarmStart arms sc_raw (qhalf (pick s1 3)) :: sc_ops k s1 arms next ctx binary warm
             else PredictExp (cx [[qz 1; qz 2]]) (sc_oracle 1) :: sc_ops k s1 arms next ctx binary warm
      | 6 => let '(_, _, c, s2) := sc_batch s1 2 arms binary in
             Predict (cx c) (sc_oracle 2) :: sc_ops k s2 arms next ctx binary warm
      | _ => let '(_, _, c, s2) := sc_batch s1 (S (Z.to_nat (pick s1 3))) arms binary in
             PredictExp (cx c) (sc_oracle (length c)) :: sc_ops k s2 arms next ctx binary warm
      end
  end.

(* ---- encoding of what the caller sees -------------------------------------------------------------------- *)
Definition enc_q (x : Qc) : list Z := [Qnum (this x); Zpos (Qden (this x))].
Definition enc_oq (x : option Qc) : list Z := match x with Some v => 1 :: enc_q v | None => [0] end.
Definition enc_arm (a : option Z) : list Z := match a with Some v => [1; v] | None => [0] end.
Definition enc_exp (d : list (Z * option Qc)) : list Z := (-7) :: flat_map (fun kv => fst kv :: enc_oq (snd kv)) d.

Definition enc_out (o : @out Qc Z) : list Z :=
  match o with
  | ODone => [-1]
  | ORejected => [-2]
  | OArm a => (-3) :: enc_arm a
  | OArms l => (-4) :: flat_map enc_arm l
  | OExp d => (-5) :: enc_exp d
  | OExps l => (-6) :: flat_map enc_exp l
  end.

Definition sc_is_ts (i : @imp Qc Z nat) : bool :=
  match i with
  | ICf c => cf_is_ts c
  | INbr s => match n_lp s with LCf c => cf_is_ts c | _ => false end
  | IClu s => match k_lps s with LCf c :: _ => cf_is_ts c | _ => false end
  | ITree s => cf_is_ts (t_lp s)
  | ILin _ => false
  end.

Definition selfcheck_case (k : Z) : list Z :=
  let i := sc_imp k in
  let s0 := lcg (k + 12345) in
  let ctx := is_contextual i in
  let binary := sc_is_ts i in
  let warm := match i with ICf _ | ILin _ => true | _ => false end in
  let '(ds, rs, c, s1) := sc_batch s0 6 sc_arms binary in
  let ops := Fit ds rs (if ctx then Some c else None) (sc_oracle 6) :: sc_ops 7 s1 sc_arms 11 ctx binary warm in
  (* through the facade layer of Series.v (width validation of queries); every third case ends with a query of another width *)
  let ops' := map (@SPlain Qc Z) ops ++ (if Z.eqb (k mod 3) 0 then [SPlain (PredictExp (if ctx then Some [[qz 1; qz 2; qz 3]] else None) (sc_oracle 1)); SPlain (Predict (if ctx then Some [[qz 1; qz 2]] else None) (sc_oracle 1))] else []) in
  let (m, outs) := srun QcNum Z.eqb ToyRng (mkMab i false (Z.to_nat (k mod 5))) ops' in
  flat_map enc_out outs ++ (-9) :: m_arms m ++ (-9) :: mab_cold_arms Z.eqb m.
