(* FitOrder.v — C05, training: _parallel_fit runs one _fit_arm task per arm (joblib, require='sharedmem').  Each task reads the
   batch, the arm's own entries and values no task writes (UCB1's total_count is set before the tasks start), and writes only the
   arm's own entries of arm_to_sum / count / mean / expectation / success / fail.  Hence two tasks for different arms COMMUTE, and
   the fitted state is the same for every order in which the tasks complete - for each of the six context-free policies.
   (Tasks are atomic here: joblib runs a task to completion in one worker; interleavings INSIDE a task touch disjoint keys.) *)
From Coq Require Import ZArith List Bool Permutation.
From MW Require Import Num Assoc AssocFacts Rng CF CFInv Matrix Lin Nbr Tree.
Import ListNotations.

Section FitOrder.
Context {R A : Type} (N : Num R) (aeqb : A -> A -> bool).
Hypothesis aeqb_spec : forall x y, aeqb x y = true <-> x = y.
Notation cf := (@cf R A).

Lemma aset_comm {V} (d : list (A * V)) a b x y : a <> b -> In a (akeys d) -> In b (akeys d) ->
  aset aeqb (aset aeqb d a x) b y = aset aeqb (aset aeqb d b y) a x.
Proof.
  intros Hab. induction d as [|[k v] t IH]; intros Ha Hb; [destruct Ha|].
  simpl in Ha, Hb. cbn [aset].
  destruct (aeqb a k) eqn:Eak; destruct (aeqb b k) eqn:Ebk.
  - apply aeqb_spec in Eak, Ebk. congruence.
  - cbn [aset]. rewrite Eak, Ebk. reflexivity.
  - cbn [aset]. rewrite Eak, Ebk. reflexivity.
  - cbn [aset]. rewrite Eak, Ebk. f_equal. apply IH.
    + destruct Ha as [E|Ha]; [subst k; rewrite (keqb_refl aeqb aeqb_spec) in Eak; discriminate | exact Ha].
    + destruct Hb as [E|Hb]; [subst k; rewrite (keqb_refl aeqb aeqb_spec) in Ebk; discriminate | exact Hb].
Qed.

Lemma aget_d_aset_other {V} (dflt : V) (d : list (A * V)) a b x : a <> b -> aget_d aeqb dflt (aset aeqb d a x) b = aget_d aeqb dflt d b.
Proof. intros H. unfold aget_d. rewrite (aget_aset_other aeqb aeqb_spec) by (intros E; apply H; symmetry; exact E). reflexivity. Qed.

(* a task as "compute the arm's new entries from the arm's own old entries, then store them" *)
Definition arm_upd (s : cf) (a : A) (ds : list A) (rs : list R) : option (@armst R) * option R :=
  let ar := arm_rewards aeqb a ds rs in
  let st := aget_d aeqb (armst0 N) (c_stats s) a in
  match c_kind s with
  | KGreedy | KPopularity =>
      if is_nil ar then (None, None) else
      let sum' := add N (s_sum st) (nsum N ar) in
      let cnt' := (s_count st + Z.of_nat (length ar))%Z in
      (Some (mkArmst sum' cnt' (s_mean st) (s_expo st) (s_succ st) (s_fail st)), Some (div N sum' (of_Z N cnt')))
  | KUcb =>
      let st' := if is_nil ar then st else
                 let sum' := add N (s_sum st) (nsum N ar) in
                 let cnt' := (s_count st + Z.of_nat (length ar))%Z in
                 mkArmst sum' cnt' (div N sum' (of_Z N cnt')) (s_expo st) (s_succ st) (s_fail st) in
      ((if is_nil ar then None else Some st'),
       (if Z.eqb (s_count st') 0 then None else Some (ucb_value N (s_mean st') (c_hp s) (c_total s) (s_count st'))))
  | KSoftmax =>
      if is_nil ar then (None, None) else
      let sum' := add N (s_sum st) (nsum N ar) in
      let cnt' := (s_count st + Z.of_nat (length ar))%Z in
      (Some (mkArmst sum' cnt' (div N sum' (of_Z N cnt')) (s_expo st) (s_succ st) (s_fail st)), None)
  | KThompson =>
      let ones := nsum N ar in
      (Some (mkArmst (s_sum st) (s_count st) (s_mean st) (s_expo st)
                     (add N (s_succ st) ones) (add N (s_fail st) (sub N (of_Z N (Z.of_nat (length ar))) ones))), None)
  | KRandom => (None, None)
  end.

Definition apply_upd (s : cf) (a : A) (u : option (@armst R) * option R) : cf :=
  set_exp (set_stats s (match fst u with Some st => aset aeqb (c_stats s) a st | None => c_stats s end))
          (match snd u with Some e => aset aeqb (c_exp s) a e | None => c_exp s end).

Lemma cf_eta (s : cf) : set_exp (set_stats s (c_stats s)) (c_exp s) = s.
Proof. destruct s; reflexivity. Qed.

Lemma fit_arm_as_upd (s : cf) a ds rs : cf_fit_arm N aeqb s a ds rs = apply_upd s a (arm_upd s a ds rs).
Proof.
  unfold cf_fit_arm, arm_upd, apply_upd.
  destruct (c_kind s) eqn:Ek; destruct (is_nil (arm_rewards aeqb a ds rs)) eqn:En; cbn [fst snd];
    try (symmetry; apply cf_eta); try reflexivity.
  - destruct (Z.eqb _ 0); cbn [fst snd]; [symmetry; apply cf_eta | reflexivity].
  - destruct (Z.eqb _ 0); cbn [fst snd]; reflexivity.
Qed.

Lemma arm_upd_other (s : cf) a b u ds rs : a <> b -> arm_upd (apply_upd s a u) b ds rs = arm_upd s b ds rs.
Proof.
  intros Hab. unfold arm_upd, apply_upd. cbn [c_kind c_stats c_hp c_total set_exp set_stats].
  destruct (fst u) as [st|]; [rewrite (aget_d_aset_other _ _ _ _ _ Hab)|]; reflexivity.
Qed.

Lemma apply_upd_comm (s : cf) a b u v : a <> b ->
  In a (akeys (c_exp s)) -> In b (akeys (c_exp s)) -> In a (akeys (c_stats s)) -> In b (akeys (c_stats s)) ->
  apply_upd (apply_upd s a u) b v = apply_upd (apply_upd s b v) a u.
Proof.
  intros Hab Hae Hbe Has Hbs. unfold apply_upd, set_exp, set_stats.
  cbn [c_kind c_hp c_binz c_ctxbin c_arms c_exp c_status c_stats c_total c_pyfloat].
  destruct u as [[su|] [eu|]]; destruct v as [[sv|] [ev|]]; cbn [fst snd]; f_equal;
    try reflexivity; try (apply aset_comm; assumption).
Qed.

(* two per-arm tasks for different arms commute *)
Theorem fit_arm_tasks_commute (s : cf) a b ds rs : keys_ok s -> a <> b -> In a (c_arms s) -> In b (c_arms s) ->
  cf_fit_arm N aeqb (cf_fit_arm N aeqb s a ds rs) b ds rs = cf_fit_arm N aeqb (cf_fit_arm N aeqb s b ds rs) a ds rs.
Proof.
  intros (Hn & He & Hst & Hs) Hab Ha Hb.
  assert (Hba : b <> a) by (intros E; apply Hab; symmetry; exact E).
  rewrite !fit_arm_as_upd. rewrite (arm_upd_other s a b _ ds rs Hab), (arm_upd_other s b a _ ds rs Hba).
  apply apply_upd_comm; [exact Hab | rewrite He; exact Ha | rewrite He; exact Hb | rewrite Hs; exact Ha | rewrite Hs; exact Hb].
Qed.

Definition fit_in_order (s : cf) (order : list A) ds rs : cf := fold_left (fun s a => cf_fit_arm N aeqb s a ds rs) order s.

Lemma fit_arm_keeps (s : cf) a ds rs : keys_ok s -> In a (c_arms s) ->
  keys_ok (cf_fit_arm N aeqb s a ds rs) /\ c_arms (cf_fit_arm N aeqb s a ds rs) = c_arms s.
Proof.
  intros Hk Ha. pose proof Hk as (Hn & He & Hst & Hs).
  pose proof (fit_arm_shape N aeqb aeqb_spec s a ds rs ltac:(rewrite He; exact Ha) ltac:(rewrite Hs; exact Ha)) as Hsh.
  split; [eapply keys_ok_shape; eassumption | exact (proj1 Hsh)].
Qed.

(* C05: every completion order of the per-arm tasks gives the same fitted state *)
Theorem fit_independent_of_task_order (order order' : list A) : Permutation order order' ->
  forall (s : cf) ds rs, keys_ok s -> NoDup order -> (forall a, In a order -> In a (c_arms s)) ->
  fit_in_order s order ds rs = fit_in_order s order' ds rs.
Proof.
  intros P. induction P as [|x l l' P IH|x y l|l1 l2 l3 P1 IH1 P2 IH2]; intros s ds rs Hk Hnd Hin.
  - reflexivity.
  - cbn [fit_in_order fold_left]. inversion Hnd as [|? ? Hx Hl]; subst.
    destruct (fit_arm_keeps s x ds rs Hk (Hin x (or_introl eq_refl))) as [Hk' Ha'].
    apply (IH _ ds rs Hk' Hl). intros a Ha. rewrite Ha'. apply Hin. right. exact Ha.
  - cbn [fit_in_order fold_left]. inversion Hnd as [|? ? Hy Hl]; subst. inversion Hl as [|? ? Hx Hl']; subst.
    rewrite (fit_arm_tasks_commute s y x ds rs Hk); [reflexivity | | apply Hin; left; reflexivity | apply Hin; right; left; reflexivity].
    intros E. apply Hy. left. symmetry. exact E.
  - rewrite (IH1 s ds rs Hk Hnd Hin). apply (IH2 s ds rs Hk).
    + eapply Permutation_NoDup; eassumption.
    + intros a Ha. apply Hin. eapply Permutation_in; [apply Permutation_sym; exact P1 | exact Ha].
Qed.

(* _parallel_fit itself is the order of self.arms *)
Corollary parallel_fit_is_any_task_order (s : cf) (order : list A) ds rs :
  keys_ok s -> Permutation (c_arms s) order -> cf_parallel_fit N aeqb s ds rs = fit_in_order s order ds rs.
Proof.
  intros Hk P. unfold cf_parallel_fit. apply (fit_independent_of_task_order (c_arms s) order P s ds rs Hk (proj1 Hk)). auto.
Qed.

(* ---- TreeBandit: a task files the arm's rewards under the arm's own leaf table ------------------------------- *)
Lemma tree_fit_arm_keys (leaf : A -> list R -> nat) (lv : list (A * list (nat * list R))) a ds rs (cx : mat (R:=R)) :
  In a (akeys lv) -> akeys (tree_fit_arm aeqb leaf lv a ds rs cx) = akeys lv.
Proof.
  intros Ha. unfold tree_fit_arm. destruct (filter _ _); [reflexivity|]. apply (akeys_aset_in aeqb aeqb_spec). exact Ha.
Qed.

Theorem tree_fit_tasks_commute (leaf : A -> list R -> nat) (lv : list (A * list (nat * list R))) a b ds rs (cx : mat (R:=R)) :
  a <> b -> In a (akeys lv) -> In b (akeys lv) ->
  tree_fit_arm aeqb leaf (tree_fit_arm aeqb leaf lv a ds rs cx) b ds rs cx
  = tree_fit_arm aeqb leaf (tree_fit_arm aeqb leaf lv b ds rs cx) a ds rs cx.
Proof.
  intros Hab Ha Hb. assert (Hba : b <> a) by (intros E; apply Hab; symmetry; exact E).
  unfold tree_fit_arm.
  destruct (filter (fun t => aeqb (fst (fst t)) a) (combine (combine ds rs) cx)) as [|ra la] eqn:Ea;
    destruct (filter (fun t => aeqb (fst (fst t)) b) (combine (combine ds rs) cx)) as [|rb lb] eqn:Eb; try reflexivity.
  rewrite (aget_d_aset_other _ _ _ _ _ Hab), (aget_d_aset_other _ _ _ _ _ Hba). apply aset_comm; assumption.
Qed.

Theorem tree_fit_independent_of_task_order (leaf : A -> list R -> nat) ds rs (cx : mat (R:=R)) (order order' : list A) :
  Permutation order order' -> forall lv, NoDup order -> (forall a, In a order -> In a (akeys lv)) ->
  fold_left (fun lv a => tree_fit_arm aeqb leaf lv a ds rs cx) order lv
  = fold_left (fun lv a => tree_fit_arm aeqb leaf lv a ds rs cx) order' lv.
Proof.
  intros P. induction P as [|x l l' P IH|x y l|l1 l2 l3 P1 IH1 P2 IH2]; intros lv Hnd Hin.
  - reflexivity.
  - cbn [fold_left]. inversion Hnd as [|? ? Hx Hl]; subst. apply (IH _ Hl).
    intros a Ha. rewrite tree_fit_arm_keys by (apply Hin; left; reflexivity). apply Hin. right. exact Ha.
  - cbn [fold_left]. inversion Hnd as [|? ? Hy Hl]; subst.
    rewrite (tree_fit_tasks_commute leaf lv y x ds rs cx); [reflexivity | | apply Hin; left; reflexivity | apply Hin; right; left; reflexivity].
    intros E. apply Hy. left. symmetry. exact E.
  - rewrite (IH1 lv Hnd Hin). apply IH2.
    + eapply Permutation_NoDup; eassumption.
    + intros a Ha. apply Hin. eapply Permutation_in; [apply Permutation_sym; exact P1 | exact Ha].
Qed.

(* ---- linear policies: a task refits the arm's own regression object ---------------------------------------------- *)
Section LinOrder.
Context {G : Type}.
Notation lin := (@lin R A G).

Definition obind {X Y} (f : X -> option Y) (o : option X) : option Y := match o with Some x => f x | None => None end.

Theorem lin_fit_tasks_commute (s : lin) (g : G) a b ds rs (cx : mat (R:=R)) :
  a <> b -> In a (akeys (l_models s)) -> In b (akeys (l_models s)) ->
  obind (fun s1 => lin_fit_arm N aeqb s1 g b ds rs cx) (lin_fit_arm N aeqb s g a ds rs cx)
  = obind (fun s1 => lin_fit_arm N aeqb s1 g a ds rs cx) (lin_fit_arm N aeqb s g b ds rs cx).
Proof.
  intros Hab Ha Hb. assert (Hba : b <> a) by (intros E; apply Hab; symmetry; exact E).
  unfold lin_fit_arm.
  destruct (arm_rows aeqb a ds rs cx) as [xa ya] eqn:Ea. destruct (arm_rows aeqb b ds rs cx) as [xb yb] eqn:Eb.
  destruct xa as [|ra xa']; destruct xb as [|rb xb']; cbn [obind]; rewrite ?Ea, ?Eb; try reflexivity.
  - (* only b has rows *)
    destruct (negb _); [reflexivity|]. destruct (ridge_fit N _ _ _ _) as [m2|]; cbn [obind]; [|reflexivity].
    cbn [set_models l_models l_nf]. rewrite ?Ea, ?Eb. reflexivity.
  - (* only a has rows *)
    destruct (negb _); [reflexivity|]. destruct (ridge_fit N _ _ _ _) as [m2|]; cbn [obind]; [|reflexivity].
    cbn [set_models l_models l_nf]. rewrite ?Ea, ?Eb. reflexivity.
  - (* both *)
    destruct (negb (Nat.eqb (ncols (ra :: xa')) _)) eqn:Wa; destruct (negb (Nat.eqb (ncols (rb :: xb')) _)) eqn:Wb; cbn [obind]; try reflexivity.
    + destruct (ridge_fit N _ _ (rb :: xb') yb) as [m2|]; cbn [obind]; [|reflexivity].
      cbn [set_models l_models l_nf]. rewrite ?Ea, ?Eb, ?Wa, ?Wb. reflexivity.
    + destruct (ridge_fit N _ _ (ra :: xa') ya) as [m2|]; cbn [obind]; [|reflexivity].
      cbn [set_models l_models l_nf]. rewrite ?Ea, ?Eb, ?Wa, ?Wb. reflexivity.
    + destruct (ridge_fit N _ _ (ra :: xa') ya) as [ma|] eqn:Fa; destruct (ridge_fit N _ _ (rb :: xb') yb) as [mb|] eqn:Fb; cbn [obind];
        cbn [set_models l_models l_nf]; rewrite ?Ea, ?Eb, ?Wa, ?Wb;
        rewrite ?(aget_d_aset_other _ _ _ _ _ Hab), ?(aget_d_aset_other _ _ _ _ _ Hba); rewrite ?Fa, ?Fb; try reflexivity.
      unfold set_models. cbn [l_kind l_alpha l_eps l_l2 l_scale l_kf_ainv l_nf l_arms l_exp l_status l_models].
      f_equal. f_equal. apply aset_comm; assumption.
Qed.

End LinOrder.

End FitOrder.
