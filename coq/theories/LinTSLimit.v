(* LinTSLimit.v — C02, the LinTS clause "a draw centred on x.beta that converges to it as alpha tends to 0" (exact arithmetic).

   The model takes the sample of rng.multivariate_normal(beta, alpha^2 * A_inv, size) from the generator oracle; what a multivariate
   normal draw IS belongs to numpy, not to mabwiser.  The law used here is numpy's construction mean + z.(sqrt(s) * v) for the
   decomposition (u, s, v) of the covariance: scaling the covariance by a^2 (a >= 0) scales the singular values by a^2 and hence the
   deviation from the mean by a.  It is stated as a HYPOTHESIS on the generator structure (mvn_scale_law: there is a deviation matrix,
   depending on the generator state, the unscaled covariance and the shape but NOT on a, such that the sample for covariance a^2*C is
   mean + a*dev) - an assumption about numpy recorded in the trusted base, and exercised on the code by the C02 relation (the same
   history and seed with alpha and alpha/4 deviate from x.beta in the ratio 4).

   Under it, for every arm, every number of features and every batch of contexts:
       LinTS expectation(row) = row.beta + alpha * (row.dev_row)                 (lints_expectation_is_affine_in_alpha)
   with dev independent of alpha: the draw is centred on x.beta, its distance from x.beta is alpha*|row.dev_row| - linear in alpha,
   so it tends to x.beta as alpha tends to 0 - and at alpha = 0 it IS the LinGreedy exploit value x.beta    (lints_alpha_zero). *)
From Coq Require Import ZArith List Bool Lia Ring.
From MW Require Import Num NumLaws Assoc AssocFacts Rng Par CF Matrix MatrixFacts Lin Extra.
Import ListNotations.

Section LinTSLimit.
Context {R A G : Type} (N : Num R) (L : NumLaws N) (aeqb : A -> A -> bool) (RG : RngOps R G).
Notation ridge := (@ridge R G).
Notation lin := (@lin R A G).
Add Ring RingLT : (L_ring N L).

Definition shifted (a : R) (mean dev : list R) : list R := map2 (fun mu dv => add N mu (mul N a dv)) mean dev.

Definition mvn_scale_law : Prop :=
  exists dev : G -> list R -> mat (R:=R) -> nat -> list (list R),
    forall (g : G) (mean : list R) (C : mat (R:=R)) (a : R) (n : nat),
      chunk_rows n (length mean) (fst (draw_r RG g (RqMvn mean (mscale N (mul N a a) C) n)))
      = map (shifted a mean) (dev g mean C n)
      /\ length (dev g mean C n) = n /\ Forall (fun r => length r = length mean) (dev g mean C n).

(* the linear read-out of a shifted sample *)
Lemma readout_shifted (a : R) (row mean dev : list R) :
  length dev = length mean ->
  nsum N (map2 (mul N) row (shifted a mean dev)) = add N (nsum N (map2 (mul N) row mean)) (mul N a (nsum N (map2 (mul N) row dev))).
Proof.
  rewrite !(L_nsum N L). unfold shifted. revert mean dev. induction row as [|x row IH]; intros [|mu mean] [|dv dev] Hl; cbn in *; try discriminate; try ring.
  injection Hl as Hl. rewrite (IH mean dev Hl). ring.
Qed.

Lemma map2_map_r {X Y Z W} (f : X -> Z -> W) (h : Y -> Z) (u : list X) (v : list Y) : map2 f u (map h v) = map2 (fun x y => f x (h y)) u v.
Proof. revert v. induction u as [|x u IH]; intros [|y v]; cbn; try reflexivity. rewrite IH. reflexivity. Qed.

Lemma map2_ext_in {X Y Z} (f f' : X -> Y -> Z) (u : list X) (v : list Y) :
  Forall (fun y => forall x, f x y = f' x y) v -> map2 f u v = map2 f' u v.
Proof. intros H. revert u. induction H as [|y v Hy Hv IH]; intros [|x u]; cbn; try reflexivity. rewrite Hy, IH. reflexivity. Qed.

Theorem lints_expectation_is_affine_in_alpha :
  mvn_scale_law ->
  exists dev : G -> list R -> mat (R:=R) -> nat -> list (list R),
  forall (s : lin) (m : ridge) g gm (x : mat (R:=R)),
    l_kind s = RTs -> r_scaler m = None -> r_rng m = Some gm ->
    fst (fst (ridge_predict N RG s m g x))
    = map2 (fun row drow => add N (nsum N (map2 (mul N) row (r_beta m))) (mul N (l_alpha s) (nsum N (map2 (mul N) row drow))))
           x (dev gm (r_beta m) (r_Ainv m) (length x))
    /\ length (dev gm (r_beta m) (r_Ainv m) (length x)) = length x.
Proof.
  intros [dev Hlaw]. exists dev. intros s m g gm x Hk Hs Hr.
  pose proof (lints_request_and_readout N RG s m g gm x Hk Hs Hr) as H. cbv zeta in H.
  destruct (Hlaw gm (r_beta m) (r_Ainv m) (l_alpha s) (length x)) as (E & Hlen & Hrows).
  destruct (draw_r RG gm (RqMvn (r_beta m) (mscale N (mul N (l_alpha s) (l_alpha s)) (r_Ainv m)) (length x))) as [smp gm'].
  cbn [fst] in E. rewrite H, E. split; [|exact Hlen].
  rewrite map2_map_r. apply map2_ext_in.
  eapply Forall_impl; [|exact Hrows]. intros drow Hd row. apply readout_shifted. exact Hd.
Qed.

(* at alpha = 0 the LinTS expectation is the exploit value row.beta of the ridge regression, row by row *)
Theorem lints_alpha_zero :
  mvn_scale_law ->
  forall (s : lin) (m : ridge) g gm (x : mat (R:=R)),
    l_kind s = RTs -> r_scaler m = None -> r_rng m = Some gm -> l_alpha s = zero N ->
    fst (fst (ridge_predict N RG s m g x)) = map (fun row => nsum N (map2 (mul N) row (r_beta m))) x.
Proof.
  intros Hlaw. destruct (lints_expectation_is_affine_in_alpha Hlaw) as [dev H].
  intros s m g gm x Hk Hs Hr Ha. destruct (H s m g gm x Hk Hs Hr) as [E Hlen]. rewrite E, Ha.
  generalize (dev gm (r_beta m) (r_Ainv m) (length x)) Hlen. clear -L.
  induction x as [|row x IH]; intros [|d ds] Hl; cbn in *; try discriminate; [reflexivity|].
  injection Hl as Hl. rewrite (IH ds Hl). f_equal. ring.
Qed.

End LinTSLimit.

(* ---- the hypothesis is satisfiable: a generator whose multivariate-normal draw is the point mass at the mean (all other
   requests as the toy generator).  A non-degenerate rational instance does not exist (the deviation for covariance a^2*C is a*dev:
   square roots); numpy's generator at binary64 is exercised by the C02 relation. *)
From Coq Require Import QArith Qcanon.
From MW Require Import QcInst.

Definition MeanRng : RngOps Qc nat := {|
  draw_r := fun g r => (match r with RqMvn mean _ n => concat (repeat mean n) | _ => toy_vals g (toy_size r) end, S g);
  draw_z := draw_z ToyRng;
  create := create ToyRng
|}.

Lemma chunk_rows_concat_repeat (mean : list Qc) n : chunk_rows n (length mean) (concat (repeat mean n)) = repeat mean n.
Proof.
  induction n as [|n IH]; [reflexivity|]. cbn [repeat concat chunk_rows].
  rewrite firstn_app, Nat.sub_diag, firstn_all. cbn [firstn]. rewrite app_nil_r.
  rewrite skipn_app, Nat.sub_diag, skipn_all. cbn [skipn app]. rewrite IH. reflexivity.
Qed.

Lemma shifted_zero (a : Qc) (mean : list Qc) : shifted QcNum a mean (repeat (Q2Qc 0) (length mean)) = mean.
Proof.
  unfold shifted. induction mean as [|mu t IH]; [reflexivity|]. cbn [length repeat map2]. rewrite IH. f_equal. cbn. ring.
Qed.

Lemma map_repeat' {X Y} (f : X -> Y) x k : map f (repeat x k) = repeat (f x) k.
Proof. induction k as [|k IHk]; cbn; [reflexivity | rewrite IHk; reflexivity]. Qed.

Lemma mean_rng_meets_the_law : mvn_scale_law QcNum MeanRng.
Proof.
  exists (fun _ mean _ n => repeat (repeat (Q2Qc 0) (length mean)) n). intros g mean C a n. cbn [draw_r MeanRng fst].
  rewrite chunk_rows_concat_repeat. split; [|split].
  - rewrite map_repeat', shifted_zero. reflexivity.
  - apply repeat_length.
  - apply Forall_forall. intros r Hr. apply repeat_spec in Hr. subst r. apply repeat_length.
Qed.
