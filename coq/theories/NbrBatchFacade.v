(* NbrBatchFacade.v — NbrBatch lifted to the public facade: for a MAB over Radius / KNearest / LSHNearest, whenever the three
   calls are accepted, fit(c1 ++ c2) and fit(c1); partial_fit(c2) leave the same MAB object (policy state, fitted flag, generator). *)
From Coq Require Import ZArith List Bool Arith Lia.
From MW Require Import Num Assoc Rng Par CF Matrix Lin Nbr Warm Clu Tree Mab NbrBatch.
Import ListNotations.

Section NbrBatchFacade.
Context {R A G : Type} (N : Num R) (aeqb : A -> A -> bool) (RG : RngOps R G).
Notation mab := (@mab R A G).

Theorem facade_nbr_fit_whole_equals_fit_then_partial_fit (m : mab) (s : @nbr R A G) d1 d2 r1 r2 row c1 (c2 : mat (R:=R)) o o1 o2 :
  m_imp m = INbr s ->
  snd (step N aeqb RG m (Fit (d1 ++ d2) (r1 ++ r2) (Some ((row :: c1) ++ c2)) o)) = ODone ->
  snd (step N aeqb RG m (Fit d1 r1 (Some (row :: c1)) o1)) = ODone ->
  snd (step N aeqb RG (fst (step N aeqb RG m (Fit d1 r1 (Some (row :: c1)) o1))) (PartialFit d2 r2 (Some c2) o2)) = ODone ->
  fst (step N aeqb RG m (Fit (d1 ++ d2) (r1 ++ r2) (Some ((row :: c1) ++ c2)) o))
  = fst (step N aeqb RG (fst (step N aeqb RG m (Fit d1 r1 (Some (row :: c1)) o1))) (PartialFit d2 r2 (Some c2) o2)).
Proof.
  intros Hi. cbn [step]. rewrite !Hi.
  destruct (fit_args_ok N m (d1 ++ d2) (r1 ++ r2) (Some ((row :: c1) ++ c2))) eqn:F0; [|discriminate].
  destruct (fit_args_ok N m d1 r1 (Some (row :: c1))) eqn:F1; [|discriminate].
  assert (Hl : length d1 = length r1).
  { unfold fit_args_ok in F1. apply andb_prop in F1. destruct F1 as [F1 _]. apply andb_prop in F1. destruct F1 as [_ F1].
    apply Nat.eqb_eq in F1. exact F1. }
  cbn [train_shape_ok negb imp_fit octx].
  pose proof (nbr_fit_whole_equals_fit_then_partial_fit N RG s (m_rng m) d1 d2 r1 r2 (row :: c1) c2 Hl (ncols_app_nonempty row c1 c2)) as H.
  destruct (nbr_fit N RG s (m_rng m) (d1 ++ d2) (r1 ++ r2) ((row :: c1) ++ c2)) as [sw gw].
  destruct (nbr_fit N RG s (m_rng m) d1 r1 (row :: c1)) as [s1 g1]. cbn [fst snd] in *.
  injection H as -> ->. intros _ _.
  destruct (fit_args_ok N _ d2 r2 (Some c2)); [|discriminate].
  cbn [m_imp m_fitted m_rng train_shape_ok].
  destruct (negb (width_ok (n_cx s1) (octx (Some c2)))); [discriminate|].
  cbn [imp_partial_fit fst octx]. intros _. reflexivity.
Qed.

End NbrBatchFacade.
