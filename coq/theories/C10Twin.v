(* C10Twin.v — C10 as ONE statement for every policy combination: a bandit that has answered any number of queries is
   indistinguishable, under every later sequence of facade calls, from the bandit that was never queried, once the
   random-stream positions are copied across (the bandit's generator and, for LinTS, the private generators of the
   per-arm regressions - the property's "apart from advancing its random streams").

     twin m m'       m' is m up to the stream positions and Thompson's stored copy of its last sample
     copy_streams    puts the stream positions of the unqueried bandit into the queried one
     queries_twin    any list of predict / predict_expectations calls leads to a twin           (every reachable state)
     twin_run        a twin with the streams copied across gives the same outputs under EVERY continuation
     queried_bandit_is_indistinguishable   the two together. *)
From Coq Require Import ZArith List Bool Lia.
From MW Require Import Num Assoc AssocFacts Rng Par CF CFInv CFClean CFForget Matrix Lin LinInv Warm WarmInv Nbr Clu Tree Mab
                       FacadeCF FacadeAll ExpIrrel C10All.
Import ListNotations.

Section C10Twin.
Context {R A G : Type} (N : Num R) (aeqb : A -> A -> bool) (RG : RngOps R G).
Hypothesis aeqb_spec : forall x y, aeqb x y = true <-> x = y.

Notation mab := (@mab R A G).
Notation imp := (@imp R A G).
Notation cf := (@cf R A).
Notation lin := (@lin R A G).
Notation ridge := (@ridge R G).

Definition is_query (o : @op R A) : Prop := match o with Predict _ _ | PredictExp _ _ => True | _ => False end.

Definition imp_twin (i i' : imp) : Prop :=
  match i with
  | ICf s => exists s', i' = ICf s' /\ s' = set_exp s (c_exp s') /\ akeys (c_exp s') = akeys (c_exp s) /\ (c_kind s <> KThompson -> s' = s)
  | ILin s => exists s', i' = ILin s' /\ s' = set_models s (l_models s') /\ models_eq_mod_rng (l_models s) (l_models s')
  | _ => i' = i
  end.
Definition twin (m m' : mab) : Prop := m_fitted m' = m_fitted m /\ imp_twin (m_imp m) (m_imp m').

Lemma imp_twin_refl i : imp_twin i i.
Proof.
  destruct i as [s|s|s|s|s]; simpl; auto.
  - exists s. repeat split; auto. destruct s; reflexivity.
  - exists s. repeat split; [destruct s; reflexivity | apply models_eq_refl].
Qed.

Lemma imp_twin_trans a b c : imp_twin a b -> imp_twin b c -> imp_twin a c.
Proof.
  destruct a as [s|s|s|s|s]; simpl.
  - intros (s1 & -> & E1 & K1 & Q1). simpl. intros (s2 & -> & E2 & K2 & Q2). exists s2. split; [reflexivity|].
    split; [rewrite E2, E1; reflexivity|]. split; [congruence|].
    intros Hk. rewrite <- (Q1 Hk). apply Q2. rewrite E1. simpl. exact Hk.
  - intros (s1 & -> & E1 & M1). simpl. intros (s2 & -> & E2 & M2). exists s2. split; [reflexivity|].
    split; [rewrite E2, E1; reflexivity|]. eapply models_eq_trans; eassumption.
  - intros ->. simpl. auto.
  - intros ->. simpl. auto.
  - intros ->. simpl. auto.
Qed.

Lemma twin_trans a b c : twin a b -> twin b c -> twin a c.
Proof. intros [F1 I1] [F2 I2]. split; [congruence | eapply imp_twin_trans; eassumption]. Qed.

(* ---- one query leads to a twin ------------------------------------------------------------------------- *)
Lemma cf_query_twin (m : mab) (s : cf) (o : @op R A) :
  rng_lengths_ok RG -> m_imp m = ICf s -> keys_ok s -> is_query o -> twin m (fst (step N aeqb RG m o)).
Proof.
  intros Hrng Es Hk Hq.
  pose proof Hk as (_ & He & _).
  assert (Hsame : twin m m) by (split; [reflexivity | apply imp_twin_refl]).
  assert (Hmain : forall g mm, let '(_, s', _) := cf_predict_exp N aeqb RG s g mm in
            (c_kind s <> KThompson -> s' = s) /\ s' = set_exp s (c_exp s') /\ akeys (c_exp s') = c_arms s).
  { intros g mm. pose proof (cf_predict_exp_ok N aeqb RG s g mm Hrng Hk) as Hok.
    unfold cf_predict_exp in *. destruct (c_kind s) eqn:Ek;
      repeat match goal with
             | |- context [draw_r RG ?g ?r] => destruct (draw_r RG g r)
             | |- context [draw_scalars N RG ?g ?n] => destruct (draw_scalars N RG g n)
             | |- context [draw_betas N aeqb RG ?g ?a ?b ?c] => destruct (draw_betas N aeqb RG g a b c)
             | |- context [if ?b then _ else _] => destruct b
             end; try (repeat split; auto; destruct s; reflexivity).
    destruct Hok as (_ & _ & (_ & He' & _) & _). simpl in *.
    split; [intros H; congruence|]. split; [reflexivity | exact He']. }
  destruct o as [ds rs cx orc | ds rs cx orc | a bz | a | keys raw q | cx orc | cx orc]; simpl in Hq; try contradiction; unfold step;
    (destruct (negb (m_fitted m)); [exact Hsame|]);
    (destruct (negb (predict_args_ok m cx)); [exact Hsame|]);
    unfold imp_query; rewrite Es; unfold cf_predict;
    specialize (Hmain (m_rng m) (ctx_len cx));
    destruct (cf_predict_exp N aeqb RG s (m_rng m) (ctx_len cx)) as [[e s'] g']; simpl;
    destruct Hmain as (H1 & H2 & H3); (split; [reflexivity|]); simpl; rewrite Es; simpl;
    exists s'; (split; [reflexivity|]); (split; [exact H2|]); (split; [congruence | exact H1]).
Qed.

Lemma lin_query_twin (m : mab) (s : lin) (o : @op R A) :
  m_imp m = ILin s -> lin_keys_ok s -> is_query o -> twin m (fst (step N aeqb RG m o)).
Proof.
  intros Es (Hn & He & Hst & Hm) Hq.
  assert (Hsame : twin m m) by (split; [reflexivity | apply imp_twin_refl]).
  assert (Hmain : forall cx orc p, let '(r, i', g') := imp_query N aeqb RG (ILin s) (m_rng m) cx orc p in imp_twin (ILin s) i').
  { intros cx orc p. unfold imp_query, lin_expectations.
    destruct (draw_r RG (m_rng m) (RqRand [length (octx cx)])) as [rv g1].
    destruct (draw_r RG g1 _) as [rnd g2].
    match goal with |- context [predict_arms N aeqb RG s (l_models s) (l_arms s) g2 ?X] =>
      pose proof (predict_arms_eq N aeqb RG aeqb_spec s (l_arms s) (l_models s) g2 X) as Hp;
      destruct (predict_arms N aeqb RG s (l_models s) (l_arms s) g2 X) as [[percol ms'] g3] end.
    destruct Hp as [P1 P2]; [intros a Ha; rewrite Hm; exact Ha|].
    simpl. eexists; split; [reflexivity|]. simpl. split; [reflexivity | exact P1]. }
  destruct o as [ds rs cx orc | ds rs cx orc | a bz | a | keys raw q | cx orc | cx orc]; simpl in Hq; try contradiction; unfold step;
    (destruct (negb (m_fitted m)); [exact Hsame|]); (destruct (negb (predict_args_ok m cx)); [exact Hsame|]); rewrite Es.
  - specialize (Hmain cx orc true). destruct (imp_query N aeqb RG (ILin s) (m_rng m) cx orc true) as [[r i'] g'].
    destruct r; (split; [reflexivity|]); simpl; rewrite Es; exact Hmain.
  - specialize (Hmain cx orc false). destruct (imp_query N aeqb RG (ILin s) (m_rng m) cx orc false) as [[r i'] g'].
    destruct r; (split; [reflexivity|]); simpl; rewrite Es; exact Hmain.
Qed.

Theorem query_twin (m : mab) (o : @op R A) :
  rng_lengths_ok RG -> imp_inv (m_imp m) -> is_query o -> twin m (fst (step N aeqb RG m o)).
Proof.
  intros Hrng Hinv Hq. destruct (m_imp m) as [s|s|s|s|s] eqn:Ei; simpl in Hinv.
  - eapply cf_query_twin; eassumption.
  - eapply lin_query_twin; eassumption.
  - destruct o as [ds rs cx orc | ds rs cx orc | a bz | a | keys raw q | cx orc | cx orc]; simpl in Hq; try contradiction.
    + destruct (query_keeps_neighbourhood_state N aeqb RG m cx orc true) as [E1 E2]; [rewrite Ei; exact I|].
      split; [exact E2 | rewrite E1, Ei; reflexivity].
    + destruct (query_keeps_neighbourhood_state N aeqb RG m cx orc false) as [E1 E2]; [rewrite Ei; exact I|].
      split; [exact E2 | rewrite E1, Ei; reflexivity].
  - destruct o as [ds rs cx orc | ds rs cx orc | a bz | a | keys raw q | cx orc | cx orc]; simpl in Hq; try contradiction.
    + destruct (query_keeps_neighbourhood_state N aeqb RG m cx orc true) as [E1 E2]; [rewrite Ei; exact I|].
      split; [exact E2 | rewrite E1, Ei; reflexivity].
    + destruct (query_keeps_neighbourhood_state N aeqb RG m cx orc false) as [E1 E2]; [rewrite Ei; exact I|].
      split; [exact E2 | rewrite E1, Ei; reflexivity].
  - destruct o as [ds rs cx orc | ds rs cx orc | a bz | a | keys raw q | cx orc | cx orc]; simpl in Hq; try contradiction.
    + destruct (query_keeps_neighbourhood_state N aeqb RG m cx orc true) as [E1 E2]; [rewrite Ei; exact I|].
      split; [exact E2 | rewrite E1, Ei; reflexivity].
    + destruct (query_keeps_neighbourhood_state N aeqb RG m cx orc false) as [E1 E2]; [rewrite Ei; exact I|].
      split; [exact E2 | rewrite E1, Ei; reflexivity].
Qed.

(* any number of queries, of any sizes, with any oracles: the state reached is a twin of the state before *)
Theorem queries_twin (qs : list (@op R A)) (m : mab) :
  rng_lengths_ok RG -> imp_inv (m_imp m) -> Forall is_query qs -> twin m (fst (run N aeqb RG m qs)).
Proof.
  intros Hrng. revert m. induction qs as [|q t IH]; intros m Hinv Hq; simpl.
  - split; [reflexivity | apply imp_twin_refl].
  - inversion Hq as [|? ? Hq1 Hqt]; subst.
    pose proof (query_twin m q Hrng Hinv Hq1) as H1.
    pose proof (step_preserves_imp_inv N aeqb RG aeqb_spec m q Hrng Hinv) as Hinv1.
    destruct (step N aeqb RG m q) as [m1 r1]. simpl in *.
    specialize (IH m1 Hinv1 Hqt).
    destruct (run N aeqb RG m1 t) as [m2 rs]. simpl in *.
    eapply twin_trans; eassumption.
Qed.

(* ---- copying the stream positions across -------------------------------------------------------------------- *)
Definition ridge_copy_rng (src dst : ridge) : ridge :=
  mkRidge (r_beta dst) (r_A dst) (r_Ainv dst) (r_Xty dst) (r_scaler dst) (r_rng src).
Definition models_copy_rng (src dst : list (A * ridge)) : list (A * ridge) :=
  map (fun p => (fst (snd p), ridge_copy_rng (snd (fst p)) (snd (snd p)))) (combine src dst).
Definition imp_copy_streams (src dst : imp) : imp :=
  match src, dst with
  | ILin s0, ILin s' => ILin (set_models s' (models_copy_rng (l_models s0) (l_models s')))
  | _, _ => dst
  end.
Definition copy_streams (src dst : mab) : mab := mkMab (imp_copy_streams (m_imp src) (m_imp dst)) (m_fitted dst) (m_rng src).

Lemma models_copy_eq (ms ms' : list (A * ridge)) : models_eq_mod_rng ms ms' -> models_copy_rng ms ms' = ms.
Proof.
  unfold models_eq_mod_rng, models_copy_rng. induction 1 as [|[a r] [a' r'] t t' [Hk Hr] Ht IH]; [reflexivity|].
  cbn [combine map fst snd] in *. rewrite IH. f_equal. subst a'. f_equal.
  unfold ridge_eq_mod_rng in Hr. destruct r, r'; cbn in *. destruct Hr as (-> & -> & -> & -> & ->). reflexivity.
Qed.

(* a twin with the streams copied across answers every continuation like the original *)
Theorem twin_run (m m' : mab) (ops : list (@op R A)) :
  twin m m' -> snd (run N aeqb RG (copy_streams m m') ops) = snd (run N aeqb RG m ops).
Proof.
  intros [Hf Hi]. unfold copy_streams. destruct m as [i f g]; destruct m' as [i' f' g']; cbn [m_imp m_fitted m_rng] in *. subst f'.
  destruct i as [s|s|s|s|s]; cbn [imp_twin] in Hi.
  - destruct Hi as (s' & -> & E & K & Q). cbn [imp_copy_streams].
    assert (Hd : c_kind s = KThompson \/ c_kind s <> KThompson) by (destruct (c_kind s); (left; reflexivity) || (right; discriminate)).
    destruct Hd as [Hk|Hk].
    + symmetry. apply run_sim. apply msim_intro; [reflexivity | reflexivity|].
      unfold exp_sim. repeat split; assumption.
    + rewrite (Q Hk). reflexivity.
  - destruct Hi as (s' & -> & E & M). cbn [imp_copy_streams].
    rewrite (models_copy_eq _ _ M). rewrite E. cbn. destruct s; reflexivity.
  - subst i'. reflexivity.
  - subst i'. reflexivity.
  - subst i'. reflexivity.
Qed.

(* C10, every policy combination: after any number of queries, with the stream positions copied across, the bandit
   answers every later sequence of calls exactly like the bandit that was never queried *)
Theorem queried_bandit_is_indistinguishable (m : mab) (qs ops : list (@op R A)) :
  rng_lengths_ok RG -> imp_inv (m_imp m) -> Forall is_query qs ->
  snd (run N aeqb RG (copy_streams m (fst (run N aeqb RG m qs))) ops) = snd (run N aeqb RG m ops).
Proof. intros Hrng Hinv Hq. apply twin_run. apply queries_twin; assumption. Qed.

(* for every implementation except the linear ones, "copying the streams" is just copying the bandit's generator *)
Lemma copy_streams_not_linear (m m' : mab) :
  (forall s, m_imp m <> ILin s) -> copy_streams m m' = mkMab (m_imp m') (m_fitted m') (m_rng m).
Proof. intros H. unfold copy_streams. destruct (m_imp m) eqn:E; try reflexivity. exfalso; eapply H; reflexivity. Qed.

End C10Twin.
