(* LinPDFacade.v — LinPD.v at the facade: the invariant holds in every state a history of facade calls reaches (training calls
   carrying rectangular context arrays - every numpy 2-D array is), and a rejected fit / partial_fit of a linear bandit with
   l2_lambda > 0 leaves the bandit Leibniz-equal to what it was. *)
From Coq Require Import ZArith List Bool Arith Lia.
From MW Require Import Num NumLaws Assoc AssocFacts Rng Par CF CFInv Matrix MatrixFacts GaussJordan Lin LinInv Warm WarmInv Nbr Clu Tree Mab C17Lin LinPD.
Import ListNotations.

Section LinPDFacade.
Context {R A G : Type} (N : Num R) (L : NumLaws N) (aeqb : A -> A -> bool) (RG : RngOps R G).
Hypothesis aeqb_spec : forall x y, aeqb x y = true <-> x = y.
Notation lin := (@lin R A G).
Notation mab := (@mab R A G).
Notation op := (@op R A).

Definition rect (cx : option (@ctxs R)) : Prop := uniform_width (ncols (octx cx)) (octx cx).
Definition op_rect (o : op) : Prop := match o with Fit _ _ cx _ | PartialFit _ _ cx _ => rect cx | _ => True end.

Definition lin_inv (fitted : bool) (s : lin) : Prop :=
  lin_keys_ok s /\ lin_pd N s /\ ltb N (zero N) (l_l2 s) = true /\ (fitted = true -> l_nf s <> None).

Definition lin_mab_inv (m : mab) : Prop := match m_imp m with ILin s => lin_inv (m_fitted m) s | _ => True end.

Lemma shape_ok_width (s : lin) ds cx d : l_nf s = Some d -> rect cx ->
  train_shape_ok (ILin s) true ds cx = true -> uniform_width d (octx cx).
Proof.
  intros Hnf Hr. cbn [train_shape_ok]. rewrite Hnf. unfold rect in Hr. destruct (octx cx) as [|r t] eqn:E; [intros _; constructor|].
  intros H. apply Nat.eqb_eq in H. rewrite H. exact Hr.
Qed.

(* training a reachable linear bandit on a rectangular array never raises *)
Lemma imp_fit_lin (m : mab) (s : lin) ds rs cx orc : lin_inv (m_fitted m) s -> rect cx ->
  exists s', imp_fit N aeqb RG (ILin s) (m_rng m) ds rs cx orc = (ILin s', m_rng m, true) /\ lin_inv true s'.
Proof.
  intros (Hk & [Hsc Hp] & Hl & Hf) Hr. cbn [imp_fit].
  destruct (lin_fit_never_fails N L aeqb aeqb_spec s (m_rng m) ds rs (octx cx) Hl Hk Hsc Hr) as (O & P & Nf & L2).
  pose proof (lin_fit_keys_ok N aeqb aeqb_spec s (m_rng m) ds rs (octx cx) Hk) as K.
  destruct (lin_fit N aeqb s (m_rng m) ds rs (octx cx)) as [s' ok]. cbn [fst snd] in *. subst ok.
  exists s'. split; [reflexivity|]. split; [exact K|]. split; [exact P|]. split; [rewrite L2; exact Hl|]. intros _. rewrite Nf. discriminate.
Qed.

Lemma imp_partial_fit_lin (m : mab) (s : lin) ds rs cx orc : lin_inv true s -> rect cx -> train_shape_ok (ILin s) true ds cx = true ->
  exists s', imp_partial_fit N aeqb (ILin s) (m_rng m) ds rs cx orc = (ILin s', m_rng m, true) /\ lin_inv true s'.
Proof.
  intros (Hk & Hp & Hl & Hf) Hr Hs. cbn [imp_partial_fit].
  destruct (l_nf s) as [d|] eqn:Hnf; [|exfalso; apply (Hf eq_refl); reflexivity].
  pose proof (shape_ok_width s ds cx d Hnf Hr Hs) as Hw.
  destruct (lin_partial_fit_never_fails N L aeqb aeqb_spec s (m_rng m) ds rs (octx cx) d Hl Hk Hp Hnf Hw) as (O & P & Nf & L2).
  pose proof (lin_partial_fit_keys_ok N aeqb aeqb_spec s (m_rng m) ds rs (octx cx) Hk) as K.
  destruct (lin_partial_fit N aeqb s (m_rng m) ds rs (octx cx)) as [s' ok]. cbn [fst snd] in *. subst ok.
  exists s'. split; [reflexivity|]. split; [exact K|]. split; [exact P|]. split; [rewrite L2; exact Hl|]. intros _. rewrite Nf. discriminate.
Qed.

(* C17 *)
Theorem rejected_linear_training_call_changes_nothing (m : mab) (s : lin) ds rs cx orc :
  m_imp m = ILin s -> lin_mab_inv m -> rect cx ->
  (snd (step N aeqb RG m (Fit ds rs cx orc)) = ORejected -> fst (step N aeqb RG m (Fit ds rs cx orc)) = m) /\
  (snd (step N aeqb RG m (PartialFit ds rs cx orc)) = ORejected -> fst (step N aeqb RG m (PartialFit ds rs cx orc)) = m).
Proof.
  intros Ei Hinv Hr. unfold lin_mab_inv in Hinv. rewrite Ei in Hinv. split; cbn [step]; rewrite Ei.
  - destruct (fit_args_ok N m ds rs cx); [|reflexivity]. destruct (negb _); [reflexivity|].
    destruct (imp_fit_lin m s ds rs cx orc Hinv Hr) as (s' & E & _). rewrite E. discriminate.
  - destruct (fit_args_ok N m ds rs cx); [|reflexivity]. destruct (negb (train_shape_ok (ILin s) (m_fitted m) ds cx)) eqn:Sh; [reflexivity|].
    destruct (m_fitted m) eqn:Hf.
    + apply negb_false_iff in Sh. destruct (imp_partial_fit_lin m s ds rs cx orc Hinv Hr Sh) as (s' & E & _). rewrite E. discriminate.
    + destruct (imp_fit_lin m s ds rs cx orc ltac:(rewrite Hf; exact Hinv) Hr) as (s' & E & _). rewrite E. discriminate.
Qed.


Lemma lin_expectations_keys (s : lin) g (cx : mat (R:=R)) : lin_keys_ok s ->
  lin_keys_ok (snd (fst (lin_expectations N aeqb RG s g cx))) /\
  snd (fst (lin_expectations N aeqb RG s g cx)) = set_models s (l_models (snd (fst (lin_expectations N aeqb RG s g cx)))).
Proof.
  intros Hk. pose proof Hk as (Hn & He & Hst & Hm). unfold lin_expectations.
  destruct (draw_r RG g _) as [rv g1]. destruct (draw_r RG g1 _) as [rnd g2].
  match goal with |- context [predict_arms N aeqb RG s (l_models s) (l_arms s) g2 ?X] =>
    pose proof (predict_arms_keys N aeqb RG aeqb_spec s (l_arms s) (l_models s) g2 X) as Hp;
    destruct (predict_arms N aeqb RG s (l_models s) (l_arms s) g2 X) as [[percol ms'] g3] end.
  destruct Hp as [Hk' _]; [intros a Ha; rewrite Hm; exact Ha|]. cbn [fst snd]. split; [|reflexivity].
  unfold lin_keys_ok. cbn [set_models l_arms l_exp l_status l_models]. repeat split; auto. rewrite Hk'. exact Hm.
Qed.

(* ---- the invariant on every history ---------------------------------------------------------------------------- *)
Theorem step_preserves_lin_inv (m : mab) (s : lin) (o : op) : op_rect o -> m_imp m = ILin s -> lin_inv (m_fitted m) s ->
  exists s', m_imp (fst (step N aeqb RG m o)) = ILin s' /\ lin_inv (m_fitted (fst (step N aeqb RG m o))) s'.
Proof.
  intros Hr Ei Hinv.
  assert (Keep : exists s', m_imp m = ILin s' /\ lin_inv (m_fitted m) s') by (exists s; split; assumption).
  destruct o as [ds rs cx orc | ds rs cx orc | a bz | a | keys raw q | cx orc | cx orc]; cbn [step op_rect] in *.
  - destruct (fit_args_ok N m ds rs cx); [|exact Keep]. rewrite Ei. destruct (negb _); [cbn [fst]; exact Keep|].
    destruct (imp_fit_lin m s ds rs cx orc Hinv Hr) as (s' & E & I'). rewrite E. cbn [fst m_imp m_fitted]. exists s'. split; [reflexivity | exact I'].
  - destruct (fit_args_ok N m ds rs cx); [|exact Keep]. rewrite Ei. destruct (negb (train_shape_ok (ILin s) (m_fitted m) ds cx)) eqn:Sh; [cbn [fst]; exact Keep|].
    destruct (m_fitted m) eqn:Hf.
    + apply negb_false_iff in Sh. destruct (imp_partial_fit_lin m s ds rs cx orc Hinv Hr Sh) as (s' & E & I'). rewrite E.
      cbn [fst m_imp m_fitted]. exists s'. split; [reflexivity | exact I'].
    + destruct (imp_fit_lin m s ds rs cx orc ltac:(rewrite Hf; exact Hinv) Hr) as (s' & E & I'). rewrite E.
      cbn [fst m_imp m_fitted]. exists s'. split; [reflexivity | exact I'].
  - destruct (match bz with Some _ => negb (binz_allowed (m_imp m)) | None => false end); [exact Keep|].
    destruct (amem aeqb a (m_arms m)) eqn:Em; [exact Keep|]. cbn [fst m_imp m_fitted]. rewrite Ei. cbn [imp_add_arm].
    exists (lin_add_arm N aeqb s a). split; [reflexivity|]. destruct Hinv as (Hk & Hp & Hl & Hf).
    apply (amem_false aeqb aeqb_spec) in Em. unfold m_arms in Em. rewrite Ei in Em. cbn [imp_arms] in Em.
    split; [apply (lin_add_arm_keys_ok N aeqb aeqb_spec); assumption|]. split; [apply lin_add_arm_pd; exact Hp|]. split; [exact Hl|].
    intros F. specialize (Hf F). unfold lin_add_arm. cbn [l_nf]. exact Hf.
  - destruct (amem aeqb a (m_arms m)); [|exact Keep]. cbn [fst m_imp m_fitted]. rewrite Ei. cbn [imp_remove_arm].
    exists (lin_remove_arm aeqb s a). split; [reflexivity|]. destruct Hinv as (Hk & Hp & Hl & Hf).
    split; [apply (lin_remove_arm_keys_ok aeqb); exact Hk|]. split; [apply lin_remove_arm_pd; exact Hp|]. split; [exact Hl|]. exact Hf.
  - destruct (negb _); [exact Keep|]. destruct (negb _); [exact Keep|]. rewrite Ei.
    destruct (lin_warm_start N aeqb s (m_rng m) keys raw q) as [s'|] eqn:Ew; [|exact Keep]. cbn [fst m_imp m_fitted].
    exists s'. split; [reflexivity|]. destruct Hinv as (Hk & Hp & Hl & Hf).
    split; [apply (lin_warm_start_keys_ok N aeqb aeqb_spec s s' (m_rng m) keys raw q Hk Ew)|].
    split; [apply (lin_warm_start_pd N aeqb aeqb_spec s s' (m_rng m) keys raw q Hk Hp Ew)|].
    unfold lin_warm_start in Ew. destruct (distance_threshold N _ q) as [thr|]; [|discriminate]. injection Ew as <-.
    assert (Hcfg : forall (l : list (A * A)) (t : lin), l_l2 (fold_left (lin_mark_warm aeqb) l t) = l_l2 t /\ l_nf (fold_left (lin_mark_warm aeqb) l t) = l_nf t).
    { induction l as [|[c w] l IH]; intros t; cbn [fold_left]; [split; reflexivity|]. destruct (IH (lin_mark_warm aeqb t (c, w))) as [A1 A2]. rewrite A1, A2. split; reflexivity. }
    assert (Hcfg2 : forall (l : list (A * A)) (t : lin), l_l2 (fold_left (lin_copy_arm aeqb (m_rng m)) l t) = l_l2 t /\ l_nf (fold_left (lin_copy_arm aeqb (m_rng m)) l t) = l_nf t).
    { induction l as [|[c w] l IH]; intros t; cbn [fold_left]; [split; reflexivity|]. destruct (IH (lin_copy_arm aeqb (m_rng m) t (c, w))) as [A1 A2]. rewrite A1, A2. split; reflexivity. }
    match goal with |- ltb N (zero N) (l_l2 (fold_left _ ?l (fold_left _ ?l2 s))) = true /\ _ =>
      destruct (Hcfg l (fold_left (lin_copy_arm aeqb (m_rng m)) l2 s)) as [B1 B2]; destruct (Hcfg2 l2 s) as [C1 C2] end.
    rewrite B1, B2, C1, C2. split; [exact Hl | exact Hf].
  - destruct (negb (m_fitted m)); [exact Keep|]. destruct (negb (predict_args_ok m cx)); [exact Keep|]. rewrite Ei. cbn [imp_query].
    destruct Hinv as (Hk & Hp & Hl & Hf).
    pose proof (lin_expectations_pd N aeqb RG aeqb_spec s (m_rng m) (octx cx) Hk Hp) as P'.
    destruct (lin_expectations_keys s (m_rng m) (octx cx) Hk) as [K' Es].
    destruct (lin_expectations N aeqb RG s (m_rng m) (octx cx)) as [[e s'] g']. cbn [fst snd m_imp m_fitted] in *.
    exists s'. split; [reflexivity|].
    split; [exact K'|]. split; [exact P'|]. rewrite Es. cbn [set_models l_l2 l_nf]. split; [exact Hl | exact Hf].
  - destruct (negb (m_fitted m)); [exact Keep|]. destruct (negb (predict_args_ok m cx)); [exact Keep|]. rewrite Ei. cbn [imp_query].
    destruct Hinv as (Hk & Hp & Hl & Hf).
    pose proof (lin_expectations_pd N aeqb RG aeqb_spec s (m_rng m) (octx cx) Hk Hp) as P'.
    destruct (lin_expectations_keys s (m_rng m) (octx cx) Hk) as [K' Es].
    destruct (lin_expectations N aeqb RG s (m_rng m) (octx cx)) as [[e s'] g']. cbn [fst snd m_imp m_fitted] in *.
    exists s'. split; [reflexivity|].
    split; [exact K'|]. split; [exact P'|]. rewrite Es. cbn [set_models l_l2 l_nf]. split; [exact Hl | exact Hf].
Qed.

Theorem run_preserves_lin_inv (ops : list op) : forall (m : mab) (s : lin), Forall op_rect ops -> m_imp m = ILin s -> lin_inv (m_fitted m) s ->
  lin_mab_inv (state_after N aeqb RG m ops).
Proof.
  induction ops as [|o t IH]; intros m s Hr Ei Hinv; unfold state_after; cbn [run].
  - cbn [fst]. unfold lin_mab_inv. rewrite Ei. exact Hinv.
  - inversion Hr as [|? ? Ho Ht]; subst. destruct (step_preserves_lin_inv m s o Ho Ei Hinv) as (s' & E' & I').
    destruct (step N aeqb RG m o) as [m1 r] eqn:Es. cbn [fst] in *. specialize (IH m1 s' Ht E' I'). unfold state_after in IH.
    destruct (run N aeqb RG m1 t) as [m2 rs]. cbn [fst] in *. exact IH.
Qed.

(* a freshly constructed linear bandit with l2_lambda > 0 and scale = False satisfies the invariant *)
Lemma constructed_linear_bandit_inv (m : mab) k alpha eps l2 kf arms :
  NoDup arms -> ltb N (zero N) l2 = true -> m_imp m = ILin (lin_init N k alpha eps l2 false kf arms) -> m_fitted m = false -> lin_mab_inv m.
Proof.
  intros Hn Hl Ei Hf. unfold lin_mab_inv. rewrite Ei. split; [apply lin_keys_ok_init; exact Hn|]. split; [split; [reflexivity | exact I]|].
  split; [exact Hl|]. rewrite Hf. discriminate.
Qed.

End LinPDFacade.
