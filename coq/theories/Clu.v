(* Clu.v — clusters.py (_Clusters).  k-means is an oracle: [labels] are kmeans.labels_ after
   kmeans.fit(stored contexts), [assign] are kmeans.predict(query rows). *)
From Coq Require Import ZArith List Bool.
From MW Require Import Num Assoc Rng Par CF Matrix Lin Nbr.
Import ListNotations.

Section Clu.
Context {R A G : Type} (N : Num R) (aeqb : A -> A -> bool) (RG : RngOps R G).

Record clu := mkClu {
  k_n : nat;                               (* n_clusters *)
  k_arms : list A;
  k_lps : list (@lp R A G);                (* lp_list *)
  k_exp : list (A * option R);             (* arm_to_expectation (NaN; never read) *)
  k_ds : list A; k_rs : list R; k_cx : mat (R:=R)
}.

Definition clu_init (n : nat) (arms : list A) (l : @lp R A G) : clu :=
  mkClu n arms (repeat l n) (afromkeys arms None) [] [] [].

Definition rows_with_label {T} (labels : list nat) (c : nat) (l : list T) : list T :=
  map snd (filter (fun lt => Nat.eqb (fst lt) c) (combine labels l)).

(* _fit_operation *)
Definition clu_refit (s : clu) (g : G) (labels : list nat) : clu * bool :=
  let res := map (fun cl => let '(c, l) := (cl : nat * @lp R A G) in
                   lp_fit N aeqb l g (rows_with_label labels c (k_ds s)) (rows_with_label labels c (k_rs s))
                                      (rows_with_label labels c (k_cx s)))
                 (combine (seq 0 (k_n s)) (k_lps s)) in
  (mkClu (k_n s) (k_arms s) (map fst res) (k_exp s) (k_ds s) (k_rs s) (k_cx s), forallb snd res).

Definition clu_binarize (s : clu) (ds : list A) (rs : list R) : list (@lp R A G) * list R :=
  match k_lps s with
  | [] => ([], rs)
  | l0 :: _ =>
      if lp_is_ts_binz l0
      then (map (fun l => fst (lp_binarize l ds rs)) (k_lps s), snd (lp_binarize l0 ds rs))
      else (k_lps s, rs)
  end.

Definition clu_fit (s : clu) (g : G) ds rs (cx : mat (R:=R)) (labels : list nat) : clu * bool :=
  let (lps, rs') := clu_binarize s ds rs in
  clu_refit (mkClu (k_n s) (k_arms s) lps (k_exp s) ds rs' cx) g labels.

Definition clu_partial_fit (s : clu) (g : G) ds rs (cx : mat (R:=R)) (labels : list nat) : clu * bool :=
  let (lps, rs') := clu_binarize s ds rs in
  clu_refit (mkClu (k_n s) (k_arms s) lps (k_exp s) (k_ds s ++ ds) (k_rs s ++ rs') (k_cx s ++ cx)) g labels.

Definition clu_add_arm (s : clu) (a : A) bz : clu :=
  mkClu (k_n s) (k_arms s ++ [a]) (map (fun l => lp_add_arm N aeqb l a bz) (k_lps s))
        (aset aeqb (k_exp s) a (Some (zero N))) (k_ds s) (k_rs s) (k_cx s).
Definition clu_remove_arm (s : clu) (a : A) : clu :=
  mkClu (k_n s) (lremove aeqb (k_arms s) a) (map (fun l => lp_remove_arm N aeqb l a) (k_lps s))
        (apop aeqb (k_exp s) a) (k_ds s) (k_rs s) (k_cx s).

Fixpoint set_nth {T} (l : list T) (i : nat) (x : T) : list T :=
  match l, i with
  | [], _ => []
  | _ :: t, O => x :: t
  | h :: t, S j => h :: set_nth t j x
  end.

(* the rows of one chunk; lps is the chunk's deep copy of lp_list *)
Fixpoint clu_rows (lps : list (@lp R A G)) (seeds : list Z) (rows : mat (R:=R)) (assign : list nat) (is_predict : bool)
  : list (option A + list (A * option R)) :=
  match seeds, rows, assign with
  | sd :: seeds', row :: rows', c :: assign' =>
      match nth_error lps c with
      | None => []
      | Some l =>
          let '(e, l', _) := lp_expectations1 N aeqb RG l (create RG sd) row in
          (if is_predict then inl (argmax_first N e) else inr (map (fun kv => (fst kv, Some (snd kv))) e))
          :: clu_rows (set_nth lps c l') seeds' rows' assign' is_predict
      end
  | _, _, _ => []
  end.

Definition clu_predict (s : clu) (g : G) (cx : mat (R:=R)) (assign : list nat) (sizes : list nat) (is_predict : bool)
  : list (option A + list (A * option R)) * G :=
  let (seeds, g1) := draw_z RG g (RqRandint 2147483647 (length cx)) in
  let parts := combine (combine (chunks sizes seeds) (chunks sizes cx)) (chunks sizes assign) in
  (flat_map (fun p => let '(sd, rows, asg) := (p : list Z * mat (R:=R) * list nat) in
                      clu_rows (k_lps s) sd rows asg is_predict) parts, g1).

End Clu.
