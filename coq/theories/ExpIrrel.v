(* ExpIrrel.v — Thompson Sampling stores a copy of its last drawn sample in arm_to_expectation and never reads
   it: two Thompson bandits that differ only in those stored values (same keys) return the same results under
   EVERY sequence of calls, and stay in that relation.  This closes C10 ("indistinguishable under every later
   sequence of calls") and C07 (fit on a used bandit vs on a fresh one) for Thompson Sampling. *)
From Coq Require Import ZArith List Bool Lia.
From MW Require Import Num Assoc AssocFacts Rng Par CF CFInv CFClean CFForget Matrix Lin Warm WarmInv Nbr Clu Tree Mab FacadeCF.
Import ListNotations.

Section ExpIrrel.
Context {R A G : Type} (N : Num R) (aeqb : A -> A -> bool) (RG : RngOps R G).
Hypothesis aeqb_spec : forall x y, aeqb x y = true <-> x = y.
Notation cf := (@cf R A).

(* s' is s with other values (same keys, same order) in arm_to_expectation *)
Definition exp_sim (s s' : cf) : Prop :=
  c_kind s = KThompson /\ s' = set_exp s (c_exp s') /\ akeys (c_exp s') = akeys (c_exp s).

Lemma exp_sim_kind s s' : exp_sim s s' -> c_kind s' = KThompson.
Proof. intros (Ek & E & _). rewrite E. simpl. exact Ek. Qed.

Lemma set_exp_set_exp (s : cf) e1 e2 : set_exp (set_exp s e1) e2 = set_exp s e2.
Proof. reflexivity. Qed.

Lemma ts_fit_exp (s : cf) e ds rs : c_kind s = KThompson ->
  cf_fit N aeqb (set_exp s e) ds rs = set_exp (cf_fit N aeqb s ds rs) e.
Proof.
  intros Ek. unfold cf_fit. simpl. rewrite Ek.
  replace (binarize (set_exp s e) ds rs) with (binarize s ds rs) by reflexivity.
  replace (reset_status (reset_counts_ts N (set_exp s e))) with (set_exp (reset_status (reset_counts_ts N s)) e) by reflexivity.
  rewrite (ts_parallel_fit_exp N aeqb) by (left; exact Ek). reflexivity.
Qed.

Lemma ts_partial_fit_exp (s : cf) e ds rs : c_kind s = KThompson ->
  cf_partial_fit N aeqb (set_exp s e) ds rs = set_exp (cf_partial_fit N aeqb s ds rs) e.
Proof.
  intros Ek. unfold cf_partial_fit. simpl. rewrite Ek.
  replace (binarize (set_exp s e) ds rs) with (binarize s ds rs) by reflexivity.
  rewrite (ts_parallel_fit_exp N aeqb) by (left; exact Ek). reflexivity.
Qed.

Lemma akeys_aset_keys {V} (d d' : list (A * V)) k v v' : akeys d = akeys d' -> akeys (aset aeqb d k v) = akeys (aset aeqb d' k v').
Proof.
  revert d'. induction d as [|[k1 v1] t IH]; intros [|[k2 v2] t'] H; simpl in *; try discriminate; [reflexivity|].
  injection H as -> H. destruct (aeqb k k2); simpl; [congruence | f_equal; apply IH; exact H].
Qed.
Lemma akeys_apop_keys {V} (d d' : list (A * V)) k : akeys d = akeys d' -> akeys (apop aeqb d k) = akeys (apop aeqb d' k).
Proof.
  revert d'. induction d as [|[k1 v1] t IH]; intros [|[k2 v2] t'] H; simpl in *; try discriminate; [reflexivity|].
  injection H as -> H. destruct (aeqb k k2); simpl; [exact H | f_equal; apply IH; exact H].
Qed.

(* every policy-level operation preserves the relation *)
Lemma ts_fit_keeps_exp (x : cf) ds rs : c_kind x = KThompson -> c_exp (cf_fit N aeqb x ds rs) = c_exp x.
Proof.
  intros Ex. assert (Hy : x = set_exp x (c_exp x)) by (destruct x; reflexivity).
  rewrite Hy at 1. rewrite ts_fit_exp by exact Ex. reflexivity.
Qed.
Lemma ts_partial_fit_keeps_exp (x : cf) ds rs : c_kind x = KThompson -> c_exp (cf_partial_fit N aeqb x ds rs) = c_exp x.
Proof.
  intros Ex. assert (Hy : x = set_exp x (c_exp x)) by (destruct x; reflexivity).
  rewrite Hy at 1. rewrite ts_partial_fit_exp by exact Ex. reflexivity.
Qed.

Lemma exp_sim_fit s s' ds rs : exp_sim s s' -> exp_sim (cf_fit N aeqb s ds rs) (cf_fit N aeqb s' ds rs).
Proof.
  intros (Ek & E & Hk). rewrite E. rewrite ts_fit_exp by exact Ek.
  unfold exp_sim. split; [rewrite (proj1 (cf_fit_cfg N aeqb s ds rs)); exact Ek|].
  split; [reflexivity|]. simpl. rewrite Hk. rewrite (ts_fit_keeps_exp s ds rs Ek). reflexivity.
Qed.

Lemma exp_sim_partial_fit s s' ds rs : exp_sim s s' -> exp_sim (cf_partial_fit N aeqb s ds rs) (cf_partial_fit N aeqb s' ds rs).
Proof.
  intros (Ek & E & Hk). rewrite E. rewrite ts_partial_fit_exp by exact Ek.
  unfold exp_sim. split; [rewrite (proj1 (cf_partial_fit_cfg N aeqb s ds rs)); exact Ek|].
  split; [reflexivity|]. simpl. rewrite Hk. rewrite (ts_partial_fit_keeps_exp s ds rs Ek). reflexivity.
Qed.

Lemma exp_sim_add s s' a bz : exp_sim s s' -> exp_sim (cf_add_arm N aeqb s a bz) (cf_add_arm N aeqb s' a bz).
Proof.
  intros (Ek & E & Hk). rewrite E. unfold cf_add_arm, exp_sim. simpl. rewrite Ek.
  destruct bz; simpl; repeat split; auto; apply akeys_aset_keys; exact Hk.
Qed.

Lemma exp_sim_remove s s' a : exp_sim s s' -> exp_sim (cf_remove_arm N aeqb s a) (cf_remove_arm N aeqb s' a).
Proof.
  intros (Ek & E & Hk). rewrite E. unfold cf_remove_arm, exp_sim. simpl. rewrite Ek. simpl.
  repeat split; auto. apply akeys_apop_keys; exact Hk.
Qed.

Lemma exp_sim_warm s s' keys raw q :
  exp_sim s s' ->
  match cf_warm_start N aeqb s keys raw q, cf_warm_start N aeqb s' keys raw q with
  | Some t, Some t' => exp_sim t t'
  | None, None => True
  | _, _ => False
  end.
Proof.
  intros (Ek & E & Hk). rewrite E. unfold cf_warm_start. simpl. rewrite Ek.
  destruct (distance_threshold N (distance_table N aeqb keys raw) q) as [thr|]; [|exact I].
  replace (cold_to_warm N aeqb (set_exp s (c_exp s')) (distance_table N aeqb keys raw) thr)
    with (cold_to_warm N aeqb s (distance_table N aeqb keys raw) thr) by reflexivity.
  set (m := cold_to_warm N aeqb s (distance_table N aeqb keys raw) thr).
  assert (Hc : forall (l : list (A * A)) (x : cf) e, c_kind x = KThompson ->
            fold_left (copy_arm N aeqb) l (set_exp x e) = set_exp (fold_left (copy_arm N aeqb) l x) e /\
            c_kind (fold_left (copy_arm N aeqb) l x) = KThompson /\ c_exp (fold_left (copy_arm N aeqb) l x) = c_exp x).
  { induction l as [|[c w] l IH]; intros x e Ex; cbn [fold_left]; [auto|].
    assert (E1 : copy_arm N aeqb (set_exp x e) (c, w) = set_exp (copy_arm N aeqb x (c, w)) e) by (unfold copy_arm; simpl; rewrite Ex; reflexivity).
    assert (E2 : c_kind (copy_arm N aeqb x (c, w)) = KThompson) by (unfold copy_arm; rewrite Ex; simpl; exact Ex).
    assert (E3 : c_exp (copy_arm N aeqb x (c, w)) = c_exp x) by (unfold copy_arm; rewrite Ex; reflexivity).
    rewrite E1. destruct (IH (copy_arm N aeqb x (c, w)) e E2) as (I1 & I2 & I3). rewrite I1, I2, I3, E3. auto. }
  assert (Hm : forall (l : list (A * A)) (x : cf) e,
            fold_left (mark_warm aeqb) l (set_exp x e) = set_exp (fold_left (mark_warm aeqb) l x) e /\
            c_kind (fold_left (mark_warm aeqb) l x) = c_kind x /\ c_exp (fold_left (mark_warm aeqb) l x) = c_exp x).
  { induction l as [|[c w] l IH]; intros x e; cbn [fold_left]; [auto|].
    replace (mark_warm aeqb (set_exp x e) (c, w)) with (set_exp (mark_warm aeqb x (c, w)) e) by reflexivity.
    destruct (IH (mark_warm aeqb x (c, w)) e) as (I1 & I2 & I3). rewrite I1, I2, I3. auto. }
  destruct (Hc m s (c_exp s') Ek) as (C1 & C2 & C3).
  rewrite C1. destruct (Hm m (fold_left (copy_arm N aeqb) m s) (c_exp s')) as (M1 & M2 & M3).
  rewrite M1. unfold exp_sim. simpl. rewrite M2, C2, M3, C3. auto.
Qed.

(* queries: same rows, same generator afterwards, related states *)
Lemma exp_sim_predict s s' g m :
  exp_sim s s' ->
  let '(e1, t1, g1) := cf_predict_exp N aeqb RG s g m in
  let '(e2, t2, g2) := cf_predict_exp N aeqb RG s' g m in
  e1 = e2 /\ g1 = g2 /\ exp_sim t1 t2.
Proof.
  intros (Ek & E & Hk). rewrite E. unfold cf_predict_exp. simpl. rewrite Ek. rewrite Hk.
  destruct (draw_betas N aeqb RG g (c_stats s) (akeys (c_exp s)) (msize m)) as [betas g1].
  set (rows := map (fun i => map (fun a => (a, nth i (aget_d aeqb [] betas a) (zero N))) (c_arms s)) (seq 0 (msize m))).
  repeat split; auto.
  unfold exp_sim. simpl. repeat split; auto.
  destruct rows as [|r0 rows'] eqn:Er; [simpl; exact Hk|].
  (* a non-empty list: last does not depend on the default *)
  assert (Hl : forall (l : list (list (A * R))) d1 d2, l <> [] -> last l d1 = last l d2).
  { induction l as [|x l IH]; intros d1 d2 Hne; [congruence|]. destruct l; [reflexivity | simpl; apply IH; discriminate]. }
  rewrite (Hl (r0 :: rows') (c_exp s') (c_exp s)) by discriminate. reflexivity.
Qed.


(* ---- at the facade: every call, every history -------------------------------------------------- *)
Notation mab := (@mab R A G).

Definition msim (m m' : mab) : Prop :=
  m_fitted m = m_fitted m' /\ m_rng m = m_rng m' /\
  exists s s', m_imp m = ICf s /\ m_imp m' = ICf s' /\ exp_sim s s'.

Lemma msim_intro (t t' : cf) f f' (g g' : G) :
  f = f' -> g = g' -> exp_sim t t' -> msim (mkMab (ICf t) f g) (mkMab (ICf t') f' g').
Proof. intros -> -> H. unfold msim; simpl. repeat split; auto. exists t, t'. auto. Qed.

Theorem step_sim (m m' : mab) (o : @op R A) :
  msim m m' ->
  snd (step N aeqb RG m o) = snd (step N aeqb RG m' o) /\ msim (fst (step N aeqb RG m o)) (fst (step N aeqb RG m' o)).
Proof.
  intros (Hf & Hg & s & s' & Es & Es' & Hsim).
  pose proof Hsim as (Ek & E & Hk).
  assert (Hself : msim m m') by (unfold msim; repeat split; auto; exists s, s'; auto).
  assert (Harms : m_arms m' = m_arms m) by (unfold m_arms; rewrite Es, Es', E; reflexivity).
  assert (Hargs : forall ds rs cx, fit_args_ok N m' ds rs cx = fit_args_ok N m ds rs cx)
    by (intros; unfold fit_args_ok, ts_needs_binary, is_contextual, cf_ts_nobinz; rewrite Es, Es', E; reflexivity).
  destruct o as [ds rs cx orc | ds rs cx orc | a bz | a | keys raw q | cx orc | cx orc]; unfold step.
  - rewrite Hargs. destruct (fit_args_ok N m ds rs cx); [|auto].
    unfold train_shape_ok, imp_fit. rewrite Es, Es'. simpl. split; [reflexivity|].
    apply msim_intro; [reflexivity | exact Hg | apply exp_sim_fit; exact Hsim].
  - rewrite Hargs. destruct (fit_args_ok N m ds rs cx); [|auto].
    unfold train_shape_ok. rewrite Es, Es'. rewrite <- Hf.
    destruct (m_fitted m); unfold imp_partial_fit, imp_fit; rewrite ?Es, ?Es'; simpl; (split; [reflexivity|]);
      (apply msim_intro; [reflexivity | exact Hg |]); [apply exp_sim_partial_fit | apply exp_sim_fit]; exact Hsim.
  - unfold binz_allowed, cf_is_ts. rewrite Es, Es'. rewrite (exp_sim_kind s s' Hsim), Ek. rewrite Harms.
    destruct bz as [f|]; simpl;
      (destruct (amem aeqb a (m_arms m)); [auto|]);
      unfold imp_add_arm; rewrite ?Es, ?Es'; simpl; (split; [reflexivity|]);
      (apply msim_intro; [exact Hf | exact Hg | apply exp_sim_add; exact Hsim]).
  - rewrite Harms. destruct (amem aeqb a (m_arms m)); [|auto].
    unfold imp_remove_arm; rewrite ?Es, ?Es'; simpl. split; [reflexivity|].
    apply msim_intro; [exact Hf | exact Hg | apply exp_sim_remove; exact Hsim].
  - destruct (negb _); [auto|]. rewrite Harms. destruct (negb _); [auto|].
    rewrite Es, Es'. pose proof (exp_sim_warm s s' keys raw q Hsim) as Hw.
    destruct (cf_warm_start N aeqb s keys raw q) as [t|], (cf_warm_start N aeqb s' keys raw q) as [t'|]; try contradiction; [|auto].
    simpl. split; [reflexivity|]. apply msim_intro; [exact Hf | exact Hg | exact Hw].
  - rewrite <- Hf. destruct (negb (m_fitted m)); [auto|].
    assert (Hp : predict_args_ok m' cx = predict_args_ok m cx) by (unfold predict_args_ok, is_contextual; rewrite Es, Es'; reflexivity).
    rewrite Hp. destruct (negb (predict_args_ok m cx)); [auto|].
    unfold imp_query. rewrite Es, Es'. unfold cf_predict. rewrite <- Hg.
    pose proof (exp_sim_predict s s' (m_rng m) (ctx_len cx) Hsim) as Hq.
    destruct (cf_predict_exp N aeqb RG s (m_rng m) (ctx_len cx)) as [[e1 t1] g1].
    destruct (cf_predict_exp N aeqb RG s' (m_rng m) (ctx_len cx)) as [[e2 t2] g2].
    destruct Hq as (-> & -> & Ht). simpl. split; [reflexivity|].
    apply msim_intro; [reflexivity | reflexivity | exact Ht].
  - rewrite <- Hf. destruct (negb (m_fitted m)); [auto|].
    assert (Hp : predict_args_ok m' cx = predict_args_ok m cx) by (unfold predict_args_ok, is_contextual; rewrite Es, Es'; reflexivity).
    rewrite Hp. destruct (negb (predict_args_ok m cx)); [auto|].
    unfold imp_query. rewrite Es, Es'. rewrite <- Hg.
    pose proof (exp_sim_predict s s' (m_rng m) (ctx_len cx) Hsim) as Hq.
    destruct (cf_predict_exp N aeqb RG s (m_rng m) (ctx_len cx)) as [[e1 t1] g1].
    destruct (cf_predict_exp N aeqb RG s' (m_rng m) (ctx_len cx)) as [[e2 t2] g2].
    destruct Hq as (-> & -> & Ht). simpl. split; [reflexivity|].
    apply msim_intro; [reflexivity | reflexivity | exact Ht].
Qed.

(* two Thompson bandits that differ only in the stored last sample are indistinguishable under EVERY history *)
Theorem run_sim (ops : list (@op R A)) (m m' : mab) :
  msim m m' -> snd (run N aeqb RG m ops) = snd (run N aeqb RG m' ops).
Proof.
  revert m m'. induction ops as [|o t IH]; intros m m' H; simpl; [reflexivity|].
  destruct (step_sim m m' o H) as [H1 H2].
  destruct (step N aeqb RG m o) as [m1 r1]. destruct (step N aeqb RG m' o) as [m1' r1']. simpl in *. subst r1'.
  specialize (IH m1 m1' H2).
  destruct (run N aeqb RG m1 t) as [m2 rs]. destruct (run N aeqb RG m1' t) as [m2' rs']. simpl in *. subst. reflexivity.
Qed.

End ExpIrrel.
