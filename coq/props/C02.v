(*  C02 — Linear policies are exact per-arm ridge regressions with the stated bonus.
   
    PROVED (for every number structure, feature count d, batch, query size m):
     * init: A = lambda*I, X'y = 0, beta = A_inv.0;
     * fit / partial_fit of an arm: A accumulates X'X, X'y accumulates X'y, A_inv is the inverse the model
       computes for the new A (Gauss-Jordan with pivoting; None = LinAlgError) and beta = A_inv.X'y;
     * predict_expectations: x.beta (LinGreedy exploit value), x.beta + alpha*sqrt(sum((x.A_inv)*x)) (LinUCB),
       and for LinTS exactly one multivariate-normal request with mean beta and covariance alpha^2*A_inv and
       one sample per context row, read out as sum(x * sample) row by row - for every d and m.
     * REFUTED (finding D2): with the initialisation of the code, A_inv of an arm never observed is lambda*I,
       not I/lambda - witness lambda = 4 over the rationals.
     * WHOLE HISTORIES (scale=False, exact arithmetic: the ring laws NumLaws, satisfied by the rationals): after
       fit(D0), partial_fit(D1), ..., partial_fit(Dk), all accepted, every arm's regression has
       A = lambda*I + X'X, X'y, A_inv = inv(A), beta = A_inv.X'y for X / y the rows / rewards of that arm in
       D0 ++ ... ++ Dk; an arm with no rows keeps the initial state; any two ways of splitting the same per-arm rows
       among the calls give the same regression (lin_split_irrelevant).  At binary64 the split changes only the
       order of the floating-point additions (compared by the correspondence run with rtol 1e-7).
     * THE INVERSE (field laws NumLaws): what the model's Gauss-Jordan elimination with partial pivoting returns for a
       d x d matrix is a LEFT INVERSE of it (every row e of the result satisfies e.A = unit row; proved by two loop
       invariants: every augmented row [m | e] satisfies e.A0 = m, and the first c columns are unit columns), hence
       A_inv.(A.b) = b for every b: beta = A_inv.X'y is THE solution of the normal equations (lambda*I + X'X) b = X'y
       whenever they have one (lin_history_beta_is_the_ridge_solution) - "exact per-arm ridge regression".
     * scale=True (single fit per arm): the arm's scaler holds the column means and population standard deviations of the arm's OWN rows
       (0 / 1 for a column whose deviation does not exceed 1e-6), the regression is the ridge regression of the standardised rows, and a
       query is standardised with the arm's own scaler before x.beta / the LinUCB bonus are taken.
     * EXISTENCE (ordered-field laws NumLaws; RidgeExists.v, LinRidge.v): the elimination never reports "singular" on a matrix
       with trivial kernel (a third loop invariant: the left block annihilates only what A0 annihilates; when the best pivot of
       column c is 0 an explicit non-zero kernel vector is exhibited), and lambda*I + X'X has a trivial kernel for lambda > 0
       because v.(lambda*I + X'X).v = lambda*|v|^2 + |Xv|^2; so the per-arm sequence of _RidgeRegression.fit calls never raises
       LinAlgError, whatever the data.  The ridge matrix is symmetric, hence the left inverse is a right inverse as well and
       beta SOLVES (lambda*I + X'X) beta = X'y (lin_history_beta_solves_the_normal_equations) - no proviso left.
     * THE LinTS LIMIT (LinTSLimit.v): what a multivariate-normal draw is belongs to numpy; under numpy's construction, stated as a hypothesis on the generator
       (mvn_scale_law: the sample for covariance a^2*C is mean + a*dev with dev independent of a), the LinTS expectation of every row is
       row.beta + alpha*(row.dev_row) - centred on x.beta, at distance alpha*|row.dev_row| from it, hence tending to x.beta as alpha tends to 0, and EQUAL to
       the exploit value at alpha = 0.  The hypothesis is satisfiable (point-mass generator) and is exercised on the code by the relation: the same history
       and seed with alpha and alpha/4 deviate from numpy.linalg.solve's x.beta in the ratio 4.
    ..._partial: the request parameters (mean beta, covariance alpha^2*A_inv) and the linear read-out without any assumption on the generator;
    numpy.linalg.solve is the independent oracle on every run. *)
From Coq Require Import List ZArith Bool Arith QArith Qcanon Permutation.
From MW Require Import Num Assoc AssocFacts Rng Par CF CFInv CFClean CFForget CFSpec Matrix Lin Warm WarmInv Nbr NbrFacts NbrIndep LshFacts Clu Tree CellFacts Mab FacadeCF FacadeArms MoreFacts NumLaws CFAlg Sim Extra QcInst OrderFacts ExpIrrel LinInv FacadeLin LpInv NbrInv CluTreeInv FacadeAll ToyFacts C09All C10All LinForget LinSim MatrixFacts GaussJordan LinSpec NbrIndepGen CluIndep C17Lin WarmIdem C14More LshScale TreeLeaf Rename PopSpec CopyFacts StatFacts CluBatch LinWarm RidgeExists LinRidge LinTSLimit.
Import ListNotations.

Theorem C02_init_state :
  forall (R A G : Type) (N : Num R) (s : (@lin R A G)) (d : nat) (m : (@ridge R G)),
  let m' := ridge_init N s d m in
  r_A m' = mscale N (l_l2 s) (identity N d) /\
  r_Xty m' = zeros N d /\
  r_Ainv m' =
  (if l_kf_ainv s
   then mscale N (l_l2 s) (identity N d)
   else mscale N (div N (one N) (l_l2 s)) (identity N d)) /\
  r_beta m' = mat_vec N (r_Ainv m') (zeros N d).
Proof. exact @ridge_init_state. Qed.
Print Assumptions C02_init_state.

Theorem C02_fit_accumulates_normal_equations_partial :
  forall (R G : Type) (N : Num R) (d : nat) (m m' : (@ridge R G)) (x : (@mat R)) (y : (@vec R)),
  r_scaler m = None ->
  ridge_fit N d m x y = Some m' ->
  r_A m' = madd N (r_A m) (xtx N d x) /\
  r_Xty m' = vadd N (r_Xty m) (xty N d x y) /\
  inverse N d (r_A m') = Some (r_Ainv m') /\ r_beta m' = mat_vec N (r_Ainv m') (r_Xty m').
Proof. exact @ridge_fit_normal_equations. Qed.
Print Assumptions C02_fit_accumulates_normal_equations_partial.

Theorem C02_history_feeds_each_arm_its_own_rows :
  forall (R A G : Type) (N : Num R) (aeqb : A -> A -> bool),
  (forall x y : A, aeqb x y = true <-> x = y) ->
  forall (s0 : (@lin R A G)) (g : G) (d0 : list A) (rs0 : list R) (cx0 : (@mat R)) (h : list (@batch R A)) (a : A),
  lin_keys_ok s0 ->
  In a (l_arms s0) ->
  snd (lin_fit N aeqb s0 g d0 rs0 cx0) = true ->
  snd (lin_partials N aeqb (fst (lin_fit N aeqb s0 g d0 rs0 cx0)) g h) = true ->
  let d := ncols cx0 in
  let sk := fst (lin_partials N aeqb (fst (lin_fit N aeqb s0 g d0 rs0 cx0)) g h) in
  exists m' : (@ridge R G),
    ridge_fits N d (ridge_init N (set_lnf s0 (Some d)) d (model aeqb s0 a))
      (arm_batches aeqb a ((d0, rs0, cx0) :: h)) = Some m' /\ erase_rng (model aeqb sk a) = erase_rng m'.
Proof. exact @lin_history_models. Qed.
Print Assumptions C02_history_feeds_each_arm_its_own_rows.

Theorem C02_history_normal_equations :
  forall (R A G : Type) (N : Num R),
  NumLaws N ->
  forall aeqb : A -> A -> bool,
  (forall x y : A, aeqb x y = true <-> x = y) ->
  forall (s0 : (@lin R A G)) (g : G) (d0 : list A) (rs0 : list R) (cx0 : (@mat R)) (h : list (@batch R A)) (a : A),
  lin_keys_ok s0 ->
  In a (l_arms s0) ->
  l_scale s0 = false ->
  snd (lin_fit N aeqb s0 g d0 rs0 cx0) = true ->
  snd (lin_partials N aeqb (fst (lin_fit N aeqb s0 g d0 rs0 cx0)) g h) = true ->
  let d := ncols cx0 in
  let mk := model aeqb (fst (lin_partials N aeqb (fst (lin_fit N aeqb s0 g d0 rs0 cx0)) g h)) a in
  let bs := arm_batches aeqb a ((d0, rs0, cx0) :: h) in
  let X := concat (map fst bs) in
  let y := concat (map snd bs) in
  (bs = [] -> erase_rng mk = erase_rng (ridge_init N (set_lnf s0 (Some d)) d (model aeqb s0 a))) /\
  (bs <> [] ->
   r_A mk = madd N (mscale N (l_l2 s0) (identity N d)) (xtx N d X) /\
   r_Xty mk = vadd N (zeros N d) (xty N d X y) /\
   inverse N d (r_A mk) = Some (r_Ainv mk) /\ r_beta mk = mat_vec N (r_Ainv mk) (r_Xty mk)).
Proof. exact @lin_history_normal_equations. Qed.
Print Assumptions C02_history_normal_equations.

Theorem C02_split_into_fit_and_partial_fit_is_irrelevant :
  forall (R A G : Type) (N : Num R),
  NumLaws N ->
  forall aeqb : A -> A -> bool,
  (forall x y : A, aeqb x y = true <-> x = y) ->
  forall (s0 : (@lin R A G)) (g g' : G) (d0 : list A) (rs0 : list R) (cx0 : (@mat R)) (h : list (@batch R A)) 
    (d0' : list A) (rs0' : list R) (cx0' : (@mat R)) (h' : list (@batch R A)) (a : A),
  lin_keys_ok s0 ->
  In a (l_arms s0) ->
  l_scale s0 = false ->
  snd (lin_fit N aeqb s0 g d0 rs0 cx0) = true ->
  snd (lin_partials N aeqb (fst (lin_fit N aeqb s0 g d0 rs0 cx0)) g h) = true ->
  snd (lin_fit N aeqb s0 g' d0' rs0' cx0') = true ->
  snd (lin_partials N aeqb (fst (lin_fit N aeqb s0 g' d0' rs0' cx0')) g' h') = true ->
  ncols cx0 = ncols cx0' ->
  let bs := arm_batches aeqb a ((d0, rs0, cx0) :: h) in
  let bs' := arm_batches aeqb a ((d0', rs0', cx0') :: h') in
  bs <> [] ->
  bs' <> [] ->
  concat (map fst bs) = concat (map fst bs') ->
  concat (map snd bs) = concat (map snd bs') ->
  let mk := model aeqb (fst (lin_partials N aeqb (fst (lin_fit N aeqb s0 g d0 rs0 cx0)) g h)) a in
  let mk' := model aeqb (fst (lin_partials N aeqb (fst (lin_fit N aeqb s0 g' d0' rs0' cx0')) g' h')) a
    in
  r_A mk = r_A mk' /\ r_Xty mk = r_Xty mk' /\ r_Ainv mk = r_Ainv mk' /\ r_beta mk = r_beta mk'.
Proof. exact @lin_split_irrelevant. Qed.
Print Assumptions C02_split_into_fit_and_partial_fit_is_irrelevant.

Theorem C02_gram_matrix_additive_over_row_blocks :
  forall (R : Type) (N : Num R),
  NumLaws N -> forall (d : nat) (x1 x2 : (@mat R)), xtx N d (x1 ++ x2) = madd N (xtx N d x1) (xtx N d x2).
Proof. exact @xtx_app. Qed.
Print Assumptions C02_gram_matrix_additive_over_row_blocks.

Theorem C02_model_inverse_is_a_left_inverse :
  forall (R : Type) (N : Num R),
  NumLaws N ->
  forall (d : nat) (a E : (@mat R)),
  wfA d a ->
  inverse N d a = Some E ->
  length E = d /\
  (forall i : nat, (i < d)%nat -> length (nth i E []) = d /\ lc N d (nth i E []) a = unit_vec N d i).
Proof. exact @inverse_is_left_inverse. Qed.
Print Assumptions C02_model_inverse_is_a_left_inverse.

Theorem C02_model_inverse_solves_linear_systems :
  forall (R : Type) (N : Num R),
  NumLaws N ->
  forall (d : nat) (a E : (@mat R)) (b : (@vec R)),
  wfA d a -> inverse N d a = Some E -> length b = d -> mat_vec N E (mat_vec N a b) = b.
Proof. exact @inverse_solves. Qed.
Print Assumptions C02_model_inverse_solves_linear_systems.

Theorem C02_elimination_step_keeps_both_invariants :
  forall (R : Type) (N : Num R),
  NumLaws N ->
  forall (d : nat) (A0 m m' : (@mat R)) (c : nat),
  wfA d A0 ->
  (c < d)%nat ->
  aug_ok N d A0 m -> ucol N d m c -> gj_step N m c = Some m' -> aug_ok N d A0 m' /\ ucol N d m' (S c).
Proof. exact @gj_step_ok. Qed.
Print Assumptions C02_elimination_step_keeps_both_invariants.

Theorem C02_beta_is_the_ridge_solution :
  forall (R A G : Type) (N : Num R),
  NumLaws N ->
  forall aeqb : A -> A -> bool,
  (forall x y : A, aeqb x y = true <-> x = y) ->
  forall (s0 : (@lin R A G)) (g : G) (d0 : list A) (rs0 : list R) (cx0 : (@mat R)) (h : list (@batch R A)) (a : A) (b : (@vec R)),
  lin_keys_ok s0 ->
  In a (l_arms s0) ->
  l_scale s0 = false ->
  snd (lin_fit N aeqb s0 g d0 rs0 cx0) = true ->
  snd (lin_partials N aeqb (fst (lin_fit N aeqb s0 g d0 rs0 cx0)) g h) = true ->
  let d := ncols cx0 in
  let mk := model aeqb (fst (lin_partials N aeqb (fst (lin_fit N aeqb s0 g d0 rs0 cx0)) g h)) a in
  let bs := arm_batches aeqb a ((d0, rs0, cx0) :: h) in
  let X := concat (map fst bs) in
  let y := concat (map snd bs) in
  bs <> [] ->
  length b = d ->
  mat_vec N (madd N (mscale N (l_l2 s0) (identity N d)) (xtx N d X)) b =
  vadd N (zeros N d) (xty N d X y) -> r_beta mk = b.
Proof. exact @lin_history_beta_is_the_ridge_solution. Qed.
Print Assumptions C02_beta_is_the_ridge_solution.

Theorem C02_elimination_step_keeps_the_kernel_invariant :
  forall (R : Type) (N : Num R),
  NumLaws N ->
  forall (d : nat) (A0 m m' : (@mat R)) (c : nat),
  wfA d A0 ->
  (c < d)%nat -> aug_ok N d A0 m -> gj_step N m c = Some m' -> kinv N d A0 m -> kinv N d A0 m'.
Proof. exact @gj_step_kinv. Qed.
Print Assumptions C02_elimination_step_keeps_the_kernel_invariant.

Theorem C02_elimination_step_cannot_fail_on_trivial_kernel :
  forall (R : Type) (N : Num R),
  NumLaws N ->
  forall (d : nat) (A0 m : (@mat R)) (c : nat),
  wfA d A0 ->
  (c < d)%nat ->
  aug_ok N d A0 m ->
  ucol N d m c -> kinv N d A0 m -> trivial_kernel N d A0 -> exists m' : (@mat R), gj_step N m c = Some m'.
Proof. exact @gj_step_complete. Qed.
Print Assumptions C02_elimination_step_cannot_fail_on_trivial_kernel.

Theorem C02_model_inverse_exists_for_trivial_kernel :
  forall (R : Type) (N : Num R),
  NumLaws N ->
  forall (d : nat) (a : (@mat R)), wfA d a -> trivial_kernel N d a -> exists E : (@mat R), inverse N d a = Some E.
Proof. exact @inverse_exists. Qed.
Print Assumptions C02_model_inverse_exists_for_trivial_kernel.

Theorem C02_ridge_matrix_has_trivial_kernel_for_positive_lambda :
  forall (R : Type) (N : Num R),
  NumLaws N ->
  forall (d : nat) (lam : R) (X : (@mat R)),
  ltb N (zero N) lam = true ->
  rows_len d X -> trivial_kernel N d (madd N (mscale N lam (identity N d)) (xtx N d X)).
Proof. exact @ridge_matrix_trivial_kernel. Qed.
Print Assumptions C02_ridge_matrix_has_trivial_kernel_for_positive_lambda.

Theorem C02_ridge_inverse_exists :
  forall (R : Type) (N : Num R),
  NumLaws N ->
  forall (d : nat) (lam : R) (X : (@mat R)),
  ltb N (zero N) lam = true ->
  rows_len d X ->
  exists E : (@mat R), inverse N d (madd N (mscale N lam (identity N d)) (xtx N d X)) = Some E.
Proof. exact @ridge_inverse_exists. Qed.
Print Assumptions C02_ridge_inverse_exists.

Theorem C02_per_arm_fits_never_meet_a_singular_matrix :
  forall (R G : Type) (N : Num R),
  NumLaws N ->
  forall (d : nat) (lam : R) (bs : list (mat * (@vec R))) (m : (@ridge R G)),
  ltb N (zero N) lam = true ->
  r_scaler m = None ->
  r_A m = mscale N lam (identity N d) ->
  Forall (fun b : (@mat R) * (@vec R) => rows_len d (fst b)) bs ->
  exists m' : (@ridge R G), ridge_fits N d m bs = Some m'.
Proof. exact @ridge_fits_never_singular. Qed.
Print Assumptions C02_per_arm_fits_never_meet_a_singular_matrix.

Theorem C02_model_inverse_is_a_right_inverse_of_a_symmetric_matrix :
  forall (R : Type) (N : Num R),
  NumLaws N ->
  forall (d : nat) (a E : (@mat R)) (v : list R),
  wfA d a -> sym N d a -> inverse N d a = Some E -> length v = d -> mat_vec N a (mat_vec N E v) = v.
Proof. exact @inverse_is_right_inverse. Qed.
Print Assumptions C02_model_inverse_is_a_right_inverse_of_a_symmetric_matrix.

Theorem C02_ridge_matrix_is_symmetric :
  forall (R : Type) (N : Num R),
  NumLaws N ->
  forall (d : nat) (lam : R) (X : (@mat R)), sym N d (madd N (mscale N lam (identity N d)) (xtx N d X)).
Proof. exact @ridge_matrix_sym. Qed.
Print Assumptions C02_ridge_matrix_is_symmetric.

Theorem C02_beta_solves_the_normal_equations :
  forall (R A G : Type) (N : Num R),
  NumLaws N ->
  forall aeqb : A -> A -> bool,
  (forall x y : A, aeqb x y = true <-> x = y) ->
  forall (s0 : (@lin R A G)) (g : G) (d0 : list A) (rs0 : list R) (cx0 : (@mat R)) (h : list (@batch R A)) (a : A),
  lin_keys_ok s0 ->
  In a (l_arms s0) ->
  l_scale s0 = false ->
  snd (lin_fit N aeqb s0 g d0 rs0 cx0) = true ->
  snd (lin_partials N aeqb (fst (lin_fit N aeqb s0 g d0 rs0 cx0)) g h) = true ->
  let d := ncols cx0 in
  let mk := model aeqb (fst (lin_partials N aeqb (fst (lin_fit N aeqb s0 g d0 rs0 cx0)) g h)) a in
  let bs := arm_batches aeqb a ((d0, rs0, cx0) :: h) in
  let X := concat (map fst bs) in
  let y := concat (map snd bs) in
  bs <> [] ->
  mat_vec N (madd N (mscale N (l_l2 s0) (identity N d)) (xtx N d X)) (r_beta mk) =
  vadd N (zeros N d) (xty N d X y).
Proof. exact @lin_history_beta_solves_the_normal_equations. Qed.
Print Assumptions C02_beta_solves_the_normal_equations.

Theorem C02_scaled_fit_is_the_ridge_regression_of_the_standardised_rows :
  forall (R G : Type) (N : Num R) (d : nat) (m m' : (@ridge R G)) (x : (@mat R)) (y : (@vec R)),
  r_scaler m = Some None ->
  ridge_fit N d m x y = Some m' ->
  let sc := scaler_fit N d x in
  let z := scaler_transform N sc x in
  r_scaler m' = Some (Some sc) /\
  r_A m' = madd N (r_A m) (xtx N d z) /\
  r_Xty m' = vadd N (r_Xty m) (xty N d z y) /\
  inverse N d (r_A m') = Some (r_Ainv m') /\ r_beta m' = mat_vec N (r_Ainv m') (r_Xty m').
Proof. exact @ridge_fit_scaled_normal_equations. Qed.
Print Assumptions C02_scaled_fit_is_the_ridge_regression_of_the_standardised_rows.

Theorem C02_scaler_holds_the_arms_own_column_statistics :
  forall (R : Type) (N : Num R) (d : nat) (x : (@mat R)),
  let cols := transpose N d x in
  sc_mean (scaler_fit N d x) = map (col_mean N) cols /\
  sc_scale (scaler_fit N d x) = map (fun c : (@vec R) => snd (fix_scale N (col_var N c (col_mean N c)))) cols.
Proof. exact @scaler_fit_spec. Qed.
Print Assumptions C02_scaler_holds_the_arms_own_column_statistics.

Theorem C02_lingreedy_expectation_with_the_arms_own_scaler :
  forall (R A G : Type) (N : Num R) (RG : RngOps R G) (s : (@lin R A G)) (m : (@ridge R G)) 
    (sc : (@scaler R)) (g : G) (x : (@mat R)),
  l_kind s = RRidge ->
  r_scaler m = Some (Some sc) ->
  ridge_predict N RG s m g x =
  (map (fun row : (@vec R) => dot N row (r_beta m)) (scaler_transform N sc x), m, g).
Proof. exact @lingreedy_expectation_scaled. Qed.
Print Assumptions C02_lingreedy_expectation_with_the_arms_own_scaler.

Theorem C02_linucb_expectation_with_the_arms_own_scaler :
  forall (R A G : Type) (N : Num R) (RG : RngOps R G) (s : (@lin R A G)) (m : (@ridge R G)) 
    (sc : (@scaler R)) (g : G) (x : (@mat R)),
  l_kind s = RUcb ->
  r_scaler m = Some (Some sc) ->
  ridge_predict N RG s m g x =
  (map
     (fun row : (@vec R) =>
      add N (dot N row (r_beta m))
        (mul N (l_alpha s)
           (sqrt N
              (nsum N
                 (map2 (mul N) (map (fun c : (@vec R) => dot N row c) (transpose N (length row) (r_Ainv m)))
                    row))))) (scaler_transform N sc x), m, g).
Proof. exact @linucb_expectation_scaled. Qed.
Print Assumptions C02_linucb_expectation_with_the_arms_own_scaler.

Theorem C02_lingreedy_expectation :
  forall (R A G : Type) (N : Num R) (RG : RngOps R G) (s : (@lin R A G)) (m : (@ridge R G)) (g : G) (x : (@mat R)),
  l_kind s = RRidge ->
  r_scaler m = None ->
  ridge_predict N RG s m g x = (map (fun row : (@vec R) => dot N row (r_beta m)) x, m, g).
Proof. exact @lingreedy_expectation. Qed.
Print Assumptions C02_lingreedy_expectation.

Theorem C02_linucb_expectation :
  forall (R A G : Type) (N : Num R) (RG : RngOps R G) (s : (@lin R A G)) (m : (@ridge R G)) (g : G) (x : (@mat R)),
  l_kind s = RUcb ->
  r_scaler m = None ->
  ridge_predict N RG s m g x =
  (map
     (fun row : (@vec R) =>
      add N (dot N row (r_beta m))
        (mul N (l_alpha s)
           (sqrt N
              (nsum N
                 (map2 (mul N) (map (fun c : (@vec R) => dot N row c) (transpose N (length row) (r_Ainv m)))
                    row))))) x, m, g).
Proof. exact @linucb_expectation. Qed.
Print Assumptions C02_linucb_expectation.

Theorem C02_lints_request_and_linear_readout_partial :
  forall (R A G : Type) (N : Num R) (RG : RngOps R G) (s : (@lin R A G)) (m : (@ridge R G)) (g gm : G) (x : (@mat R)),
  l_kind s = RTs ->
  r_scaler m = None ->
  r_rng m = Some gm ->
  let cov := mscale N (mul N (l_alpha s) (l_alpha s)) (r_Ainv m) in
  let
  '(smp, _) := draw_r RG gm (RqMvn (r_beta m) cov (length x)) in
   fst (fst (ridge_predict N RG s m g x)) =
   map2 (fun row b : list R => nsum N (map2 (mul N) row b)) x
     (chunk_rows (length x) (length (r_beta m)) smp).
Proof. exact @lints_request_and_readout. Qed.
Print Assumptions C02_lints_request_and_linear_readout_partial.

Theorem C02_lints_expectation_is_x_beta_plus_alpha_times_a_deviation :
  forall (R A G : Type) (N : Num R),
  NumLaws N ->
  forall RG : RngOps R G,
  mvn_scale_law N RG ->
  exists dev : G -> list R -> mat -> nat -> list (list R),
    forall (s : (@lin R A G)) (m : (@ridge R G)) (g gm : G) (x : (@mat R)),
    l_kind s = RTs ->
    r_scaler m = None ->
    r_rng m = Some gm ->
    fst (fst (ridge_predict N RG s m g x)) =
    map2
      (fun row drow : list R =>
       add N (nsum N (map2 (mul N) row (r_beta m))) (mul N (l_alpha s) (nsum N (map2 (mul N) row drow))))
      x (dev gm (r_beta m) (r_Ainv m) (length x)) /\
    length (dev gm (r_beta m) (r_Ainv m) (length x)) = length x.
Proof. exact @lints_expectation_is_affine_in_alpha. Qed.
Print Assumptions C02_lints_expectation_is_x_beta_plus_alpha_times_a_deviation.

Theorem C02_lints_at_alpha_zero_is_the_exploit_value :
  forall (R A G : Type) (N : Num R),
  NumLaws N ->
  forall RG : RngOps R G,
  mvn_scale_law N RG ->
  forall (s : (@lin R A G)) (m : (@ridge R G)) (g gm : G) (x : (@mat R)),
  l_kind s = RTs ->
  r_scaler m = None ->
  r_rng m = Some gm ->
  l_alpha s = zero N ->
  fst (fst (ridge_predict N RG s m g x)) =
  map (fun row : list R => nsum N (map2 (mul N) row (r_beta m))) x.
Proof. exact @lints_alpha_zero. Qed.
Print Assumptions C02_lints_at_alpha_zero_is_the_exploit_value.

Theorem C02_lints_generator_hypothesis_is_satisfiable :
  mvn_scale_law QcNum MeanRng.
Proof. exact @mean_rng_meets_the_law. Qed.
Print Assumptions C02_lints_generator_hypothesis_is_satisfiable.

(* finding D2, stated about the model that is faithful to the code: the covariance of a never-observed arm *)
Definition q (z : Z) : Qc := Q2Qc (inject_Z z).
Definition ex_lin (kf : bool) : @lin Qc Z nat := lin_init QcNum RUcb (q 1) (q 0) (q 4) false kf [1]%Z.
Theorem C02_unobserved_arm_covariance_refuted :
  r_Ainv (ridge_init QcNum (ex_lin true) 1 ridge_new) <> r_Ainv (ridge_init QcNum (ex_lin false) 1 ridge_new) /\
  r_Ainv (ridge_init QcNum (ex_lin true) 1 ridge_new) = [[q 4]].
Proof. split; [vm_compute; discriminate | vm_compute; reflexivity]. Qed.
Print Assumptions C02_unobserved_arm_covariance_refuted.

(* non-vacuity of the whole-history theorem: a concrete LinUCB history over the rationals is accepted call by call *)
Definition exh_s0 : @lin Qc Z nat := lin_init QcNum RUcb (q 1) (q 0) (q 2) false false [1; 2]%Z.
Definition exh_d0 := [1; 2; 1]%Z.  Definition exh_r0 := [q 1; q 0; q 2].  Definition exh_c0 := [[q 1; q 0]; [q 0; q 1]; [q 1; q 1]].
Definition exh_h : list (list Z * list Qc * list (list Qc)) := [([2]%Z, [q 3], [[q 2; q 1]]); ([1; 1]%Z, [q 1; q 1], [[q 0; q 2]; [q 3; q 1]])].
Example C02_history_hypotheses_satisfiable :
  lin_keys_ok exh_s0 /\ In 1%Z (l_arms exh_s0) /\ l_scale exh_s0 = false /\
  snd (lin_fit QcNum Z.eqb exh_s0 0%nat exh_d0 exh_r0 exh_c0) = true /\
  snd (lin_partials QcNum Z.eqb (fst (lin_fit QcNum Z.eqb exh_s0 0%nat exh_d0 exh_r0 exh_c0)) 0%nat exh_h) = true /\
  arm_batches Z.eqb 1%Z ((exh_d0, exh_r0, exh_c0) :: exh_h) <> [].
Proof.
  split; [apply lin_keys_ok_init; repeat constructor; simpl; intuition discriminate|].
  split; [left; reflexivity|]. split; [reflexivity|]. split; [vm_compute; reflexivity|]. split; [vm_compute; reflexivity|].
  vm_compute. discriminate.
Qed.

(* non-vacuity of the existence theorem: its hypotheses hold for a concrete data matrix over the rationals *)
Example C02_existence_hypotheses_are_met :
  ltb QcNum (zero QcNum) (q 1) = true /\ rows_len 2 [[q 1; q 2]; [q 3; q 4]] /\
  exists E, inverse QcNum 2 (madd QcNum (mscale QcNum (q 1) (identity QcNum 2)) (xtx QcNum 2 [[q 1; q 2]; [q 3; q 4]])) = Some E.
Proof.
  split; [reflexivity|]. split; [repeat constructor|].
  apply (ridge_inverse_exists QcNum QcLaws); [reflexivity | repeat constructor].
Qed.

