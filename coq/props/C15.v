(*  C15 — The Simulator reports what the public API would have produced.
   
    PROVED: the simulator's Radius class selects its neighbours from a cache of distances; when the cache was
    computed with the bandit's own metric (what the repaired code guarantees, fix D12: one cache per metric) the
    selection IS the library's neighbourhood, for every radius, history and query.
    ..._partial: this is the only part of the simulator protocol carried by the model. The offline / online
    drivers, the shared generator between the simulator classes and the original bandit, and the expectations
    bookkeeping are checked on every run by the independent public-API replay (fit / predict / predict_expectations
    / partial_fit on a deep copy); the online protocol of the neighbourhood classes is refuted on the code
    (finding D13). *)
From Coq Require Import List ZArith Bool Arith QArith Qcanon Permutation.
From MW Require Import Num Assoc AssocFacts Rng Par CF CFInv CFClean CFForget CFSpec Matrix Lin Warm WarmInv Nbr NbrFacts NbrIndep LshFacts Clu Tree CellFacts Mab FacadeCF FacadeArms MoreFacts NumLaws CFAlg Sim Extra QcInst.
Import ListNotations.

Theorem C15_simulator_radius_selection_refines_library_partial :
  forall (R A : Type) (N : Num R) (G : Type) (s : (@nbr R A G)) (r : R) (row : list R) (orc : list nat),
  n_kind s = NRadius r ->
  neighborhood N s row orc =
  Some (sim_radius_select N (map (fun c : list R => distance N (n_metric s) c row) (n_cx s)) r).
Proof. exact @sim_radius_refines_library. Qed.
Print Assumptions C15_simulator_radius_selection_refines_library_partial.


