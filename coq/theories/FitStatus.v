(* FitStatus.v — C13, "since the most recent fit": after fit(D) on a context-free policy every current arm is trained exactly when it
   occurs in D, and NO arm is warm (whatever it was before: a warm-start copy and its flags do not survive a fit), so cold_arms is the
   list of arms without observations in D and a later warm_start treats them as cold again. *)
From Coq Require Import ZArith List Bool Lia.
From MW Require Import Num Assoc AssocFacts Rng CF CFInv CFClean Warm Matrix Lin LinInv.
Import ListNotations.

Section FitStatus.
Context {R A : Type} (N : Num R) (aeqb : A -> A -> bool).
Hypothesis aeqb_spec : forall x y, aeqb x y = true <-> x = y.
Notation cf := (@cf R A).

Definition mark (ds : list A) (stt : list (A * @status A)) (a : A) : list (A * @status A) :=
  if amem aeqb a ds then
    match aget aeqb stt a with
    | Some x => aset aeqb stt a (mkStatus true false None)
    | None => stt
    end
  else stt.

Lemma mark_other ds stt a b : b <> a -> aget aeqb (mark ds stt a) b = aget aeqb stt b.
Proof.
  intros Hne. unfold mark. destruct (amem aeqb a ds); [|reflexivity]. destruct (aget aeqb stt a); [|reflexivity].
  apply (aget_aset_other aeqb aeqb_spec). exact Hne.
Qed.

Lemma fold_mark_other ds (l : list A) : forall stt b, ~ In b l -> aget aeqb (fold_left (mark ds) l stt) b = aget aeqb stt b.
Proof.
  induction l as [|a l IH]; intros stt b Hn; cbn [fold_left]; [reflexivity|].
  rewrite IH by (intros H; apply Hn; right; exact H). apply mark_other. intros ->. apply Hn. left. reflexivity.
Qed.

Lemma fold_mark_fresh ds (l : list A) : forall stt b, NoDup l -> In b l -> aget aeqb stt b = Some (@status0 A) ->
  aget aeqb (fold_left (mark ds) l stt) b = Some (mkStatus (amem aeqb b ds) false None).
Proof.
  induction l as [|a l IH]; intros stt b Hnd Hin Hb; [contradiction|]. cbn [fold_left]. inversion Hnd as [|? ? Hna Hnd']; subst.
  destruct Hin as [->|Hin].
  - rewrite fold_mark_other by exact Hna. unfold mark. destruct (amem aeqb b ds) eqn:E.
    + rewrite Hb. apply (aget_aset_same aeqb aeqb_spec).
    + exact Hb.
  - apply IH; [exact Hnd' | exact Hin|]. rewrite mark_other; [exact Hb|]. intros ->. contradiction.
Qed.

Lemma set_trained_fit_spec (s : cf) ds a : NoDup (c_arms s) -> In a (c_arms s) -> aget aeqb (c_status s) a = Some (@status0 A) ->
  aget aeqb (c_status (set_trained aeqb s ds false)) a = Some (mkStatus (amem aeqb a ds) false None).
Proof.
  intros Hnd Hin Hs. unfold set_trained. cbn [set_status c_status].
  exact (fold_mark_fresh ds (c_arms s) (c_status s) a Hnd Hin Hs).
Qed.

(* training tasks never touch the status dictionary or the arm list *)
Lemma fit_arm_status (s : cf) b ds rs : c_status (cf_fit_arm N aeqb s b ds rs) = c_status s /\ c_arms (cf_fit_arm N aeqb s b ds rs) = c_arms s.
Proof.
  unfold cf_fit_arm. destruct (c_kind s); cbn;
    repeat match goal with |- context [if ?c then _ else _] => destruct c end; cbn; split; reflexivity.
Qed.

Lemma fold_fit_arm_status ds rs (l : list A) : forall s : cf,
  c_status (fold_left (fun s a => cf_fit_arm N aeqb s a ds rs) l s) = c_status s /\ c_arms (fold_left (fun s a => cf_fit_arm N aeqb s a ds rs) l s) = c_arms s.
Proof.
  induction l as [|b l IH]; intros s; cbn [fold_left]; [split; reflexivity|].
  destruct (IH (cf_fit_arm N aeqb s b ds rs)) as [H1 H2]. destruct (fit_arm_status s b ds rs) as [F1 F2]. rewrite H1, H2, F1, F2. split; reflexivity.
Qed.

Lemma parallel_fit_status (s : cf) ds rs : c_status (cf_parallel_fit N aeqb s ds rs) = c_status s /\ c_arms (cf_parallel_fit N aeqb s ds rs) = c_arms s.
Proof. unfold cf_parallel_fit. apply fold_fit_arm_status. Qed.

Theorem cf_fit_status (s : cf) ds rs a : keys_ok s -> c_kind s <> KRandom -> In a (c_arms s) ->
  aget aeqb (c_status (cf_fit N aeqb s ds rs)) a = Some (mkStatus (amem aeqb a ds) false None) /\
  c_arms (cf_fit N aeqb s ds rs) = c_arms s.
Proof.
  intros (Hnd & _ & _ & _) Hk Hin.
  assert (Hreset : forall t : cf, c_arms t = c_arms s -> c_status t = afromkeys (c_arms s) (@status0 A) ->
            aget aeqb (c_status (set_trained aeqb t ds false)) a = Some (mkStatus (amem aeqb a ds) false None)).
  { intros t Ha Hs. apply set_trained_fit_spec; [rewrite Ha; exact Hnd | rewrite Ha; exact Hin|]. rewrite Hs. apply (aget_afromkeys aeqb aeqb_spec). exact Hin. }
  unfold cf_fit. destruct (c_kind s) eqn:K; try congruence.
  - destruct (parallel_fit_status (reset_status (set_exp (reset_sums N s) (areset (c_exp s) (zero N)))) ds rs) as [P1 P2].
    split; [apply Hreset; [rewrite P2; reflexivity | rewrite P1; reflexivity] | cbn [set_trained set_status c_arms]; rewrite P2; reflexivity].
  - destruct (parallel_fit_status (set_total (reset_status (set_exp (reset_sums N s) (areset (c_exp s) (zero N)))) (Z.of_nat (length ds))) ds rs) as [P1 P2].
    split; [apply Hreset; [rewrite P2; reflexivity | rewrite P1; reflexivity] | cbn [set_trained set_status c_arms]; rewrite P2; reflexivity].
  - destruct (parallel_fit_status (reset_status (reset_sums N s)) ds rs) as [P1 P2].
    split; [apply Hreset; [cbn [softmax_expectation set_exp set_stats c_arms]; rewrite P2; reflexivity | cbn [softmax_expectation set_exp set_stats c_status]; rewrite P1; reflexivity]
           | cbn [set_trained set_status softmax_expectation set_exp set_stats c_arms]; rewrite P2; reflexivity].
  - destruct (parallel_fit_status (set_pyfloat (reset_status (set_exp (reset_sums N s) (areset (c_exp s) (zero N)))) false) ds rs) as [P1 P2].
    set (t := set_trained aeqb (cf_parallel_fit N aeqb _ ds rs) ds false).
    assert (Hn : c_status (popularity_normalize N t) = c_status t /\ c_arms (popularity_normalize N t) = c_arms t).
    { unfold popularity_normalize. destruct (eqb N _ _); split; reflexivity. }
    destruct Hn as [N1 N2]. rewrite N1, N2. unfold t.
    split; [apply Hreset; [rewrite P2; reflexivity | rewrite P1; reflexivity] | cbn [set_trained set_status c_arms]; rewrite P2; reflexivity].
  - destruct (parallel_fit_status (reset_status (reset_counts_ts N s)) ds (binarize s ds rs)) as [P1 P2].
    split; [apply Hreset; [rewrite P2; reflexivity | rewrite P1; reflexivity] | cbn [set_trained set_status c_arms]; rewrite P2; reflexivity].
Qed.

(* hence: the cold arms after fit(D) are exactly the arms that do not occur in D *)
Corollary cf_fit_cold_arms (s : cf) ds rs : keys_ok s -> c_kind s <> KRandom ->
  cold_arms aeqb (cf_fit N aeqb s ds rs) = filter (fun a => negb (amem aeqb a ds)) (c_arms s).
Proof.
  intros Hk Hr. unfold cold_arms.
  assert (Ha : c_arms (cf_fit N aeqb s ds rs) = c_arms s).
  { destruct (c_arms s) as [|a0 l] eqn:E.
    - unfold cf_fit. destruct (c_kind s); try congruence;
        repeat match goal with
               | |- context [popularity_normalize N ?t] => assert (c_arms (popularity_normalize N t) = c_arms t) as -> by (unfold popularity_normalize; destruct (eqb N _ _); reflexivity)
               end; cbn [set_trained set_status softmax_expectation set_exp set_stats c_arms];
        match goal with |- c_arms (cf_parallel_fit N aeqb ?x ds ?r) = _ => rewrite (proj2 (parallel_fit_status x ds r)) end; cbn; exact E.
    - rewrite <- E. apply (proj2 (cf_fit_status s ds rs a0 Hk Hr ltac:(rewrite E; left; reflexivity))). }
  rewrite Ha. apply filter_ext_in. intros a Hin.
  destruct (cf_fit_status s ds rs a Hk Hr Hin) as [Hs _]. unfold aget_d. rewrite Hs. cbn. destruct (amem aeqb a ds); reflexivity.
Qed.


(* ---- linear policies ------------------------------------------------------------------------------------------- *)
Section LinStatus.
Context {G : Type}.
Notation lin := (@lin R A G).

Lemma lin_fit_arm_status (s s' : lin) g b ds rs cx : lin_fit_arm N aeqb s g b ds rs cx = Some s' -> l_status s' = l_status s /\ l_arms s' = l_arms s.
Proof.
  unfold lin_fit_arm. destruct (arm_rows aeqb b ds rs cx) as [x y]. destruct x as [|r0 x']; [intros E; injection E as <-; split; reflexivity|].
  destruct (negb _); [discriminate|]. destruct (ridge_fit N _ _ _ _) as [m2|]; [|discriminate]. intros E; injection E as <-. split; reflexivity.
Qed.

Lemma lin_parallel_fit_status (arms : list A) : forall (s : lin) g ds rs cx,
  l_status (fst (lin_parallel_fit N aeqb s g arms ds rs cx)) = l_status s /\ l_arms (fst (lin_parallel_fit N aeqb s g arms ds rs cx)) = l_arms s.
Proof.
  induction arms as [|b t IH]; intros s g ds rs cx; cbn [lin_parallel_fit]; [split; reflexivity|].
  destruct (lin_fit_arm N aeqb s g b ds rs cx) as [s'|] eqn:E; [|split; reflexivity].
  destruct (lin_fit_arm_status s s' g b ds rs cx E) as [F1 F2]. destruct (IH s' g ds rs cx) as [H1 H2]. rewrite H1, H2, F1, F2. split; reflexivity.
Qed.

Theorem lin_fit_status (s : lin) g ds rs cx a : NoDup (l_arms s) -> In a (l_arms s) -> snd (lin_fit N aeqb s g ds rs cx) = true ->
  aget aeqb (l_status (fst (lin_fit N aeqb s g ds rs cx))) a = Some (mkStatus (amem aeqb a ds) false None).
Proof.
  intros Hnd Hin. unfold lin_fit. cbv zeta.
  match goal with |- context [lin_parallel_fit N aeqb ?s3 g ?arms ds rs cx] =>
    destruct (lin_parallel_fit_status arms s3 g ds rs cx) as [P1 P2];
    destruct (lin_parallel_fit N aeqb s3 g arms ds rs cx) as [s4 ok] end.
  cbn [fst snd] in *. destruct ok; [|discriminate]. intros _. cbn [fst]. unfold lset_trained. cbn [set_lstatus l_status].
  rewrite P1, P2. cbn [set_lstatus set_models set_lnf l_status l_arms].
  apply (fold_mark_fresh ds (l_arms s) _ a Hnd Hin). apply (aget_afromkeys aeqb aeqb_spec). exact Hin.
Qed.

End LinStatus.

End FitStatus.
