(* LinRidge.v — C02, the clauses that GaussJordan.v / LinSpec.v left conditional:
   (1) the coefficients SOLVE the ridge normal equations (lambda*I + X'X) beta = X'y of the arm's whole history
       (the left inverse found by the elimination is a right inverse because the ridge matrix is symmetric);
   (2) for lambda > 0 the per-arm sequence of _RidgeRegression.fit calls never meets a singular matrix, whatever the
       data (positive definiteness over any ordered field). *)
From Coq Require Import ZArith List Bool Arith Lia.
From MW Require Import Num NumLaws Assoc AssocFacts Rng CF CFInv Matrix MatrixFacts GaussJordan RidgeExists Lin LinInv LinForget LinSim LinSpec.
Import ListNotations.

Section LinRidge.
Context {R A G : Type} (N : Num R) (L : NumLaws N) (aeqb : A -> A -> bool).
Hypothesis aeqb_spec : forall x y, aeqb x y = true <-> x = y.
Notation lin := (@lin R A G).
Notation ridge := (@ridge R G).

Lemma xty_length d (X : mat (R:=R)) y : length (xty N d X y) = d.
Proof. unfold xty, transpose. rewrite !map_length, seq_length. reflexivity. Qed.

(* (1) beta solves the normal equations of the arm's whole history *)
Theorem lin_history_beta_solves_the_normal_equations (s0 : lin) g d0 rs0 cx0 (h : list (@batch R A)) (a : A) :
  lin_keys_ok s0 -> In a (l_arms s0) -> l_scale s0 = false ->
  snd (lin_fit N aeqb s0 g d0 rs0 cx0) = true ->
  snd (lin_partials N aeqb (fst (lin_fit N aeqb s0 g d0 rs0 cx0)) g h) = true ->
  let d := ncols cx0 in
  let mk := model aeqb (fst (lin_partials N aeqb (fst (lin_fit N aeqb s0 g d0 rs0 cx0)) g h)) a in
  let bs := arm_batches aeqb a ((d0, rs0, cx0) :: h) in
  let X := concat (map fst bs) in let y := concat (map snd bs) in
  bs <> [] ->
  mat_vec N (madd N (mscale N (l_l2 s0) (identity N d)) (xtx N d X)) (r_beta mk) = vadd N (zeros N d) (xty N d X y).
Proof.
  intros Hk Hin Hsc O1 O2 d mk bs X y Hne.
  destruct (lin_history_normal_equations N L aeqb aeqb_spec s0 g d0 rs0 cx0 h a Hk Hin Hsc O1 O2) as [_ H].
  destruct (H Hne) as (A1 & B1 & C1 & D1). fold mk in A1, B1, C1, D1. fold d in A1, B1, C1. fold bs in A1, B1. fold X in A1, B1. fold y in B1.
  rewrite D1, B1. rewrite A1 in C1.
  apply (inverse_is_right_inverse N L d _ _ _ (wfA_ridge_matrix N d (l_l2 s0) X) (ridge_matrix_sym N L d (l_l2 s0) X) C1).
  unfold vadd. rewrite map2_length, (zeros_length N), xty_length. apply Nat.min_id.
Qed.

(* (2) no singular matrix for lambda > 0 *)
Lemma ridge_fit_first d lam (m : ridge) (x : mat (R:=R)) y :
  ltb N (zero N) lam = true -> r_scaler m = None -> r_A m = mscale N lam (identity N d) -> rows_len d x ->
  exists m1, ridge_fit N d m x y = Some m1 /\ r_A m1 = madd N (mscale N lam (identity N d)) (xtx N d x) /\ r_scaler m1 = None.
Proof.
  intros Hl Hs HA Hx. unfold ridge_fit. rewrite Hs, HA.
  destruct (ridge_inverse_exists N L d lam x Hl Hx) as [E HE]. rewrite HE. eexists. split; [reflexivity|]. split; reflexivity.
Qed.

Lemma ridge_fit_next d lam (m : ridge) (X x : mat (R:=R)) y :
  ltb N (zero N) lam = true -> r_scaler m = None -> r_A m = madd N (mscale N lam (identity N d)) (xtx N d X) ->
  rows_len d X -> rows_len d x ->
  exists m1, ridge_fit N d m x y = Some m1 /\ r_A m1 = madd N (mscale N lam (identity N d)) (xtx N d (X ++ x)) /\ r_scaler m1 = None.
Proof.
  intros Hl Hs HA HX Hx. unfold ridge_fit. rewrite Hs, HA.
  rewrite (madd_assoc N L), <- (xtx_app N L).
  assert (HXx : rows_len d (X ++ x)) by (apply Forall_app; split; assumption).
  destruct (ridge_inverse_exists N L d lam (X ++ x) Hl HXx) as [E HE]. rewrite HE. eexists. split; [reflexivity|]. split; reflexivity.
Qed.

Theorem ridge_fits_never_singular d lam (bs : list (mat (R:=R) * vec (R:=R))) : forall (m : ridge),
  ltb N (zero N) lam = true -> r_scaler m = None -> r_A m = mscale N lam (identity N d) ->
  Forall (fun b => rows_len d (fst b)) bs ->
  exists m', ridge_fits N d m bs = Some m'.
Proof.
  intros m Hl Hs HA Hall. destruct bs as [|[x y] t]; [eexists; reflexivity|].
  inversion Hall as [|? ? Hx Ht]; subst. cbn [ridge_fits fst] in *.
  destruct (ridge_fit_first d lam m x y Hl Hs HA Hx) as (m1 & E1 & A1 & S1). rewrite E1.
  clear E1 HA Hs Hall m. revert m1 x Hx A1 S1. induction t as [|[x2 y2] t IH]; intros m1 X HX A1 S1; [eexists; reflexivity|].
  inversion Ht as [|? ? Hx2 Ht']; subst. cbn [ridge_fits fst] in *.
  destruct (ridge_fit_next d lam m1 X x2 y2 Hl S1 A1 HX Hx2) as (m2 & E2 & A2 & S2). rewrite E2.
  apply (IH Ht' m2 (X ++ x2)); [apply Forall_app; split; assumption | exact A2 | exact S2].
Qed.

(* the freshly initialised regression of an arm (scale=False) is such a starting point *)
Lemma ridge_init_start (s : lin) d (m : ridge) : l_scale s = false ->
  r_scaler (ridge_init N s d m) = None /\ r_A (ridge_init N s d m) = mscale N (l_l2 s) (identity N d).
Proof. intros Hs. unfold ridge_init. simpl. rewrite Hs. split; reflexivity. Qed.

End LinRidge.
