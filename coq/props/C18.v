(*  C18 — Results are independent of the data container type; inputs are never modified.
   
    What a model can carry: the facade's dispatch on the container kind, and - since the fourth round - the one conversion whose result
    depends on the STATE of the bandit: contexts given as a pandas Series (Series.v, part of the extracted model and of the C18
    correspondence: half of the generated queries and a third of the training calls arrive as Series).
    PROVED (Series.v): every call with a Series either changes nothing (rejected) or IS the same call with a 2-D array; a query is read
    as several rows of one feature exactly when the feature count the bandit remembers is 1 (first arm's coefficient vector for a linear
    policy alone, width of the stored contexts under Radius / KNearest / LSH / Clusters, width of the fitted trees for TreeBandit), as one
    row otherwise, and is rejected for a context-free bandit, which remembers none; a training call is read as a column when there are
    several decisions (and then needs as many values as decisions), as one row for a single decision.
    PROVED: lists, C- and Fortran-ordered arrays and DataFrames holding the same matrix are converted to the same
    internal matrix; a Series is one column when fit receives more than one decision and one row otherwise, and at
    query time one column exactly when the bandit was trained on a single feature.  In the model every value is
    immutable, so "inputs are never modified" cannot fail there.
    ..._partial: numpy / pandas conversion, dtype, memory order and in-place writes are runtime behaviour; they are
    OBSERVED on every run: the same history through seven container kinds compared with the list run, byte
    snapshots of every caller object before and after each call, and an aliasing probe of the arm list. *)
From Coq Require Import List ZArith Bool Arith QArith Qcanon Permutation.
From MW Require Import Num Assoc AssocFacts Rng Par CF CFInv CFClean CFForget CFSpec Matrix Lin Warm WarmInv Nbr NbrFacts NbrIndep LshFacts Clu Tree CellFacts Mab FacadeCF FacadeArms MoreFacts NumLaws CFAlg Sim Extra QcInst OrderFacts ExpIrrel LinInv FacadeLin LpInv NbrInv CluTreeInv FacadeAll ToyFacts C09All C10All LinForget LinSim MatrixFacts GaussJordan LinSpec NbrIndepGen CluIndep C17Lin WarmIdem C14More LshScale TreeLeaf Rename PopSpec CopyFacts StatFacts CluBatch LinWarm Series.
Import ListNotations.

Theorem C18_conversion_independent_of_container_partial :
  forall (R : Type) (t1 t2 : ctag) (n : nat) (data : list (list R)) (vals : list R),
  t1 <> TSeries ->
  t2 <> TSeries ->
  convert_fit t1 n data vals = convert_fit t2 n data vals /\
  convert_predict t1 n data vals = convert_predict t2 n data vals.
Proof. exact @convert_independent_of_container. Qed.
Print Assumptions C18_conversion_independent_of_container_partial.

Theorem C18_series_disambiguation :
  forall (R : Type) (n : nat) (vals : list R),
  ((1 < n)%nat -> convert_fit TSeries n [] vals = convert_fit TList n (map (fun v : R => [v]) vals) []) /\
  ((n <= 1)%nat -> convert_fit TSeries n [] vals = convert_fit TList n [vals] []) /\
  convert_predict TSeries 1 [] vals = convert_predict TList 1 (map (fun v : R => [v]) vals) [] /\
  (n <> 1%nat -> convert_predict TSeries n [] vals = convert_predict TList n [vals] []).
Proof. exact @series_disambiguation. Qed.
Print Assumptions C18_series_disambiguation.

Theorem C18_series_call_is_an_array_call_or_changes_nothing :
  forall (R A G : Type) (N : Num R) (aeqb : A -> A -> bool) (RG : RngOps R G) (m : (@mab R A G)) (o : (@sop R A)),
  (exists o' : (@op R A), sstep N aeqb RG m o = step N aeqb RG m o') \/ sstep N aeqb RG m o = (m, ORejected).
Proof. exact @series_call_is_an_array_call. Qed.
Print Assumptions C18_series_call_is_an_array_call_or_changes_nothing.

Theorem C18_series_query_is_read_by_the_trained_width :
  forall (R A G : Type) (N : Num R) (aeqb : A -> A -> bool) (RG : RngOps R G) 
    (m : (@mab R A G)) (vals : list R) (orc : (@oracle R A)) (nf : nat),
  m_fitted m = true ->
  mab_num_features aeqb m = Some nf ->
  sstep N aeqb RG m (SPredictExpS vals orc) =
  vstep N aeqb RG m (PredictExp (Some (if nf =? 1 then as_column vals else as_row vals)) orc) /\
  sstep N aeqb RG m (SPredictS vals orc) =
  vstep N aeqb RG m (Predict (Some (if nf =? 1 then as_column vals else as_row vals)) orc).
Proof. exact @series_query_is_read_by_the_trained_width. Qed.
Print Assumptions C18_series_query_is_read_by_the_trained_width.

Theorem C18_series_training_is_read_by_the_number_of_decisions :
  forall (R A G : Type) (N : Num R) (aeqb : A -> A -> bool) (RG : RngOps R G) 
    (m : (@mab R A G)) (ds : list A) (rs vals : list R) (orc : (@oracle R A)),
  ((1 < length ds)%nat ->
   length vals = length ds ->
   sstep N aeqb RG m (SFitS ds rs vals orc) = step N aeqb RG m (Fit ds rs (Some (as_column vals)) orc)) /\
  (length ds = 1%nat ->
   sstep N aeqb RG m (SFitS ds rs vals orc) = step N aeqb RG m (Fit ds rs (Some (as_row vals)) orc)) /\
  (length ds <> 1%nat ->
   length vals <> length ds -> sstep N aeqb RG m (SFitS ds rs vals orc) = (m, ORejected)).
Proof. exact @series_training_is_read_by_the_number_of_decisions. Qed.
Print Assumptions C18_series_training_is_read_by_the_number_of_decisions.


