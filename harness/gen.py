# gen.py — structured case generators.  Every random choice derives from one
# random.Random instance so that a case is reproducible from (VERIF_SEED, index).
import random, math

CF_KINDS = ["greedy", "ucb", "softmax", "popularity", "thompson", "random"]

def dyadic(rng, lo=-64, hi=64, k=4):
    return rng.randint(lo * (1 << k), hi * (1 << k)) / float(1 << k)

def reward_stream(rng, style):
    if style == "dyadic":
        return lambda: dyadic(rng)
    if style == "nonneg_dyadic":
        return lambda: dyadic(rng, 0, 64)
    if style == "float":
        return lambda: rng.uniform(-10, 10)
    if style == "nonneg_float":
        return lambda: rng.uniform(0, 10)
    if style == "large":
        return lambda: rng.choice([1e12, -1e12, 1e-12, 3.0, 7.25e11]) * rng.random()
    if style == "binary":
        return lambda: float(rng.randint(0, 1))
    if style == "smallint":
        return lambda: float(rng.randint(-3, 5))
    if style == "zero":
        return lambda: 0.0
    if style == "tiny":        # legal non-negative rewards of very small magnitude (sums far below any absolute tolerance)
        return lambda: rng.choice([1e-9, 1e-10, 1e-12, 1e-15, 1e-30, 1e-300]) * rng.randint(0, 9)
    if style == "sparse":      # mostly zeros, sometimes a positive dyadic value
        return lambda: 0.0 if rng.random() < 0.7 else dyadic(rng, 0, 8)
    raise ValueError(style)

def gen_hp(rng, kind):
    if kind == "greedy":
        return rng.choice([0.0, 0.0, 0.1, 0.5, 1.0, rng.random()])
    if kind == "ucb":
        return rng.choice([0.0, 1.0, 1.25, 0.05, 10.0, rng.uniform(0, 3)])
    if kind == "softmax":
        return rng.choice([1.0, 0.1, 2.0, 25.0, rng.uniform(0.05, 5)])
    return 0.0

def gen_binz(rng, arms):
    c = rng.random()
    if c < 0.35:
        return ("thr", [(a, dyadic(rng, -4, 4)) for a in sorted(set(arms)) if rng.random() < 0.8], dyadic(rng, -4, 4))
    if c < 0.6:
        return ("flip",)
    if c < 0.85:
        return ("gt", dyadic(rng, -4, 4))
    return ("const", float(rng.randint(0, 1)))

def gen_batch(rng, arms_pool, n, draw, omit_prob=0.3):
    pool = list(arms_pool)
    if len(pool) > 1 and rng.random() < omit_prob:
        drop = rng.sample(pool, rng.randint(1, len(pool) - 1))
        pool = [a for a in pool if a not in drop]
    ds = [rng.choice(pool) for _ in range(n)]
    rs = [draw() for _ in range(n)]
    return ds, rs

def gen_ctx(rng, rows, cols, lo=0, hi=6):
    return [[float(rng.randint(lo, hi)) for _ in range(cols)] for _ in range(rows)]

def pick_m(rng):
    return rng.choice([None, None, 1, 1, 2, 3, 5])

def gen_cf_case(rng, kinds=CF_KINDS, max_ops=8, max_rows=40, queries=True, arm_changes=True,
                warm=False, styles=None, label=None, foreign_decisions=True, ties=False):
    kind = rng.choice(kinds)
    n_arms = rng.randint(2, 6)
    arms = rng.sample(range(0, 12), n_arms)
    removed = []
    next_arm = 12
    if styles is None:
        if kind == "thompson":
            styles = ["binary"]
        elif kind == "popularity":
            styles = ["nonneg_dyadic", "nonneg_float", "binary", "zero", "sparse", "sparse", "tiny"]
        else:
            styles = ["dyadic", "float", "large", "smallint", "binary", "sparse", "tiny"]
    style = rng.choice(styles)
    binz = None
    if kind == "thompson" and rng.random() < 0.4:
        binz = gen_binz(rng, arms)
        style = rng.choice(["dyadic", "smallint", "float"])
    if ties and binz is None:
        style = rng.choice(["zero", "binary", "sparse"]) if kind != "thompson" else "binary"
    draw = reward_stream(rng, style)
    lp = (kind, binz) if kind == "thompson" else ((kind, gen_hp(rng, kind)) if kind in ("greedy", "ucb", "softmax") else (kind,))
    ops = []
    cur = list(arms)
    n_ops = rng.randint(1, max_ops) if max_ops >= 1 else 0
    sizes = [0, 1, 1, 2, 3, 7, 8, 9, 17, max_rows, 128, 129, 131, 300]
    def batch():
        n = rng.choice(sizes) if rng.random() < 0.5 else rng.randint(1, max_rows)
        pool = list(cur)
        if foreign_decisions and removed and rng.random() < 0.2:
            pool = pool + [rng.choice(removed)]
        return gen_batch(rng, pool, n, draw)
    # optional pre-fit arm changes
    if arm_changes and rng.random() < 0.2:
        a = next_arm; next_arm += 1
        ops.append(("add", a, None)); cur.append(a)
    first = rng.choice(["fit", "fit", "fit", "pfit"])
    ds, rs = batch()
    ops.append((first, ds, rs, None))
    for _ in range(n_ops):
        c = rng.random()
        if c < 0.35:
            ds, rs = batch(); ops.append(("pfit", ds, rs, None))
        elif c < 0.45:
            ds, rs = batch(); ops.append(("fit", ds, rs, None))
        elif c < 0.5 and arm_changes and len(cur) > 2:
            a = rng.choice(cur); cur.remove(a); removed.append(a)
            ops.append(("rem", a))
            b = next_arm; next_arm += 1
            ops.append(("add", b, None)); cur.append(b)
        elif c < 0.6 and arm_changes:
            if removed and rng.random() < 0.5:
                a = removed.pop(rng.randrange(len(removed)))
            else:
                a = next_arm; next_arm += 1
            bz = gen_binz(rng, cur + [a]) if (kind == "thompson" and binz is not None and rng.random() < 0.3) else None
            ops.append(("add", a, bz)); cur.append(a)
        elif c < 0.7 and arm_changes and len(cur) > 2:
            a = rng.choice(cur); cur.remove(a); removed.append(a)
            ops.append(("rem", a))
        elif c < 0.78 and warm and len(cur) >= 2:
            ops.append(gen_warm_op(rng, cur))
        elif queries:
            m = pick_m(rng)
            cx = None if m is None else gen_ctx(rng, m, rng.randint(1, 3))
            ops.append((rng.choice(["pred", "pexp"]), cx))
        else:
            ds, rs = batch(); ops.append(("pfit", ds, rs, None))
    if queries:
        ops.append(("pexp", None))
        ops.append(("pred", None))
    return {"arms": arms, "lp": lp, "np": None, "seed": rng.randint(0, 2**31 - 2), "ops": ops,
            "label": label or rng.choice(["int", "str", "float", "int"]), "mode": "exact", "reward_style": style}

def gen_features(rng, arms, dim=None):
    dim = dim or rng.randint(1, 4)
    feats = []
    base = [[float(rng.randint(-3, 3)) for _ in range(dim)] for _ in arms]
    for i, a in enumerate(arms):
        c = rng.random()
        if c < 0.12:
            feats.append([0.0] * dim)                     # zero vector (cosine is NaN)
        elif c < 0.3 and i > 0:
            feats.append(list(feats[rng.randrange(i)]))   # duplicate vector
        elif c < 0.4 and i > 0:
            feats.append([2.0 * v for v in feats[rng.randrange(i)]])  # parallel vector (distance 0)
        else:
            feats.append(base[i])
    return feats

def gen_two_stage_warm(rng, with_final=True, label=None):
    """fit leaving arms cold -> warm_start -> partial_fit that observes a warm-started arm -> add_arm -> (warm_start
    in which the new arm is nearest to that arm): a warm-started arm that has since been observed is a trained arm
    and a legal donor"""
    kind = rng.choice(["greedy", "ucb", "softmax", "popularity", "thompson"])
    n_arms = rng.randint(3, 5)
    arms = rng.sample(range(0, 12), n_arms)
    style = "binary" if kind == "thompson" else rng.choice(["nonneg_dyadic", "binary", "smallint"] if kind != "popularity" else ["nonneg_dyadic", "binary"])
    draw = reward_stream(rng, style)
    lp = (kind, None) if kind == "thompson" else ((kind, gen_hp(rng, kind)) if kind in ("greedy", "ucb", "softmax") else (kind,))
    n_cold = rng.randint(1, n_arms - 2)
    cold = rng.sample(arms, n_cold)
    hot = [a for a in arms if a not in cold]
    def batch(pool, n):
        ds = [rng.choice(pool) for _ in range(n)]
        for a in pool:
            ds[rng.randrange(n)] = a if rng.random() < 0.8 else ds[0]
        return ds, [draw() for _ in range(n)]
    ops = []
    ds, rs = batch(hot, rng.randint(len(hot) + 2, 14)); ops.append(("fit", ds, rs, None))
    dim = rng.randint(2, 3)
    feat = {a: [float(rng.randint(1, 5)) for _ in range(dim)] for a in arms}
    keys = list(arms); rng.shuffle(keys)
    ops.append(("warm", keys, [feat[a] for a in keys], 1.0))
    # observe (some of) the warm-started arms
    seen = rng.sample(cold, rng.randint(1, len(cold)))
    ds, rs = batch(seen + ([rng.choice(hot)] if rng.random() < 0.5 else []), rng.randint(2, 8)); ops.append(("pfit", ds, rs, None))
    new = 12 + rng.randint(0, 3)
    ops.append(("add", new, None))
    cur = arms + [new]
    if with_final:
        x = rng.choice(seen)
        feat[new] = [v * rng.choice([1.0, 2.0]) for v in feat[x]] if rng.random() < 0.7 else [float(rng.randint(1, 5)) for _ in range(dim)]
        keys = list(cur); rng.shuffle(keys)
        ops.append(("warm", keys, [feat[a] for a in keys], rng.choice([1.0, 1.0, 0.5, 0.75])))
        ops.append(("pexp", None)); ops.append(("pred", None))
    return {"arms": arms, "lp": lp, "np": None, "seed": rng.randint(0, 2**31 - 2), "ops": ops,
            "label": label or rng.choice(["int", "str", "float", "int"]), "mode": "exact", "reward_style": style}

def gen_warm_op(rng, cur):
    keys = list(cur)
    if rng.random() < 0.5:
        rng.shuffle(keys)
    q = rng.choice([0.0, 0.25, 0.5, 0.75, 1.0, rng.random()])
    feats = gen_features(rng, keys)
    if rng.random() < 0.3:
        # exact distance ties between several arms: one-hot category features
        dim = rng.randint(2, 3)
        feats = [[1.0 if j == (i % dim) else 0.0 for j in range(dim)] for i in range(len(keys))]
    return ("warm", keys, feats, float(q))

# ---------------------------------------------------------------- contextual cases
LIN_KINDS = ["lingreedy", "linucb", "lints"]
NP_KINDS = ["radius", "knearest", "lsh", "clusters", "tree"]
METRICS = ["cityblock", "chebyshev", "sqeuclidean", "euclidean"]

def gen_lin_lp(rng, kind, scale_ok=True, force_scale=False):
    l2 = rng.choice([0.25, 0.5, 1.0, 1.0, 2.0, 4.0, 10.0])
    scale = (scale_ok and rng.random() < 0.2) or force_scale
    if kind == "lingreedy":
        return (kind, rng.choice([0.0, 0.0, 0.0, 0.25]), l2, scale, True)
    if kind == "linucb":
        return (kind, rng.choice([0.0, 0.5, 1.0, 1.25]), l2, scale, True)
    return (kind, rng.choice([1.0, 0.5, 1e-9, 2.0]), l2, scale, True)

def grid_dist(metric, u, v):
    d = [abs(a - b) for a, b in zip(u, v)]
    if metric == "cityblock": return float(sum(d))
    if metric == "chebyshev": return float(max(d))
    if metric == "sqeuclidean": return float(sum(x * x for x in d))
    return math.sqrt(sum(x * x for x in d))

def gen_ctx_case(rng, lps=None, nps=None, max_ops=6, max_rows=30, arm_changes=True, warm=False, label=None,
                 reward_styles=None, queries=True, grid=4, force_dim=None, fit_prob=0.1, swap_prob=0.06, ties=False, lints_nbhd=False, force_scale=False, njobs=True,
                 nnprob_arm_changes=False):
    npk = rng.choice(nps if nps is not None else ["none"] + NP_KINDS)
    if lps is None:
        lps = CF_KINDS + LIN_KINDS if npk != "none" else LIN_KINDS
    allowed = list(lps)
    if npk == "tree":
        allowed = [k for k in allowed if k in ("greedy", "ucb", "thompson")] or ["ucb"]
    if npk == "clusters":
        allowed = [k for k in allowed if k != "popularity"] or ["ucb"]
    if npk != "none" and not lints_nbhd:
        allowed = [k for k in allowed if k != "lints"] or ["linucb"]   # finding D8: LinTS under a neighbourhood policy
    kind = rng.choice(allowed)
    n_arms = rng.randint(2, 4)
    arms = rng.sample(range(0, 9), n_arms)
    d = force_dim or rng.randint(1, 4)
    is_lin = kind in LIN_KINDS
    binz = None
    if is_lin:
        lp = gen_lin_lp(rng, kind, scale_ok=(npk == "none"), force_scale=force_scale and npk == "none")
        style = rng.choice(reward_styles or ["dyadic", "smallint", "float"])
    elif kind == "thompson":
        style = "binary"
        if rng.random() < 0.3:
            binz = gen_binz(rng, arms); style = rng.choice(["dyadic", "smallint"])
        lp = (kind, binz)
    else:
        lp = (kind, gen_hp(rng, kind)) if kind in ("greedy", "ucb", "softmax") else (kind,)
        style = rng.choice(reward_styles or (["nonneg_dyadic", "binary"] if kind == "popularity" else ["dyadic", "smallint", "float", "binary"]))
    if npk == "lsh" and style == "float":
        style = "dyadic"
    if npk == "tree" and kind == "greedy":
        lp = (kind, rng.choice([0.0, 0.0, 0.3]))
    if ties and not is_lin:
        # exact ties between arms: constant rewards and no exploration bonus
        style = rng.choice(["zero", "binary", "sparse"]) if kind != "thompson" or binz is None else style
        if kind in ("greedy", "ucb"):
            lp = (kind, 0.0)
    draw = reward_stream(rng, style)
    # neighbourhood parameters
    first_rows = rng.randint(3, max_rows)
    if npk == "radius":
        metric = rng.choice(METRICS)
        npol = ["radius", None, metric, None]
    elif npk == "knearest":
        npol = ["knearest", rng.randint(1, min(5, first_rows)), rng.choice(METRICS)]
    elif npk == "lsh":
        npol = ["lsh", rng.randint(1, 6), rng.randint(1, 3), None]
    elif npk == "clusters":
        npol = ["clusters", rng.randint(2, 3), rng.random() < 0.25]
        first_rows = max(first_rows, 6)
    elif npk == "tree":
        npol = ["tree", rng.choice([{}, {}, {"max_depth": 2}, {"min_samples_leaf": 2}, {"max_depth": 1}]), (True, True)]
    else:
        npol = None
    cur = list(arms); removed = []; next_arm = 9
    ops = []
    stored = []
    def batch(n):
        ds, rs = gen_batch(rng, cur, n, draw, omit_prob=0.45)
        cx = gen_ctx(rng, n, d, 0, grid)
        return ds, rs, cx
    ds, rs, cx = batch(first_rows)
    if npk == "clusters":
        # make sure there are enough distinct points
        for i in range(min(len(cx), 4)):
            cx[i] = [float((i * 3 + j) % (grid + 1)) for j in range(d)]
            cx[i][0] = float(i % (grid + 1))
    ops.append(("fit", ds, rs, cx)); stored += cx
    if npk == "radius":
        q = gen_ctx(rng, 1, d, 0, grid)[0]
        cand = sorted(set(grid_dist(npol[2], c, q) for c in stored) | {0.5})
        r = rng.choice([c for c in cand if c > 0] or [1.0])
        npol[1] = float(r)
        if rng.random() < 0.3:
            p = [rng.random() for _ in arms]
            if rng.random() < 0.5:
                p[rng.randrange(len(p))] = 0.0
            tot = sum(p); npol[3] = [x / tot for x in p]
    if npk == "lsh" and rng.random() < 0.3:
        p = [rng.random() for _ in arms]; tot = sum(p); npol[3] = [x / tot for x in p]
    n_ops = rng.randint(1, max_ops) if max_ops >= 1 else 0
    # finding D24: with no_nhood_prob_of_arm given, an arm change makes predict raise on an empty neighbourhood (the list is not resized);
    # such histories are generated (the model rejects the query too) unless the caller asks for fixed arms
    fixed_arms = (not nnprob_arm_changes) and npol is not None and npol[0] in ("radius", "lsh") and npol[3] is not None
    for _ in range(n_ops):
        c = rng.random()
        if c < 0.3:
            ds, rs, cx = batch(rng.choice([1, 1, 2, rng.randint(1, max_rows)]))
            ops.append(("pfit", ds, rs, cx)); stored += cx
        elif c < 0.3 + fit_prob and not (is_lin and lp[3]):
            ds, rs, cx = batch(rng.randint(max(3, (npol[1] if npk in ("knearest",) else 3)), max_rows) if npk != "clusters" else rng.randint(6, max_rows))
            if npk == "clusters":
                for i in range(min(len(cx), 4)):
                    cx[i] = [float((i * 2 + j) % (grid + 1)) for j in range(d)]; cx[i][0] = float(i % (grid + 1))
            ops.append(("fit", ds, rs, cx)); stored = list(cx)
        elif c < 0.3 + fit_prob + swap_prob and arm_changes and not fixed_arms and len(cur) > 2:
            a = rng.choice(cur); cur.remove(a); removed.append(a)
            ops.append(("rem", a))
            b = next_arm; next_arm += 1
            ops.append(("add", b, None)); cur.append(b)
        elif c < 0.54 and arm_changes and not fixed_arms:
            if removed and rng.random() < 0.5:
                a = removed.pop(rng.randrange(len(removed)))
            else:
                a = next_arm; next_arm += 1
            # a Thompson policy with a binarizer may receive another binarizer together with the new arm
            bz = gen_binz(rng, cur + [a]) if (kind == "thompson" and binz is not None and rng.random() < 0.35) else None
            ops.append(("add", a, bz)); cur.append(a)
        elif c < 0.62 and arm_changes and len(cur) > 2 and not fixed_arms:
            a = rng.choice(cur); cur.remove(a); removed.append(a)
            ops.append(("rem", a))
        elif c < 0.68 and warm and npk == "none" and len(cur) >= 2:
            ops.append(gen_warm_op(rng, cur))
        elif queries:
            m = rng.choice([1, 1, 2, 3, 5])
            q = []
            for _ in range(m):
                z = rng.random()
                if z < 0.4 and stored:
                    q.append(list(rng.choice(stored)))
                elif z < 0.5 and stored and npk == "lsh":
                    q.append([2.0 * v for v in rng.choice(stored)])
                elif z < 0.6:
                    q.append([float(grid + 20 + rng.randint(0, 3))] * d if npk != "lsh" else [-float(rng.randint(1, 9)) for _ in range(d)])
                else:
                    q.append(gen_ctx(rng, 1, d, 0, grid)[0])
            ops.append((rng.choice(["pred", "pexp", "pexp"]), q))
    if queries:
        ops.append(("pexp", gen_ctx(rng, 2, d, 0, grid)))
        ops.append(("pred", [list(rng.choice(stored))]))
    if is_lin and lp[3] and rng.random() < 0.4:
        # scale=True: one feature with a small but non-negligible spread (std between the scaler tolerance and 1e-3)
        # (base/delta is kept below 1e5: the variance of such a column is computed with cancellation, and sklearn's and the
        #  model's roundings then differ by about base/delta ulps - a larger ratio would need a looser comparison)
        j = rng.randrange(d); base = rng.choice([0.7, 3.0, 0.0, 1.5]); delta = rng.choice([1e-4, 2e-4, 3e-5, 2.5e-4])
        def squeeze(cx):
            return [[(base + v * delta) if k == j else v for k, v in enumerate(row)] for row in cx]
        ops = [((o[0], o[1], o[2], squeeze(o[3])) if o[0] in ("fit", "pfit") else ((o[0], squeeze(o[1])) if o[0] in ("pred", "pexp") else o)) for o in ops]
    case = {"arms": arms, "lp": lp, "np": None if npol is None else tuple(npol), "seed": rng.randint(0, 2**31 - 2), "ops": ops,
            "label": label or rng.choice(["int", "str", "float", "int"]), "mode": "tol" if is_lin else "exact",
            "reward_style": style}
    # a quarter of the contextual cases run with several workers (threads): the rows of a query are split among them.
    # Excluded: policies whose draws are known to depend on the partition (findings D7: TreeBandit leaves that draw; D8: LinTS)
    draws_in_tree = npk == "tree" and (kind == "thompson" or (kind == "greedy" and lp[1] > 0))
    if njobs and npk != "none" and not draws_in_tree and kind != "lints" and rng.random() < 0.25:
        case["n_jobs"] = rng.choice([2, 3]); case["backend"] = "threading"
    if rng.random() < 0.2:
        case["int_ctx"] = True      # training contexts are passed as int64 arrays (the values are integral anyway)
    if npk in ("radius", "knearest", "lsh", "clusters") and rng.random() < 0.2:
        # mixed dtypes along the history: the first batches are integer-typed (contexts, and rewards where the policy allows),
        # later partial_fit batches carry half-integers: the stored history must hold the rows that were passed in
        case["int_ctx"] = True
        frac_rs = (not is_lin) and kind not in ("thompson",) and style in ("smallint", "binary", "nonneg_dyadic", "dyadic")
        if frac_rs:
            case["int_rs"] = True
        def half_batch(n):
            ds, rs, cx = batch(n)
            cx = [[v + 0.5 if rng.random() < 0.6 else v for v in row] for row in cx]
            if frac_rs:
                rs = [float(int(r)) + (0.5 if rng.random() < 0.6 else 0.0) for r in rs]
            return ds, rs, cx
        extra = []
        ds, rs, cx = batch(rng.randint(1, 3)); extra.append(("pfit", ds, [float(int(r)) for r in rs] if frac_rs else rs, cx)); stored += cx
        for _ in range(rng.randint(1, 2)):
            ds, rs, cx = half_batch(rng.randint(1, 4)); extra.append(("pfit", ds, rs, cx)); stored += cx
            extra.append(("pexp", [list(c) for c in cx[:2]] + [list(rng.choice(stored))]))
        if frac_rs:
            case["ops"] = [((o[0], o[1], [float(int(r)) for r in o[2]], o[3]) if o[0] in ("fit", "pfit") else o) for o in case["ops"]]
        case["ops"] = case["ops"] + extra
    return case
